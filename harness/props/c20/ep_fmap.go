package c20

// Flash map: fmap.Read, ReadArea, Write, WriteArea on hostile images (pkg/fmap).

import (
	"bytes"
	"crypto/sha256"
	"encoding/binary"
	"errors"
	"fmt"
	"math/rand"
	"strconv"

	"github.com/linuxboot/fiano/pkg/fmap"

	"verif/harness/core"
)

// fixedBuf: in-memory WriteSeeker / WriterAt over a buffer that cannot grow.
type fixedBuf struct {
	b   []byte
	pos int64
}

var errIO = errors.New("write outside buffer")

func (f *fixedBuf) Seek(off int64, whence int) (int64, error) {
	if whence != 0 || off < 0 {
		return 0, errIO
	}
	f.pos = off
	return off, nil
}
func (f *fixedBuf) Write(p []byte) (int, error) {
	n, err := f.WriteAt(p, f.pos)
	f.pos += int64(n)
	return n, err
}
func (f *fixedBuf) WriteAt(p []byte, off int64) (int, error) {
	if off < 0 || off > int64(len(f.b)) || int64(len(p)) > int64(len(f.b))-off {
		return 0, errIO
	}
	copy(f.b[off:], p)
	return len(p), nil
}

func fmapRels(img []byte, start, nAreas int) []Rel {
	var rs []Rel
	rd := func(o int) uint64 {
		return uint64(img[o]) | uint64(img[o+1])<<8 | uint64(img[o+2])<<16 | uint64(img[o+3])<<24
	}
	for i := 0; i < nAreas; i++ {
		o := start + 56 + 42*i
		off, sz := rd(o), rd(o+4)
		rs = append(rs, Rel{Field: core.Field{Name: "Area.Size", Off: o + 4, W: 4}, Fit: uint64(len(img)) - off},
			Rel{Field: core.Field{Name: "Area.Offset", Off: o, W: 4}, Fit: uint64(len(img)) - sz})
	}
	rs = append(rs, Rel{Field: core.Field{Name: "NAreas", Off: start + 54, W: 2}, Fit: uint64((len(img) - start - 56) / 42)})
	return rs
}

func fmapImage(r *rand.Rand, imgLen, start, nAreas int) ([]byte, []core.Field) {
	img := make([]byte, imgLen)
	for i := range img {
		img[i] = byte(i * 7)
	}
	var f fmap.FMap
	copy(f.Signature[:], fmap.Signature)
	f.VerMajor, f.VerMinor = 1, 1
	f.Base = 0xff000000
	f.Size = uint32(imgLen)
	copy(f.Name.Value[:], "FLASH")
	for i := 0; i < nAreas; i++ {
		var a fmap.Area
		a.Offset = uint32(i * (imgLen / (nAreas + 1)))
		a.Size = uint32(imgLen / (nAreas + 1))
		copy(a.Name.Value[:], fmt.Sprintf("AREA%d", i))
		a.Flags = uint16(i % 8)
		f.Areas = append(f.Areas, a)
	}
	f.NAreas = uint16(nAreas)
	var b bytes.Buffer
	binary.Write(&b, binary.LittleEndian, f.Header)
	binary.Write(&b, binary.LittleEndian, f.Areas)
	copy(img[start:], b.Bytes())
	fs := []core.Field{
		{Name: "VerMajor", Off: start + 8, W: 1, Hdr: 56},
		{Name: "Size", Off: start + 18, W: 4, Hdr: 56},
		{Name: "Base", Off: start + 10, W: 8, Hdr: 56},
		{Name: "NAreas", Off: start + 54, W: 2, Hdr: 56},
		{Name: "NameLast", Off: start + 53, W: 1, Hdr: 56},
	}
	for i := 0; i < nAreas; i++ {
		o := start + 56 + 42*i
		fs = append(fs,
			core.Field{Name: fmt.Sprintf("Area%d.Offset", i), Off: o, W: 4, Hdr: 42},
			core.Field{Name: fmt.Sprintf("Area%d.Size", i), Off: o + 4, W: 4, Hdr: 42},
			core.Field{Name: fmt.Sprintf("Area%d.Flags", i), Off: o + 40, W: 2, Hdr: 42})
	}
	return img, fs
}

// manyHeaders: a header-valid "__FMAP__" every 56 bytes, each claiming as many areas as fit in
// the rest of the image (the quadratic input of reports/findings-todo.md).
func manyHeaders(n int) []byte {
	img := make([]byte, n)
	for p := 0; p+56 <= n; p += 56 {
		copy(img[p:], fmap.Signature)
		img[p+8] = 1
		le32(img, p+18, 0x1000)
		img[p+22] = 'X'
		na := (n - p - 56) / 42
		if na > 65535 {
			na = 65535
		}
		le16(img, p+54, uint16(na))
	}
	return img
}

func fmapSeeds(r *rand.Rand) []Seed {
	var ss []Seed
	img, fs := fmapImage(r, 1024, 128, 3)
	ss = append(ss, Seed{Name: "map3", In: img, Fields: fs, Rels: fmapRels(img, 128, 3), Heads: []int{128}})
	img, fs = fmapImage(r, 600, 0, 1)
	ss = append(ss, Seed{Name: "map1-at0", In: img, Fields: fs, Rels: fmapRels(img, 0, 1), Heads: []int{0}})
	img, fs = fmapImage(r, 700, 700-56-42*2, 2)
	ss = append(ss, Seed{Name: "map2-at-end", In: img, Fields: fs, Rels: fmapRels(img, 700-56-42*2, 2), Heads: []int{700 - 56 - 42*2}})
	// a valid map followed by a second header-valid signature
	img, fs = fmapImage(r, 1024, 64, 2)
	copy(img[512:], img[64:64+56])
	ss = append(ss, Seed{Name: "two-maps", In: img, Fields: fs, Heads: []int{64}})
	return ss
}

// ---- signature-scan shapes (gap closing round 3)
//
// fmap.Read is a scan loop over every "__FMAP__" of the image with four ways out of an iteration: no
// further signature, header cut off by the end of the image, header invalid, header valid (areas read or
// cut off).  The images below are concatenations of pieces that put each of these candidates before /
// after / between the others and the last candidate at every interesting distance from the end of the
// image (the 56-byte header fits exactly, lacks one byte, nothing but the signature, not even that).

type fmapPiece []byte

// fpValid: a complete map (header + n areas); the last area is named `lastName` when given
func fpValid(n int, lastName string) fmapPiece {
	b := make([]byte, 56+42*n)
	copy(b, fmap.Signature)
	b[8], b[9] = 1, 1
	le64(b, 10, 0xff000000)
	le32(b, 18, 0x1000)
	copy(b[22:], "FLASH")
	le16(b, 54, uint16(n))
	for i := 0; i < n; i++ {
		o := 56 + 42*i
		le32(b, o, uint32(0x100*i))
		le32(b, o+4, 0x100)
		copy(b[o+8:], fmt.Sprintf("AREA%d", i))
		if i == n-1 && lastName != "" {
			copy(b[o+8:], lastName+"\x00")
		}
	}
	return b
}

// fpSig: a signature followed by k bytes that do not make a valid header (VerMajor = 0, no size)
func fpSig(k int) fmapPiece {
	b := make([]byte, 8+k)
	copy(b, fmap.Signature)
	for i := 8; i < len(b); i++ {
		b[i] = 0
	}
	return b
}

// fpHdr: a header-valid 56-byte candidate announcing n areas that are not there
func fpHdr(n int) fmapPiece { return fpValid(0, "")[:54:54].with16(n) }

func (p fmapPiece) with16(n int) fmapPiece {
	b := append(append([]byte(nil), p...), 0, 0)
	le16(b, 54, uint16(n))
	return b
}

// fpGap: k filler bytes without a signature
func fpGap(k int) fmapPiece { return bytes.Repeat([]byte{0xa5}, k) }

func fpCat(ps ...fmapPiece) []byte {
	var b []byte
	for _, p := range ps {
		b = append(b, p...)
	}
	return b
}

func fmapScanShapes(tier string) []Seed {
	var ss []Seed
	add := func(name string, ps ...fmapPiece) { ss = append(ss, Seed{Name: name, In: fpCat(ps...)}) }
	V := fpValid(1, "")
	// the last signature starts d bytes before the end of the image; before it: nothing | a valid map |
	// an invalid-header candidate and a valid map | two valid maps
	ds := []int{8, 9, 16, 47, 48, 54, 55, 56, 57}
	if tier == "thorough" {
		ds = nil
		for d := 8; d <= 72; d++ {
			ds = append(ds, d)
		}
	}
	for _, d := range ds {
		add(fmt.Sprintf("tail-sig-%d/none-before", d), fpGap(13), fpSig(d-8))
		add(fmt.Sprintf("tail-sig-%d/valid-before", d), fpGap(13), V, fpGap(5), fpSig(d-8))
		if tier == "thorough" || d == 8 || d == 55 || d == 56 {
			add(fmt.Sprintf("tail-sig-%d/invalid+valid-before", d), fpSig(48), V, fpSig(d-8))
		}
		if tier == "thorough" {
			add(fmt.Sprintf("tail-sig-%d/two-valid-before", d), V, V, fpSig(d-8))
			add(fmt.Sprintf("tail-sig-%d/valid-far-before", d), V, fpGap(5000), fpSig(d-8))
		}
	}
	add("tail-sig-40/two-valid-before", V, V, fpSig(32))
	add("tail-sig-40/valid-far-before", V, fpGap(5000), fpSig(32))
	// a partial signature at the very end (1..7 bytes of it): not a candidate at all
	for _, k := range []int{1, 7} {
		add(fmt.Sprintf("tail-partial-%d/valid-before", k), V, fpGap(3), fpSig(0)[:k])
		add(fmt.Sprintf("tail-partial-%d/none-before", k), fpGap(3), fpSig(0)[:k])
	}
	// the last candidate is header-valid and complete, its area table is cut off / absent / empty
	add("tail-hdr-areas-cut/none-before", fpGap(7), fpHdr(1), fpGap(41))
	add("tail-hdr-areas-cut/valid-before", V, fpHdr(1), fpGap(41))
	add("tail-hdr-noareas/none-before", fpHdr(0))
	add("tail-hdr-noareas/valid-before", V, fpHdr(0))
	add("tail-hdr-65535-areas/none-before", fpHdr(65535), fpGap(100))
	// two (three) cut-off signatures in a row; back to back; overlapping on the shared "__"
	add("two-tail-sigs/valid-before", V, fpSig(10), fpSig(5))
	add("two-tail-sigs/none-before", fpSig(10), fpSig(5))
	add("three-tail-sigs-back-to-back/valid-before", V, fpSig(0), fpSig(0), fpSig(0))
	add("overlapping-tail-sigs/valid-before", V, fpSig(0)[:6], fpSig(0))
	add("overlapping-tail-sigs/none-before", fpSig(0)[:6], fpSig(0))
	// a signature whose (invalid) header window contains the valid map: the candidate in front cannot be cut
	// off by the end of the image, but the window of its header can end inside / exactly at the end of the map
	for _, k := range []int{0, 1, 8, 40, 47} {
		add(fmt.Sprintf("sig-%d-before-valid", k), fpGap(9), fpSig(k), V)
		add(fmt.Sprintf("sig-%d-before-valid+tail-sig", k), fpSig(k), V, fpSig(20))
	}
	add("sig-0-before-noareas-map-at-end", fpSig(0), fpHdr(0)) // the first header read gets 48+8 bytes: exactly fits
	add("sig-1-before-noareas-map-at-end", fpSig(1), fpHdr(0))
	// the valid map ends the image and carries the signature inside its own last area (name / offset bytes):
	// a cut-off candidate *inside* the map already found
	add("valid-at-end/last-area-named-signature", fpGap(11), fpValid(1, "__FMAP__"))
	add("valid-at-end/3-areas-last-named-signature", fpValid(3, "__FMAP__"))
	add("valid-at-end/flash-named-signature", func() fmapPiece { b := fpValid(0, ""); copy(b[22:], "__FMAP__"); return b }())
	add("valid/area-named-signature+gap", fpValid(2, "__FMAP__"), fpGap(100))
	// nothing but signatures: every 8 bytes, up to the end (each candidate is invalid until the last ones are cut off)
	add("only-signatures-64", bytes.Repeat(fpSig(0), 8))
	add("only-signatures-4K", bytes.Repeat(fpSig(0), 512))
	add("valid+only-signatures-4K", V, bytes.Repeat(fpSig(0), 512))
	return ss
}

func readIdx(args map[string]string) int {
	i, _ := strconv.Atoi(args["i"])
	return i
}

func init() {
	Register(&EP{
		Name: "fmap.read",
		Seeds: func(r *rand.Rand) []Seed {
			ss := fmapSeeds(r)
			ss = append(ss, Seed{Name: "attack-many-headers-16K", In: manyHeaders(16 << 10)})
			ss = append(ss, Seed{Name: "attack-many-headers-256K", In: manyHeaders(256 << 10)})
			return ss
		},
		Run: func(in []byte, _ map[string]string) Res {
			_, _, err := fmap.Read(bytes.NewReader(in))
			return Res{Class: class(err)}
		},
		Shapes: fmapScanShapes,
		Model:  hexReq("fmap.read"),
	})

	// ReadArea of area i of the map found in the hostile image (and the range errors)
	areaSeeds := func(r *rand.Rand) []Seed {
		var ss []Seed
		for _, s := range fmapSeeds(r)[:3] {
			for _, i := range []int{-1, 0, 1, 2, 3, 70000} {
				ss = append(ss, Seed{Name: fmt.Sprintf("%s/i=%d", s.Name, i), In: s.In, Fields: s.Fields, Rels: s.Rels,
					Args: map[string]string{"i": strconv.Itoa(i), "n": "40"}})
			}
		}
		return ss
	}
	Register(&EP{
		Name:  "fmap.readarea",
		Seeds: areaSeeds,
		Run: func(in []byte, args map[string]string) Res {
			f, _, err := fmap.Read(bytes.NewReader(in))
			if err != nil {
				return Res{Class: "err", Sub: "read"}
			}
			// an area is a copy of part of the image: nothing beyond |in| is legitimately produced
			_, err = f.ReadArea(bytes.NewReader(in), readIdx(args))
			return Res{Class: class(err)}
		},
		Model: func(in []byte, args map[string]string, _ Res) string {
			return "fmap.readarea " + core.Hex(in) + " " + args["i"]
		},
		Quick: 900,
	})
	Register(&EP{
		Name:  "fmap.writearea",
		Seeds: areaSeeds,
		Run: func(in []byte, args map[string]string) Res {
			f, _, err := fmap.Read(bytes.NewReader(in))
			if err != nil {
				return Res{Class: "err", Sub: "read"}
			}
			n, _ := strconv.Atoi(args["n"])
			data := bytes.Repeat([]byte{0xa5}, n)
			fb := &fixedBuf{b: append([]byte(nil), in...)}
			err = f.WriteArea(fb, readIdx(args), data)
			return Res{Class: class(err)}
		},
		Model: func(in []byte, args map[string]string, _ Res) string {
			return "fmap.writearea " + core.Hex(in) + " " + args["i"] + " " + args["n"]
		},
		Quick: 900,
	})
	// Checksum (cmds/fmap checksum): hash of the static areas of the map found in the hostile image — the
	// other caller of the area sizes besides ReadArea.  No GoM model: O checks only.  The hostile map of
	// reports/C20-fmap-checksum-hostile.json (700 static areas that each span the whole image) is not a
	// seed here as long as fixes/C20-fmap-checksum-alloc.diff is not in /repo.
	Register(&EP{
		Name: "fmap.checksum",
		Late: true,
		Seeds: func(r *rand.Rand) []Seed {
			ss := fmapSeeds(r)[:3]
			// every area static, all of them over the whole image (a handful: within the bound either way)
			img, fs := fmapImage(r, 2048, 32, 8)
			for i := 0; i < 8; i++ {
				o := 32 + 56 + 42*i
				le32(img, o, 0)
				le32(img, o+4, 2048)
				le16(img, o+40, fmap.FmapAreaStatic)
			}
			ss = append(ss, Seed{Name: "map8-static-overlapping", In: img, Fields: fs, Rels: fmapRels(img, 32, 8), Heads: []int{32}})
			return ss
		},
		Run: func(in []byte, _ map[string]string) Res {
			f, _, err := fmap.Read(bytes.NewReader(in))
			if err != nil {
				return Res{Class: "err", Sub: "read"}
			}
			_, err = f.Checksum(bytes.NewReader(in), sha256.New())
			return Res{Class: class(err)}
		},
		Quick: 300,
	})
	// Write the map just read back at a hostile start offset
	Register(&EP{
		Name: "fmap.write",
		Seeds: func(r *rand.Rand) []Seed {
			var ss []Seed
			for _, s := range fmapSeeds(r)[:3] {
				for _, st := range []string{"0", "128", "1000", "1024", "4294967295", "9223372036854775807", "18446744073709551615"} {
					ss = append(ss, Seed{Name: s.Name + "/start=" + st, In: s.In, Fields: s.Fields, Args: map[string]string{"start": st}})
				}
			}
			return ss
		},
		Run: func(in []byte, args map[string]string) Res {
			f, _, err := fmap.Read(bytes.NewReader(in))
			if err != nil {
				return Res{Class: "err", Sub: "read"}
			}
			st, _ := strconv.ParseUint(args["start"], 10, 64)
			fb := &fixedBuf{b: append([]byte(nil), in...)}
			err = fmap.Write(fb, f, &fmap.Metadata{Start: st})
			return Res{Class: class(err)}
		},
		Model: func(in []byte, args map[string]string, _ Res) string {
			return "fmap.write " + core.Hex(in) + " " + args["start"]
		},
		Quick: 700,
	})
}
