package c20

// Boot Guard 1.0 and CBnT key manifests / boot policy manifests: ReadFrom on hostile bytes
// (pkg/intel/metadata/{bg,cbnt}).  The layouts are variable (lists prefixed by 16-bit counts,
// keys and signatures whose size follows from an algorithm field), so the field map is "a 16-bit
// and an 8-bit field at every offset" — a superset of the real count / size / offset fields.

import (
	"bytes"
	"io"
	"math/rand"

	"github.com/linuxboot/fiano/pkg/intel/metadata/bg/bgbootpolicy"
	"github.com/linuxboot/fiano/pkg/intel/metadata/bg/bgkey"
	"github.com/linuxboot/fiano/pkg/intel/metadata/cbnt/cbntbootpolicy"
	"github.com/linuxboot/fiano/pkg/intel/metadata/cbnt/cbntkey"

	"verif/harness/core"
)

type readerFrom interface {
	ReadFrom(r io.Reader) (int64, error)
}

func manifestEP(name string, files []string, mk func() readerFrom, after func(readerFrom)) {
	Register(&EP{
		Name: name,
		Seeds: func(r *rand.Rand) []Seed {
			var ss []Seed
			for _, p := range files {
				b := readRepoFile(p)
				if len(b) == 0 {
					continue
				}
				fs := append(everyOffset(len(b), 2, "u16"), everyOffset(len(b), 1, "u8")...)
				fs = append(fs, core.Field{Name: "u32@12", Off: 12, W: 4})
				ss = append(ss, Seed{Name: p[len("pkg/intel/metadata/"):], In: b, Fields: fs})
			}
			return ss
		},
		Run: func(in []byte, _ map[string]string) Res {
			m := mk()
			_, err := m.ReadFrom(bytes.NewReader(in))
			if err == nil && after != nil {
				after(m)
			}
			return Res{Class: class(err)}
		},
		Quick:    700,
		Thorough: 60000,
	})
}

func init() {
	manifestEP("bg.km.read", []string{"pkg/intel/metadata/bg/bgkey/testdata/km.bin"},
		func() readerFrom { return bgkey.NewManifest() },
		func(m readerFrom) {
			km := m.(*bgkey.Manifest)
			_ = km.TotalSize()
			_ = km.PrettyString(0, true)
		})
	manifestEP("bg.bpm.read", []string{"pkg/intel/metadata/bg/bgbootpolicy/testdata/bpm.bin",
		"pkg/intel/metadata/bg/bgbootpolicy/testdata/bpm2.bin", "pkg/intel/metadata/bg/bgbootpolicy/testdata/bpm3.bin"},
		func() readerFrom { return bgbootpolicy.NewManifest() },
		func(m readerFrom) {
			bpm := m.(*bgbootpolicy.Manifest)
			_ = bpm.TotalSize()
			_ = bpm.PrettyString(0, true)
		})
	manifestEP("cbnt.km.read", []string{"pkg/intel/metadata/cbnt/cbntkey/testdata/km.bin"},
		func() readerFrom { return cbntkey.NewManifest() },
		func(m readerFrom) {
			km := m.(*cbntkey.Manifest)
			_ = km.TotalSize()
			_ = km.PrettyString(0, true)
		})
	manifestEP("cbnt.bpm.read", []string{"pkg/intel/metadata/cbnt/cbntbootpolicy/testdata/bpm.bin"},
		func() readerFrom { return cbntbootpolicy.NewManifest() },
		func(m readerFrom) {
			bpm := m.(*cbntbootpolicy.Manifest)
			_ = bpm.TotalSize()
			_ = bpm.PrettyString(0, true)
		})
}
