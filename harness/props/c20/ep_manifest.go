package c20

// Boot Guard 1.0 and CBnT manifests: ReadFrom of every one of the 33 generated structures on hostile
// bytes (pkg/intel/metadata/{bg,cbnt}/**/*_manifestcodegen.go).
//
//   - bg.km.read, bg.bpm.read, cbnt.km.read, cbnt.bpm.read: the four manifests on the binaries of the
//     package tests (+ TotalSize / PrettyString of what was read);
//   - mf.<pkg>.<T>: ReadFrom of each structure type on its own: the seeds are the sub-structures of
//     the parsed test binaries, written back with fiano's WriteTo (collected by reflection), and the
//     zero value of the type.
//
// The layouts are variable (lists prefixed by 8/16-bit counts, keys and signatures whose size follows
// from an algorithm field), so the field map is "a 16-bit and an 8-bit field at every offset" — a
// superset of the real count / size / offset fields.
//
// Model (lean/FianoModel/Total/Manifest.lean): the *generic* GoM reader run on the layout that
// Gen/Manifest.lean prescribes for the type; compared: ok:n=<bytes counted> | err, and the model's
// allocation meter <= TotalAlloc.  manifest.memsize compares the model's unsafe.Sizeof with Go's.

import (
	"bytes"
	"fmt"
	"io"
	"math/rand"
	"reflect"
	"sort"
	"strings"

	"github.com/linuxboot/fiano/pkg/intel/metadata/bg"
	"github.com/linuxboot/fiano/pkg/intel/metadata/bg/bgbootpolicy"
	"github.com/linuxboot/fiano/pkg/intel/metadata/bg/bgkey"
	"github.com/linuxboot/fiano/pkg/intel/metadata/cbnt"
	"github.com/linuxboot/fiano/pkg/intel/metadata/cbnt/cbntbootpolicy"
	"github.com/linuxboot/fiano/pkg/intel/metadata/cbnt/cbntkey"

	"verif/harness/core"
)

type readerFrom interface {
	ReadFrom(r io.Reader) (int64, error)
}

type mfStructure interface {
	io.ReaderFrom
	io.WriterTo
}

// the 33 structures with a generated codec (Gen.Manifest.structNames; Manifest/Tie.lean `structures`)
var mfRegistry = map[string]func() mfStructure{
	"bg.HashStructure":                  func() mfStructure { return &bg.HashStructure{} },
	"bg.HashStructureFill":              func() mfStructure { return &bg.HashStructureFill{} },
	"bg.Key":                            func() mfStructure { return &bg.Key{} },
	"bg.KeySignature":                   func() mfStructure { return &bg.KeySignature{} },
	"bg.Signature":                      func() mfStructure { return &bg.Signature{} },
	"bg.StructInfo":                     func() mfStructure { return &bg.StructInfo{} },
	"bgbootpolicy.BPMH":                 func() mfStructure { return &bgbootpolicy.BPMH{} },
	"bgbootpolicy.IBBSegment":           func() mfStructure { return &bgbootpolicy.IBBSegment{} },
	"bgbootpolicy.Manifest":             func() mfStructure { return &bgbootpolicy.Manifest{} },
	"bgbootpolicy.PM":                   func() mfStructure { return &bgbootpolicy.PM{} },
	"bgbootpolicy.SE":                   func() mfStructure { return &bgbootpolicy.SE{} },
	"bgbootpolicy.Signature":            func() mfStructure { return &bgbootpolicy.Signature{} },
	"bgkey.Manifest":                    func() mfStructure { return &bgkey.Manifest{} },
	"cbnt.ChipsetACModuleInformation":   func() mfStructure { return &cbnt.ChipsetACModuleInformation{} },
	"cbnt.ChipsetACModuleInformationV5": func() mfStructure { return &cbnt.ChipsetACModuleInformationV5{} },
	"cbnt.HashList":                     func() mfStructure { return &cbnt.HashList{} },
	"cbnt.HashStructure":                func() mfStructure { return &cbnt.HashStructure{} },
	"cbnt.Key":                          func() mfStructure { return &cbnt.Key{} },
	"cbnt.KeySignature":                 func() mfStructure { return &cbnt.KeySignature{} },
	"cbnt.Signature":                    func() mfStructure { return &cbnt.Signature{} },
	"cbnt.StructInfo":                   func() mfStructure { return &cbnt.StructInfo{} },
	"cbnt.TPMInfoList":                  func() mfStructure { return &cbnt.TPMInfoList{} },
	"cbntbootpolicy.BPMH":               func() mfStructure { return &cbntbootpolicy.BPMH{} },
	"cbntbootpolicy.IBBSegment":         func() mfStructure { return &cbntbootpolicy.IBBSegment{} },
	"cbntbootpolicy.Manifest":           func() mfStructure { return &cbntbootpolicy.Manifest{} },
	"cbntbootpolicy.PCD":                func() mfStructure { return &cbntbootpolicy.PCD{} },
	"cbntbootpolicy.PM":                 func() mfStructure { return &cbntbootpolicy.PM{} },
	"cbntbootpolicy.Reserved":           func() mfStructure { return &cbntbootpolicy.Reserved{} },
	"cbntbootpolicy.SE":                 func() mfStructure { return &cbntbootpolicy.SE{} },
	"cbntbootpolicy.Signature":          func() mfStructure { return &cbntbootpolicy.Signature{} },
	"cbntbootpolicy.TXT":                func() mfStructure { return &cbntbootpolicy.TXT{} },
	"cbntkey.Hash":                      func() mfStructure { return &cbntkey.Hash{} },
	"cbntkey.Manifest":                  func() mfStructure { return &cbntkey.Manifest{} },
}

var mfTestdata = map[string][]string{
	"bgkey.Manifest": {"pkg/intel/metadata/bg/bgkey/testdata/km.bin"},
	"bgbootpolicy.Manifest": {"pkg/intel/metadata/bg/bgbootpolicy/testdata/bpm.bin",
		"pkg/intel/metadata/bg/bgbootpolicy/testdata/bpm2.bin", "pkg/intel/metadata/bg/bgbootpolicy/testdata/bpm3.bin"},
	"cbntkey.Manifest":        {"pkg/intel/metadata/cbnt/cbntkey/testdata/km.bin"},
	"cbntbootpolicy.Manifest": {"pkg/intel/metadata/cbnt/cbntbootpolicy/testdata/bpm.bin"},
}

func mfQualName(t reflect.Type) string {
	p := t.PkgPath()
	return p[strings.LastIndex(p, "/")+1:] + "." + t.Name()
}

// mfCollect: the encodings (fiano's own WriteTo) of every registered structure found inside v.
func mfCollect(v reflect.Value, out map[string][][]byte) {
	switch v.Kind() {
	case reflect.Ptr:
		if !v.IsNil() {
			mfCollect(v.Elem(), out)
		}
	case reflect.Slice:
		if v.Type().Elem().Kind() == reflect.Struct {
			for i := 0; i < v.Len(); i++ {
				mfCollect(v.Index(i), out)
			}
		}
	case reflect.Struct:
		q := mfQualName(v.Type())
		if _, ok := mfRegistry[q]; ok && v.CanAddr() {
			if w, ok := v.Addr().Interface().(io.WriterTo); ok && len(out[q]) < 3 {
				var buf bytes.Buffer
				if _, err := w.WriteTo(&buf); err == nil {
					dup := false
					for _, o := range out[q] {
						dup = dup || bytes.Equal(o, buf.Bytes())
					}
					if !dup {
						out[q] = append(out[q], append([]byte(nil), buf.Bytes()...))
					}
				}
			}
		}
		for i := 0; i < v.NumField(); i++ {
			if v.Type().Field(i).PkgPath == "" { // exported
				mfCollect(v.Field(i), out)
			}
		}
	}
}

var mfSubSeeds map[string][][]byte

func mfSeedsOf(q string) [][]byte {
	if mfSubSeeds == nil {
		mfSubSeeds = map[string][][]byte{}
		var tops []string
		for t := range mfTestdata {
			tops = append(tops, t)
		}
		sort.Strings(tops)
		for _, t := range tops {
			for _, p := range mfTestdata[t] {
				b := readRepoFile(p)
				if len(b) == 0 {
					continue
				}
				m := mfRegistry[t]()
				if _, err := m.ReadFrom(bytes.NewReader(b)); err == nil {
					mfCollect(reflect.ValueOf(m), mfSubSeeds)
				}
			}
		}
	}
	return mfSubSeeds[q]
}

// mfPrefix is a real length field of an encoding: the size prefix of a byte array or the count of a list.
type mfPrefix struct {
	off, w int
	val    uint64
	count  bool
}

func mfTagWidth(tag reflect.StructTag) int {
	switch tag.Get("countType") {
	case "uint8":
		return 1
	case "uint32":
		return 4
	case "uint64":
		return 8
	}
	return 2
}

// mfWalk follows the rules of common/manifestcodegen (declaration order, countType / countValue tags,
// element lists of a container have no count) over a value and records where the length fields of
// its encoding are.  It returns false when it meets something it does not know.
func mfWalk(v reflect.Value, off *int, out *[]mfPrefix) bool {
	t := v.Type()
	container := t.Name() == "Manifest" && strings.HasSuffix(t.PkgPath(), "bootpolicy")
	for i := 0; i < v.NumField(); i++ {
		f, sf := v.Field(i), t.Field(i)
		switch f.Kind() {
		case reflect.Uint8, reflect.Uint16, reflect.Uint32, reflect.Uint64, reflect.Bool:
			*off += int(f.Type().Size())
		case reflect.Array:
			if f.Type().Elem().Kind() != reflect.Uint8 {
				return false
			}
			*off += f.Len()
		case reflect.Struct:
			if !mfWalk(f, off, out) {
				return false
			}
		case reflect.Ptr:
			if !f.IsNil() && !mfWalk(f.Elem(), off, out) {
				return false
			}
		case reflect.Slice:
			switch f.Type().Elem().Kind() {
			case reflect.Uint8:
				if sf.Tag.Get("countValue") == "" {
					w := mfTagWidth(sf.Tag)
					*out = append(*out, mfPrefix{off: *off, w: w, val: uint64(f.Len())})
					*off += w
				}
				*off += f.Len()
			case reflect.Struct:
				if !container {
					w := mfTagWidth(sf.Tag)
					*out = append(*out, mfPrefix{off: *off, w: w, val: uint64(f.Len()), count: true})
					*off += w
				}
				for j := 0; j < f.Len(); j++ {
					if !mfWalk(f.Index(j), off, out) {
						return false
					}
				}
			case reflect.Uint16:
				w := mfTagWidth(sf.Tag)
				*out = append(*out, mfPrefix{off: *off, w: w, val: uint64(f.Len()), count: true})
				*off += w + 2*f.Len()
			default:
				return false
			}
		default:
			return false
		}
	}
	return true
}

// mfTargeted: for the real length fields of a valid encoding, the length-relative mutants (Rels) and
// hand-made seeds with the absolute extremes — never sub-sampled, unlike the every-offset field map.
func mfTargeted(q, name string, enc []byte) (rels []Rel, attacks []Seed) {
	m := mfRegistry[q]()
	if n, err := m.ReadFrom(bytes.NewReader(enc)); err != nil || int(n) > len(enc) {
		return nil, nil
	}
	var ps []mfPrefix
	off := 0
	if !mfWalk(reflect.ValueOf(m).Elem(), &off, &ps) || off > len(enc) {
		return nil, nil
	}
	for _, p := range ps {
		fd := core.Field{Name: fmt.Sprintf("len@%d/%d", p.off, p.w), Off: p.off, W: p.w}
		if p.count {
			rels = append(rels, Rel{Field: fd, Fit: p.val, Step: 1})
		} else {
			rels = append(rels, Rel{Field: fd, Fit: uint64(len(enc) - p.off - p.w), Step: 1}, Rel{Field: fd, Fit: p.val, Step: 1})
		}
		max := uint64(1)<<(8*uint(p.w)) - 1
		for _, v := range []uint64{0, 1, max, max - 1, max >> 1, max>>1 + 1} {
			if v == p.val {
				continue
			}
			b := append([]byte(nil), enc...)
			putLE(b, p.off, p.w, v)
			attacks = append(attacks, Seed{Name: fmt.Sprintf("attack-%s-%s=%d", name, fd.Name, v), In: b})
		}
	}
	return rels, attacks
}

func mfFields(n int) []core.Field {
	fs := append(everyOffset(n, 2, "u16"), everyOffset(n, 1, "u8")...)
	return append(fs, core.Field{Name: "u32@12", Off: 12, W: 4})
}

func mfModel(q string) func([]byte, map[string]string, Res) string {
	return func(in []byte, _ map[string]string, _ Res) string {
		return "manifest.read " + q + " " + core.Hex(in)
	}
}

func mfRes(n int64, err error) Res {
	if err != nil {
		return Res{Class: "err", Sub: errSub(err)}
	}
	return Res{Class: "ok", MCls: fmt.Sprintf("ok:n=%d", n)}
}

func manifestEP(name, q string, mk func() readerFrom, after func(readerFrom)) {
	Register(&EP{
		Name: name,
		Seeds: func(r *rand.Rand) []Seed {
			var ss []Seed
			for _, p := range mfTestdata[q] {
				b := readRepoFile(p)
				if len(b) == 0 {
					continue
				}
				nm := p[len("pkg/intel/metadata/"):]
				rels, attacks := mfTargeted(q, nm, b)
				ss = append(ss, Seed{Name: nm, In: b, Fields: mfFields(len(b)), Rels: rels})
				ss = append(ss, attacks...)
			}
			return ss
		},
		Run: func(in []byte, _ map[string]string) Res {
			m := mk()
			n, err := m.ReadFrom(bytes.NewReader(in))
			if err == nil && after != nil {
				after(m)
			}
			return mfRes(n, err)
		},
		Model:    mfModel(q),
		Quick:    700,
		Thorough: 60000,
	})
}

func init() {
	manifestEP("bg.km.read", "bgkey.Manifest",
		func() readerFrom { return bgkey.NewManifest() },
		func(m readerFrom) {
			km := m.(*bgkey.Manifest)
			_ = km.TotalSize()
			_ = km.PrettyString(0, true)
		})
	manifestEP("bg.bpm.read", "bgbootpolicy.Manifest",
		func() readerFrom { return bgbootpolicy.NewManifest() },
		func(m readerFrom) {
			bpm := m.(*bgbootpolicy.Manifest)
			_ = bpm.TotalSize()
			_ = bpm.PrettyString(0, true)
		})
	manifestEP("cbnt.km.read", "cbntkey.Manifest",
		func() readerFrom { return cbntkey.NewManifest() },
		func(m readerFrom) {
			km := m.(*cbntkey.Manifest)
			_ = km.TotalSize()
			_ = km.PrettyString(0, true)
		})
	manifestEP("cbnt.bpm.read", "cbntbootpolicy.Manifest",
		func() readerFrom { return cbntbootpolicy.NewManifest() },
		func(m readerFrom) {
			bpm := m.(*cbntbootpolicy.Manifest)
			_ = bpm.TotalSize()
			_ = bpm.PrettyString(0, true)
		})

	// every generated structure on its own
	var qs []string
	for q := range mfRegistry {
		qs = append(qs, q)
	}
	sort.Strings(qs)
	for _, q := range qs {
		q := q
		if _, top := mfTestdata[q]; top {
			continue
		}
		Register(&EP{
			Name: "mf." + q,
			Seeds: func(r *rand.Rand) []Seed {
				var ss []Seed
				for i, b := range mfSeedsOf(q) {
					nm := fmt.Sprintf("testdata-%d", i)
					rels, attacks := mfTargeted(q, nm, b)
					ss = append(ss, Seed{Name: nm, In: b, Fields: mfFields(len(b)), Rels: rels})
					ss = append(ss, attacks...)
				}
				var buf bytes.Buffer
				if _, err := mfRegistry[q]().WriteTo(&buf); err == nil {
					b := append([]byte(nil), buf.Bytes()...)
					ss = append(ss, Seed{Name: "zero-value", In: b, Fields: mfFields(len(b))})
				}
				// a count / size of all ones in front of little data: the allocation that a short read leaves unpaid
				ss = append(ss, Seed{Name: "attack-all-ones", In: bytes.Repeat([]byte{0xff}, 24)})
				return ss
			},
			Run: func(in []byte, _ map[string]string) Res {
				m := mfRegistry[q]()
				n, err := m.ReadFrom(bytes.NewReader(in))
				return mfRes(n, err)
			},
			Model:    mfModel(q),
			Quick:    110,
			Thorough: 4000,
		})
	}

	// the hand-written reader on top of a generated one
	Register(&EP{
		Name: "mf.cbnt.ParseChipsetACModuleInformation",
		Seeds: func(r *rand.Rand) []Seed {
			sig := []byte{0xAA, 0x3A, 0xC0, 0x7F, 0xA7, 0x46, 0xDB, 0x18, 0x2E, 0xAC, 0x69, 0x8F, 0x8D, 0x41, 0x7F, 0x5A}
			var ss []Seed
			for _, ver := range []byte{4, 5, 7} {
				b := make([]byte, 56)
				copy(b, sig)
				b[16], b[17] = 1, ver
				b[18] = 44
				for i := 20; i < len(b); i++ {
					b[i] = byte(i)
				}
				ss = append(ss, Seed{Name: fmt.Sprintf("v%d", ver), In: b, Fields: mfFields(len(b))})
			}
			return ss
		},
		Run: func(in []byte, _ map[string]string) Res {
			n, _, err := cbnt.ParseChipsetACModuleInformation(bytes.NewReader(in))
			return mfRes(n, err)
		},
		Model:    hexReq("manifest.chipset"),
		Quick:    250,
		Thorough: 6000,
	})

	// unsafe.Sizeof of every structure type: what `make([]T, count)` / `append(s.F, el)` allocate per item
	Register(&EP{
		Name: "manifest.memsize",
		Seeds: func(r *rand.Rand) []Seed {
			var ss []Seed
			for _, q := range qs {
				if q == "bgbootpolicy.Manifest" || q == "cbntbootpolicy.Manifest" {
					continue // containers are never list items
				}
				ss = append(ss, Seed{Name: "attack-" + q, In: []byte(q)})
			}
			return ss
		},
		Run: func(in []byte, _ map[string]string) Res {
			mk, ok := mfRegistry[string(in)]
			if !ok {
				return Res{Class: "err"}
			}
			return Res{Class: "ok", MCls: fmt.Sprintf("ok:%d", reflect.TypeOf(mk()).Elem().Size())}
		},
		Model: func(in []byte, _ map[string]string, res Res) string {
			if res.Class != "ok" {
				return ""
			}
			return "manifest.memsize " + string(in)
		},
		Quick:    60,
		Thorough: 60,
	})
}
