// Package c20: harness for property C20 (not built yet).
package c20
