package c20

// AMD firmware structures (pkg/amd/manifest + the entry functions of pkg/amd/psb that work on the
// parsed directories): FindEmbeddedFirmwareStructure, NewAMDFirmware / parsePSPFirmware, the PSP and
// BIOS directory parsers and scanners, the level-2 lookups, and Extract / Dump / Patch of PSP and
// BIOS entries, GetEntries, ValidateRTM, IsPSBEnabled on hostile images.
//
// Seeds are synthetic: a 2 KiB *region* (EFS, PSP directory level 1 → level 2, BIOS directory
// level 1 → level 2, entry blobs) placed so that the EFS lies on one of the anchors the probe
// knows (0xfffa0000 and 0xfff20000 need images of 0x60000+pre and 0xE0000+pre bytes).  Only the
// region travels in the case ("in"); "pre" and "total" say where it sits in an otherwise zero image,
// and the zero bytes count as work in the bounds.  All pointers in the region are image offsets.

import (
	"bytes"
	"fmt"
	"io"
	"math/rand"
	"strconv"
	"strings"

	amd_manifest "github.com/linuxboot/fiano/pkg/amd/manifest"
	"github.com/linuxboot/fiano/pkg/amd/psb"

	"verif/harness/core"
)

const amdRegionLen = 0x800

type amdSeedOpt struct {
	pre, total int
	efsPSP     bool // EFS carries the PSP directory pointer (else the cookie scan finds it)
	efsBIOS    int  // which of the four BIOS pointers is used (0..3), -1 = none (cookie scan)
}

func amdRegionSeed(o amdSeedOpt) ([]byte, []core.Field, []Rel) {
	b := make([]byte, amdRegionLen)
	base := uint64(o.pre)
	var fs []core.Field
	var rs []Rel
	f := func(n string, off, w, hdr int) { fs = append(fs, core.Field{Name: n, Off: off, W: w, Hdr: hdr}) }
	total := uint64(o.total)

	// EFS
	le32(b, 0, 0x55aa55aa)
	if o.efsPSP {
		le32(b, 0x14, uint32(base+0x100))
	}
	if o.efsBIOS >= 0 {
		off := []int{0x18, 0x1c, 0x20, 0x28}[o.efsBIOS]
		le32(b, off, uint32(base+0x300))
	}
	f("efs.Signature", 0, 4, 74)
	for i, off := range []int{0x14, 0x18, 0x1c, 0x20, 0x24, 0x28} {
		n := fmt.Sprintf("efs.ptr%d", i)
		f(n, off, 4, 74)
		rs = append(rs, Rel{Field: core.Field{Name: n, Off: off, W: 4}, Fit: total},
			Rel{Field: core.Field{Name: n + "(header fits)", Off: off, W: 4}, Fit: total - 16})
	}

	table := func(name string, at int, cookie uint32, n int) {
		le32(b, at, cookie)
		le32(b, at+8, uint32(n))
		f(name+".Cookie", at, 4, 16)
		f(name+".Checksum", at+4, 4, 16)
		f(name+".TotalEntries", at+8, 4, 16)
		f(name+".Reserved", at+12, 4, 16)
		rs = append(rs, Rel{Field: core.Field{Name: name + ".TotalEntries", Off: at + 8, W: 4}, Fit: uint64(n)},
			Rel{Field: core.Field{Name: name + ".TotalEntries(16B units left)", Off: at + 8, W: 4}, Fit: (total - base - uint64(at) - 16) / 16},
			Rel{Field: core.Field{Name: name + ".TotalEntries(24B units left)", Off: at + 8, W: 4}, Fit: (total - base - uint64(at) - 16) / 24})
	}
	pspEntry := func(name string, at int, typ byte, size uint32, loc uint64) {
		b[at] = typ
		le32(b, at+4, size)
		le64(b, at+8, loc)
		f(name+".Type", at, 1, 16)
		f(name+".Subprogram", at+1, 1, 16)
		f(name+".Flags", at+2, 2, 16)
		f(name+".Size", at+4, 4, 16)
		f(name+".Location", at+8, 8, 16)
		f(name+".Location.lo32", at+8, 4, 16)
		rs = append(rs, Rel{Field: core.Field{Name: name + ".Size", Off: at + 4, W: 4}, Fit: total - loc},
			Rel{Field: core.Field{Name: name + ".Location", Off: at + 8, W: 8}, Fit: total - uint64(size)},
			Rel{Field: core.Field{Name: name + ".Location(end)", Off: at + 8, W: 8}, Fit: total})
	}
	biosEntry := func(name string, at int, typ byte, inst uint8, size uint32, src uint64) {
		b[at] = typ
		b[at+2] = inst << 4
		le32(b, at+4, size)
		le64(b, at+8, src)
		le64(b, at+16, 0xffffffffffffffff)
		f(name+".Type", at, 1, 24)
		f(name+".RegionType", at+1, 1, 24)
		f(name+".Flags", at+2, 2, 24)
		f(name+".Size", at+4, 4, 24)
		f(name+".Source", at+8, 8, 24)
		f(name+".Source.lo32", at+8, 4, 24)
		f(name+".Destination", at+16, 8, 24)
		rs = append(rs, Rel{Field: core.Field{Name: name + ".Size", Off: at + 4, W: 4}, Fit: total - src},
			Rel{Field: core.Field{Name: name + ".Source", Off: at + 8, W: 8}, Fit: total - uint64(size)},
			Rel{Field: core.Field{Name: name + ".Source(end)", Off: at + 8, W: 8}, Fit: total})
	}

	// PSP level 1 at 0x100, level 2 at 0x200
	table("psp1", 0x100, 0x50535024, 3)
	pspEntry("psp1.e0", 0x110, 0x00, 0x40, base+0x600)
	pspEntry("psp1.e1", 0x120, 0x40, 0x100, base+0x200)
	pspEntry("psp1.e2", 0x130, 0x12, 0x80, base+0x680)
	table("psp2", 0x200, 0x324C5024, 2)
	pspEntry("psp2.e0", 0x210, 0x12, 0x80, base+0x680)
	pspEntry("psp2.e1", 0x220, 0x50, 0x60, base+0x700)
	// BIOS level 1 at 0x300, level 2 at 0x400
	table("bios1", 0x300, 0x44484224, 3)
	biosEntry("bios1.e0", 0x310, 0x62, 0, 0x40, base+0x780)
	biosEntry("bios1.e1", 0x328, 0x70, 0, 0x100, base+0x400)
	biosEntry("bios1.e2", 0x340, 0x07, 0, 0x20, base+0x7c0)
	table("bios2", 0x400, 0x324C4224, 3)
	biosEntry("bios2.e0", 0x410, 0x05, 0, 0x40, base+0x640)
	biosEntry("bios2.e1", 0x428, 0x62, 0, 0x40, base+0x780)
	biosEntry("bios2.e2", 0x440, 0x62, 1, 0x20, base+0x7e0)
	for i := 0x600; i < amdRegionLen; i++ {
		b[i] = byte(i)
	}
	return b, fs, rs
}

// amdIsSeed: the unmodified region of one of the seeds with this pre / total (they are always sent to the model)
func amdIsSeed(in []byte, args map[string]string) bool {
	pre, _ := strconv.Atoi(args["pre"])
	total, _ := strconv.Atoi(args["total"])
	for _, o := range []amdSeedOpt{{pre: 0, total: 0x60000, efsPSP: true, efsBIOS: 0}, {pre: 0x1000, total: 0x61000, efsPSP: true, efsBIOS: 2},
		{pre: 0, total: 0x60000, efsPSP: false, efsBIOS: -1}} {
		if o.pre == pre && o.total == total {
			if b, _, _ := amdRegionSeed(o); bytes.Equal(b, in) {
				return true
			}
		}
	}
	return false
}

func amdImage(in []byte, args map[string]string) []byte {
	pre, _ := strconv.Atoi(args["pre"])
	total, _ := strconv.Atoi(args["total"])
	if pre < 0 || pre > 1<<21 {
		pre = 0
	}
	if total > 1<<21 {
		total = 1 << 21
	}
	if total < pre+len(in) {
		total = pre + len(in)
	}
	img := make([]byte, total)
	copy(img[pre:], in)
	return img
}

// amdCookieScanShapes (gap closing round 3): Find{PSP,BIOS}DirectoryTable are scan loops over every "$PSP" /
// "$BHD" cookie of the image — parse error: step over the cookie and go on; success: return.  Shapes: the
// last cookie d bytes before the end of the image (inside the 16-byte table header, exactly behind it, inside
// the first entry), alone / behind candidates that fail for another reason (entry count too large) / two in a
// row / back to back; both cookies in every image so that both scans meet their shape.
func amdCookieScanShapes(tier string) []Seed {
	var ss []Seed
	cand := func(cookie string, entries uint32, k int) []byte { // cookie, checksum, TotalEntries, AdditionalInfo, cut to k bytes
		b := make([]byte, 16+24)
		copy(b, cookie)
		le32(b, 8, entries)
		return b[:k]
	}
	gap := func(k int) []byte { return bytes.Repeat([]byte{0x5a}, k) }
	cat := func(ps ...[]byte) []byte {
		var b []byte
		for _, p := range ps {
			b = append(b, p...)
		}
		return b
	}
	ds := []int{4, 5, 8, 12, 15, 16, 17, 31, 32, 40}
	if tier == "thorough" {
		ds = nil
		for d := 4; d <= 40; d++ {
			ds = append(ds, d)
		}
	}
	for _, d := range ds {
		for _, n := range []uint32{0, 1} { // announced entries: none (complete at 16 bytes) / one (cut off below 32 / 40)
			tail := cat(cand("$PSP", n, d), cand("$BHD", n, d))
			ss = append(ss, Seed{Name: fmt.Sprintf("tail-cookie-%d-n%d/none-before", d, n), In: cat(gap(7), tail)})
			ss = append(ss, Seed{Name: fmt.Sprintf("tail-cookie-%d-n%d/failing-before", d, n),
				In: cat(cand("$PSP", 0x7fffffff, 16), cand("$BHD", 0xffffffff, 16), gap(3), tail)})
		}
	}
	ss = append(ss,
		Seed{Name: "two-tail-cookies", In: cat(gap(5), cand("$PSP", 1, 9), cand("$PSP", 1, 6), cand("$BHD", 1, 9), cand("$BHD", 1, 6))},
		Seed{Name: "cookies-back-to-back", In: cat(bytes.Repeat([]byte("$PSP"), 9), bytes.Repeat([]byte("$BHD"), 9))},
		Seed{Name: "cookies-back-to-back-4K", In: cat(bytes.Repeat([]byte("$PSP"), 512), bytes.Repeat([]byte("$BHD"), 512))},
		Seed{Name: "level2-cookies-only", In: cat(cand("$PL2", 0, 16), cand("$BL2", 0, 16), []byte("$PL2$BL2"))},
	)
	return ss
}

func init() {
	Register(&EP{
		Name: "amd.firmware",
		Seeds: func(r *rand.Rand) []Seed {
			var ss []Seed
			for _, o := range []struct {
				name string
				opt  amdSeedOpt
			}{
				{"anchor-fffa0000", amdSeedOpt{pre: 0, total: 0x60000, efsPSP: true, efsBIOS: 0}},
				{"anchor-fffa0000+0x1000", amdSeedOpt{pre: 0x1000, total: 0x61000, efsPSP: true, efsBIOS: 2}},
				{"anchor-fff20000", amdSeedOpt{pre: 0, total: 0xE0000, efsPSP: true, efsBIOS: 3}},
				{"cookie-scan", amdSeedOpt{pre: 0, total: 0x60000, efsPSP: false, efsBIOS: -1}},
			} {
				b, fs, rs := amdRegionSeed(o.opt)
				ss = append(ss, Seed{Name: o.name, In: b, Fields: fs, Rels: rs,
					Args: map[string]string{"pre": strconv.Itoa(o.opt.pre), "total": strconv.Itoa(o.opt.total)}})
			}
			// image lengths around the reach of the anchors (DESIGN.md §8 #10): no region at all
			for _, l := range []int{0x5fffb, 0x5fffc, 0x5ffff, 0x60003, 0xdffff, 0xe0001} {
				ss = append(ss, Seed{Name: "attack-length-" + strconv.Itoa(l), In: []byte{0},
					Args: map[string]string{"pre": "0", "total": strconv.Itoa(l)}})
			}
			for _, s := range noteSeeds("amd-") {
				s.Args = map[string]string{"pre": "0", "total": strconv.Itoa(len(s.In))}
				ss = append(ss, s)
			}
			return ss
		},
		Run: func(in []byte, args map[string]string) Res {
			img := amdImage(in, args)
			pad := len(img) - len(in)
			fw, err := psb.ParseAMDFirmware(img)
			if err != nil {
				return Res{Class: "err", Sub: errSub(err), Out: pad}
			}
			pf := fw.PSPFirmware()
			hits := 0
			var x []string // what every entry function returned, in the order of Driver/C20.lean amdPipelineG
			res := func(n int, err error) {
				if err != nil {
					x = append(x, "E")
				} else {
					x = append(x, strconv.Itoa(n))
				}
			}
			for _, level := range []uint{1, 2} {
				for _, id := range []amd_manifest.PSPDirectoryTableEntryType{0x00, 0x12, 0x50, 0x0a} {
					b, err := psb.ExtractPSPEntry(fw, level, id)
					if err == nil {
						hits++
					}
					res(len(b), err)
					_, _ = psb.DumpPSPEntry(fw, level, id, io.Discard)
					if e, err := psb.GetPSPEntry(pf, level, id); err == nil {
						n := int(e.Size)
						if n > 1<<20 {
							n = 16 // a replacement of the wrong size: refused
						}
						res(psb.PatchPSPEntry(fw, level, id, bytes.NewReader(make([]byte, n)), io.Discard))
					} else {
						x = append(x, "S")
					}
				}
				for _, id := range []amd_manifest.BIOSDirectoryTableEntryType{0x62, 0x05, 0x07} {
					for _, inst := range []uint8{0, 1} {
						b, err := psb.ExtractBIOSEntry(fw, level, id, inst)
						if err == nil {
							hits++
						}
						res(len(b), err)
						_, _ = psb.DumpBIOSEntry(fw, level, id, inst, io.Discard)
						if e, err := psb.GetBIOSEntry(pf, level, id, inst); err == nil {
							n := int(e.Size)
							if n > 1<<20 {
								n = 16
							}
							res(psb.PatchBIOSEntry(fw, level, id, inst, bytes.NewReader(make([]byte, n)), io.Discard))
						} else {
							x = append(x, "S")
						}
					}
				}
			}
			for _, d := range psb.AllDirectoryTypes() {
				for _, id := range []uint32{0x12, 0x62} {
					rs, err := psb.GetEntries(pf, d, id)
					res(len(rs), err)
				}
			}
			_, _ = psb.IsPSBEnabled(fw)
			_, _ = psb.ValidateRTM(fw, 1)
			_, _ = psb.ValidateRTM(fw, 2)
			sub := "no-entry"
			if hits > 0 {
				sub = "entries"
			}
			tab := func(found bool, off, length uint64, n int) string {
				if !found {
					return "-"
				}
				return fmt.Sprintf("%d+%d/%d", off, length, n)
			}
			p1, p2, b1, b2 := "-", "-", "-", "-"
			if t := pf.PSPDirectoryLevel1; t != nil {
				p1 = tab(true, pf.PSPDirectoryLevel1Range.Offset, pf.PSPDirectoryLevel1Range.Length, len(t.Entries))
			}
			if t := pf.PSPDirectoryLevel2; t != nil {
				p2 = tab(true, pf.PSPDirectoryLevel2Range.Offset, pf.PSPDirectoryLevel2Range.Length, len(t.Entries))
			}
			if t := pf.BIOSDirectoryLevel1; t != nil {
				b1 = tab(true, pf.BIOSDirectoryLevel1Range.Offset, pf.BIOSDirectoryLevel1Range.Length, len(t.Entries))
			}
			if t := pf.BIOSDirectoryLevel2; t != nil {
				b2 = tab(true, pf.BIOSDirectoryLevel2Range.Offset, pf.BIOSDirectoryLevel2Range.Length, len(t.Entries))
			}
			sig := fmt.Sprintf("ok:efs=%d;p1=%s;p2=%s;b1=%s;b2=%s;x=%s", pf.EmbeddedFirmwareRange.Offset, p1, p2, b1, b2,
				strings.Join(x, ","))
			return Res{Class: "ok", Sub: sub, Out: pad, MCls: sig}
		},
		// the model runs on the whole (mostly zero) image: ~0.1 s per 384 KiB case in the compiled driver, so only
		// the seeds, the length-relative mutants and a digest-chosen sixth of the rest are sent to it
		Model: func(in []byte, args map[string]string, res Res) string {
			img := amdImage(in, args)
			if len(img) > 0x62000 {
				return ""
			}
			if core.FNV(in)%6 != 0 && !amdIsSeed(in, args) {
				return ""
			}
			pre, _ := strconv.Atoi(args["pre"])
			total, _ := strconv.Atoi(args["total"])
			return fmt.Sprintf("amd.firmware %s %d %d", core.Hex(in), pre, total)
		},
		Quick: 700,
	})

	// the table / structure parsers directly on hostile bytes
	Register(&EP{
		Name:   "amd.tables",
		Shapes: amdCookieScanShapes,
		Seeds: func(r *rand.Rand) []Seed {
			b, fs, rs := amdRegionSeed(amdSeedOpt{pre: 0, total: amdRegionLen, efsPSP: true, efsBIOS: 1})
			cut := func(name string, lo, hi int) Seed {
				var f2 []core.Field
				for _, f := range fs {
					if f.Off >= lo && f.Off+f.W <= hi {
						f.Off -= lo
						f2 = append(f2, f)
					}
				}
				var r2 []Rel
				for _, rl := range rs {
					if rl.Field.Off >= lo && rl.Field.Off+rl.Field.W <= hi {
						rl.Field.Off -= lo
						r2 = append(r2, rl)
					}
				}
				return Seed{Name: name, In: append([]byte(nil), b[lo:hi]...), Fields: f2, Rels: r2}
			}
			return []Seed{cut("efs", 0, 0x100), cut("psp-table", 0x100, 0x140), cut("psp-table-l2", 0x200, 0x230),
				cut("bios-table", 0x300, 0x358), cut("bios-table-l2", 0x400, 0x458), cut("region", 0, amdRegionLen)}
		},
		Run: func(in []byte, _ map[string]string) Res {
			ok := 0
			bits := ""
			mark := func(err error) {
				if err == nil {
					ok++
					bits += "1"
				} else {
					bits += "0"
				}
			}
			_, _, err := amd_manifest.ParsePSPDirectoryTable(in)
			mark(err)
			_, _, err = amd_manifest.ParseBIOSDirectoryTable(in)
			mark(err)
			_, _, err = amd_manifest.FindPSPDirectoryTable(in)
			mark(err)
			_, _, err = amd_manifest.FindBIOSDirectoryTable(in)
			mark(err)
			_, _, err = amd_manifest.ParseEmbeddedFirmwareStructure(bytes.NewReader(in))
			mark(err)
			_, _, err = amd_manifest.FindEmbeddedFirmwareStructure(amd_manifest.FirmwareImage(in))
			mark(err)
			if ok == 0 {
				return Res{Class: "err", MCls: "t:" + bits}
			}
			return Res{Class: "ok", Sub: "parsers=" + itoa(ok), MCls: "t:" + bits}
		},
		Model: hexReq("amd.tables"),
		Quick: 900,
	})
}
