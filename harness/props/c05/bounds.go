package c05

import "time"

// memCeiling is the address-space limit of the isolation child: a make() by an unchecked 32-bit length field
// ends the process at once (O `no-crash`) instead of clearing gigabytes.
const memCeiling = 3 << 30

// bound of one operation:
//
//	TotalAlloc ≤ k·|input| + K + kd·decompressed + (third-party decoder allowance, see decTable.thirdParty)
//	CPU time   ≤ a·(|input| + decompressed) + b
//
// The constants are fixed; they were chosen as ≥ 4× the largest ratio observed over the structured
// generator and the historical fuzz corpus on the repaired tree (reports/C05.md has the measurements).
type bound struct {
	k, K, kd uint64
	a        time.Duration // per byte
	b        time.Duration
}

var opBounds = map[string]bound{
	// parsers: every node copies its buffer (≤ 3 copies per nesting level), plus per-node structs
	// (a 4-byte section costs a Section struct, a TypedFirmware and a slice header: ≈ 170 bytes per input byte)
	"parse": {k: 768, K: 2 << 20, kd: 768, a: 20 * time.Microsecond, b: 2 * time.Second},
	"fv":    {k: 768, K: 2 << 20, kd: 768, a: 20 * time.Microsecond, b: 2 * time.Second},
	"file":  {k: 768, K: 2 << 20, kd: 768, a: 20 * time.Microsecond, b: 2 * time.Second},
	"sec":   {k: 768, K: 2 << 20, kd: 768, a: 20 * time.Microsecond, b: 2 * time.Second},
	"nvar":  {k: 768, K: 2 << 20, kd: 768, a: 20 * time.Microsecond, b: 2 * time.Second},
	"fpt":   {k: 64, K: 1 << 20, kd: 0, a: 5 * time.Microsecond, b: 1 * time.Second},
	// walkers
	"json":     {k: 1536, K: 4 << 20, kd: 1536, a: 50 * time.Microsecond, b: 2 * time.Second},
	"table":    {k: 2048, K: 4 << 20, kd: 2048, a: 50 * time.Microsecond, b: 2 * time.Second},
	"validate": {k: 1536, K: 4 << 20, kd: 1536, a: 20 * time.Microsecond, b: 2 * time.Second},
	"cat":      {k: 768, K: 1 << 20, kd: 768, a: 20 * time.Microsecond, b: 2 * time.Second},
	"extract":  {k: 2048, K: 8 << 20, kd: 2048, a: 300 * time.Microsecond, b: 3 * time.Second},
	// assemble re-encodes compressed sections (external xz) and rebuilds every volume; pad files for data
	// alignment are accounted separately (ctx.alignPad, known finding `alignment-pad`)
	"assemble": {k: 2048, K: 8 << 20, kd: 2048, a: 100 * time.Microsecond, b: 3 * time.Second},
}

func boundsFor(op string) bound {
	if b, ok := opBounds[op]; ok {
		return b
	}
	return opBounds["parse"]
}
