package c05

// Gap closing round 3 (seeded defects c05-7, c05-8 and their neighbours).
//
// Two families of inputs the older streams never produced:
//
//  1. GUID-defined sections whose payload REACHES the decoder's stream reader and is refused (or accepted)
//     there.  uefi.NewSection hands the decoder `buf[DataOffset:]`, i.e. everything up to the end of the
//     buffer it was given (the rest of the file), and ZLIB.Decode compares the size field of its 256-byte
//     section header with exactly that length: the `compressedVolume` streams put a second section behind the
//     compressed one, so every ZLIB case ended in "size mismatch" before zlib.NewReader was ever called.  Here
//     the compressed section is the LAST thing of its buffer and the size field is consistent, and the stream
//     behind the header runs through every way a decoder can refuse it early (empty, 1 byte, wrong method /
//     window / check bits, preset dictionary) or late (truncated at every length, bad Adler-32, bad stored
//     block), for every codec, through uefi.Parse, NewFile, NewSection and the decoder itself (`dec`).
//
//  2. UCS-2 strings that END in the middle of something: a surrogate half as the last CHAR16 (lone high, lone
//     low, high+high, low+high, pair+high), a dangling odd byte behind any of these, a byte-order mark,
//     U+FFFE / U+FFFF, the empty string — as the name of a user-interface section (with and without the NUL
//     terminator), the string of a version section, the name of an NVAR entry (in front of its 0x0000
//     terminator, and without one), through Parse / NewFile / NewSection / NewNVarStore and
//     unicode.UCS2ToUTF8 itself (`ucs`).
//
// The oracles are the ones of the property: the call returns a value or an error (no panic, no log.Fatalf),
// within the allocation and time bounds; the model checks (M) of the existing operations apply unchanged.
// The two new operations `dec` and `ucs` have O checks only.

import (
	"bytes"
	"compress/zlib"
	"encoding/binary"
	"fmt"
	"math/rand"

	"github.com/linuxboot/fiano/pkg/compression"
	funicode "github.com/linuxboot/fiano/pkg/unicode"

	"verif/harness/core"
	hu "verif/harness/props/uefi"
)

// ---------------------------------------------------------------- 1. streams that reach the decoder

// zlibPayload: the 256-byte ZLIB section header with a consistent size field (+delta), then the stream.
func zlibPayload(stream []byte, delta int) []byte {
	p := make([]byte, 256, 256+len(stream))
	binary.LittleEndian.PutUint32(p[20:], uint32(len(stream)+delta))
	return append(p, stream...)
}

func deflate(plain []byte, level int) []byte {
	var b bytes.Buffer
	w, _ := zlib.NewWriterLevel(&b, level)
	w.Write(plain)
	w.Close()
	return b.Bytes()
}

type namedStream struct {
	name string
	b    []byte
}

// zlibStreams: RFC 1950 streams, well-formed and refused at every stage.
func zlibStreams(r *rand.Rand, thorough bool) []namedStream {
	inner := joinSecs(plainSec(0x19, []byte("zlib payload")), plainSec(0x15, hu.UCS2([]rune("Z"))))
	good := deflate(inner, 9)
	stored := deflate(inner, 0)
	out := []namedStream{
		{"good", good},
		{"good-stored", stored},
		{"good-empty-output", deflate(nil, 9)},
		{"good-then-garbage", append(append([]byte{}, good...), 0xDE, 0xAD, 0xBE, 0xEF)},
		// refused by zlib.NewReader itself
		{"empty", nil},
		{"one-byte", []byte{0x78}},
		{"one-byte-ff", []byte{0xFF}},
		{"hdr-only", []byte{0x78, 0x9C}},                        // accepted by NewReader, fails in ReadAll
		{"bad-method", append([]byte{0x77, 0x85}, good[2:]...)}, // CM = 7, check bits right
		{"bad-window", append([]byte{0x88, 0x1C}, good[2:]...)}, // CINFO = 8, check bits right
		{"bad-check", append([]byte{0x78, 0x9D}, good[2:]...)},  // (CMF<<8|FLG) % 31 != 0
		{"zero-hdr", append([]byte{0x00, 0x00}, good[2:]...)},   // what an erased-with-zeros region looks like
		{"ff-hdr", append([]byte{0xFF, 0xFF}, good[2:]...)},     // … erased with ones
		{"gzip-magic", append([]byte{0x1F, 0x8B, 0x08, 0}, good[2:]...)},
		{"fdict", append([]byte{0x78, 0x20, 1, 2, 3, 4}, good[2:]...)}, // preset dictionary, id present
		{"fdict-no-id", []byte{0x78, 0x20}},                            // … id cut off
		{"fdict-short-id", []byte{0x78, 0x20, 1, 2}},
		{"fdict-bb", append([]byte{0x78, 0xBB, 1, 2, 3, 4}, good[2:]...)},
		// refused later, by ReadAll
		{"bad-adler", func() []byte { b := append([]byte{}, good...); b[len(b)-1] ^= 0x55; return b }()},
		{"no-adler", good[:len(good)-4]},
		{"stored-bad-nlen", func() []byte { b := append([]byte{}, stored...); b[5] ^= 0xFF; return b }()},
		{"reserved-btype", []byte{0x78, 0x9C, 0x07, 0, 0, 0, 0}},
	}
	// every CMF/FLG pair around the accepted one, and a sample of all pairs
	for _, cmf := range []byte{0x08, 0x18, 0x68, 0x78, 0x79, 0x87, 0x88, 0xF8} {
		for _, flg := range []byte{0x00, 0x01, 0x1F, 0x20, 0x5E, 0x9C, 0xDA, 0xFF} {
			out = append(out, namedStream{fmt.Sprintf("hdr-%02x%02x", cmf, flg), append([]byte{cmf, flg}, good[2:]...)})
		}
	}
	// truncated at every length (quick: every length of the short stored stream's head and tail)
	for n := 2; n < len(good); n++ {
		if !thorough && n > 8 && n < len(good)-6 && n%5 != 0 {
			continue
		}
		out = append(out, namedStream{fmt.Sprintf("trunc-%d", n), good[:n]})
	}
	for i, n := 0, 4; i < n; i++ {
		b := make([]byte, 1+r.Intn(40))
		r.Read(b)
		out = append(out, namedStream{"random", b})
		// a random body behind an accepted header
		out = append(out, namedStream{"random-body", append([]byte{0x78, 0x9C}, b...)})
	}
	return out
}

// lzmaStreams / brotliStreams: the same idea for the other decoders (header cut at every length, the
// "unknown size" marker, an empty body, garbage).
func lzmaStreams(r *rand.Rand) []namedStream {
	good, err := (&compression.LZMA{}).Encode(joinSecs(plainSec(0x19, []byte("lzma payload"))))
	if err != nil {
		panic(err)
	}
	out := []namedStream{{"good", good}, {"good-then-garbage", append(append([]byte{}, good...), 1, 2, 3)}}
	for n := 0; n <= 14 && n < len(good); n++ {
		out = append(out, namedStream{fmt.Sprintf("trunc-%d", n), good[:n]})
	}
	out = append(out, namedStream{"trunc-body", good[:len(good)-3]})
	unk := append([]byte{}, good...)
	copy(unk[5:13], rep(0xFF, 8)) // size unknown: needs an end marker the stream does not have
	out = append(out, namedStream{"size-unknown", unk})
	zero := append([]byte{}, good...)
	copy(zero[5:13], rep(0, 8))
	out = append(out, namedStream{"size-zero", zero})
	one := append([]byte{}, good...)
	binary.LittleEndian.PutUint64(one[5:], uint64(len("lzma payload")+4+1)) // one byte more than there is
	out = append(out, namedStream{"size-plus-1", one})
	for _, p := range []byte{0xE0, 0xE1, 0xFF} { // properties byte ≥ 9*5*5
		b := append([]byte{}, good...)
		b[0] = p
		out = append(out, namedStream{fmt.Sprintf("props-%02x", p), b})
	}
	dz := append([]byte{}, good...)
	copy(dz[1:5], rep(0, 4)) // dictionary size 0
	out = append(out, namedStream{"dict-zero", dz})
	return out
}

func brotliStreams() []namedStream {
	var out []namedStream
	for _, n := range []int{0, 1, 15, 16, 17, 18, 24} {
		out = append(out, namedStream{fmt.Sprintf("zeros-%d", n), rep(0, n)}, namedStream{fmt.Sprintf("ones-%d", n), rep(0xFF, n)})
	}
	// a 16-byte header claiming sizes, then an empty / one-byte brotli stream (0x06 = empty last block)
	hdr := append(le(8, 0), le(8, 0)...)
	out = append(out, namedStream{"empty-stream", append(append([]byte{}, hdr...), 0x06)})
	out = append(out, namedStream{"hdr-only", hdr})
	return out
}

// lastSection: a GUID-defined section that is the last thing of its buffer, as a section, inside a file, and
// inside a volume (the file ends 8-aligned so that nothing follows the section inside the file).
func codecLast(kind string, codec []byte, payload []byte, attrs uint16, tier string, withVolume bool) []core.Case {
	// pad the payload in FRONT of nothing: the file must end with the section, so the volume's 8-byte file
	// alignment may only add bytes behind the file — which is outside the buffer NewFile hands to NewSection.
	gs := guidedSec(codec, 24, attrs, payload)
	cs := []core.Case{hexCase(kind+"-sec", "sec", gs, tier)}
	g := rep(0x5A, 16)
	f, fm := sectionedFile(g, 0x02, gs, []hu.Mark{{Off: 0, Len: 24, Kind: "sec"}})
	cs = append(cs, hexCase(kind+"-file", "file", f, tier))
	if withVolume {
		v := fvWrap([][]byte{f}, [][]hu.Mark{fm}, 32)
		cs = append(cs, hexCase(kind+"-parse", "parse", v.b, tier))
		// … and behind a leading plain section (the compressed one is section #1 of the file)
		secs := joinSecs(plainSec(0x19, []byte{1, 2, 3, 4}), gs)
		f2, fm2 := sectionedFile(g, 0x02, secs, nil)
		v2 := fvWrap([][]byte{f2}, [][]hu.Mark{fm2}, 32)
		cs = append(cs, hexCase(kind+"-parse-2nd", "parse", v2.b, tier))
	}
	return cs
}

func decCase(kind, codec string, payload []byte, tier string) core.Case {
	return core.Case{Kind: kind + "-dec", Op: "dec", Args: map[string]string{"codec": codec, "hex": core.Hex(payload), "tier": tier}}
}

func gap3Codec(r *rand.Rand, tier string) []core.Case {
	thorough := tier == "thorough"
	var cs []core.Case
	for i, s := range zlibStreams(r, thorough) {
		p := zlibPayload(s.b, 0)
		kind := "gap3-zlib-" + s.name
		// the volume forms for the named shapes and a sample of the header / truncation grids
		vol := thorough || i < 22 || i%4 == 0
		cs = append(cs, codecLast(kind, guidZLIB, p, 1, tier, vol)...)
		cs = append(cs, decCase(kind, "ZLIB", p, tier))
		if i < 22 {
			// the ZLIB section as the last encapsulated section of an LZMA section: the inner NewSection gets the
			// rest of the DECODED buffer, so the size field is consistent there too
			wrapped := encodeWith(guidLZMA, joinSecs(plainSec(0x19, []byte{7, 7, 7, 7}), guidedSec(guidZLIB, 24, 1, p)))
			cs = append(cs, hexCase(kind+"-in-lzma-sec", "sec", guidedSec(guidLZMA, 24, 1, wrapped), tier))
		}
		if i < 8 {
			// the same section with processing-required clear / under DisableDecompression: the decoder must not run
			gs := guidedSec(guidZLIB, 24, 0, p)
			cs = append(cs, hexCase(kind+"-noproc-sec", "sec", gs, tier))
			c := hexCase(kind+"-dd-sec", "sec", guidedSec(guidZLIB, 24, 1, p), tier, "dd", "1")
			cs = append(cs, c)
			// size field one off in both directions (refused before the reader), data offset one off (the
			// section header shifts against the size field)
			for _, d := range []int{-1, 1} {
				cs = append(cs, hexCase(kind+fmt.Sprintf("-size%+d-sec", d), "sec", guidedSec(guidZLIB, 24, 1, zlibPayload(s.b, d)), tier))
				cs = append(cs, decCase(kind+fmt.Sprintf("-size%+d", d), "ZLIB", zlibPayload(s.b, d), tier))
			}
			// data offset beyond the sub-header: 4 bytes of vendor data in front of the ZLIB header
			cs = append(cs, hexCase(kind+"-off28-sec", "sec", guidedSec(guidZLIB, 28, 1, append([]byte{9, 9, 9, 9}, p...)), tier))
			// data offset pointing INTO the sub-header: the decoder sees buf[20:] = the last 4 sub-header bytes
			// (they fall into the ignored part of the ZLIB header) + the payload, so the payload is the ZLIB
			// header without its first 4 bytes
			cs = append(cs, hexCase(kind+"-off20-sec", "sec", guidedSec(guidZLIB, 20, 1, p[4:]), tier))
		}
	}
	// payload lengths around the 256-byte ZLIB header: 254..258 bytes of zeros (size field 0: at 256 the
	// stream is empty and consistent), and the data offset at / one before / one behind the end of the buffer
	for n := 254; n <= 258; n++ {
		p := rep(0, n)
		cs = append(cs, hexCase(fmt.Sprintf("gap3-zlib-len-%d-sec", n), "sec", guidedSec(guidZLIB, 24, 1, p), tier))
		cs = append(cs, decCase(fmt.Sprintf("gap3-zlib-len-%d", n), "ZLIB", p, tier))
		if n > 256 {
			q := append([]byte{}, p...)
			binary.LittleEndian.PutUint32(q[20:], uint32(n-256))
			cs = append(cs, hexCase(fmt.Sprintf("gap3-zlib-len-%d-consistent-sec", n), "sec", guidedSec(guidZLIB, 24, 1, q), tier))
			cs = append(cs, decCase(fmt.Sprintf("gap3-zlib-len-%d-consistent", n), "ZLIB", q, tier))
		}
	}
	for ci, codec := range [][]byte{guidLZMA, guidLZMAX86, guidZLIB, guidBROTLI} {
		name := []string{"LZMA", "LZMAX86", "ZLIB", "BROTLI"}[ci]
		p := rep(0, 300)
		for _, off := range []int{24 + 300 - 1, 24 + 300, 24 + 300 + 1, 0, 4, 23} {
			cs = append(cs, hexCase(fmt.Sprintf("gap3-%s-dataoffset-%d-sec", name, off), "sec", guidedSec(codec, uint16(off), 1, p), tier))
		}
		cs = append(cs, decCase("gap3-"+name+"-nil", name, nil, tier))
	}
	for _, s := range lzmaStreams(r) {
		cs = append(cs, codecLast("gap3-lzma-"+s.name, guidLZMA, s.b, 1, tier, thorough || len(s.b) < 3 || s.name == "good")...)
		cs = append(cs, decCase("gap3-lzma-"+s.name, "LZMA", s.b, tier))
		cs = append(cs, hexCase("gap3-lzmax86-"+s.name+"-sec", "sec", guidedSec(guidLZMAX86, 24, 1, s.b), tier))
		cs = append(cs, decCase("gap3-lzmax86-"+s.name, "LZMAX86", s.b, tier))
	}
	for _, s := range brotliStreams() {
		cs = append(cs, hexCase("gap3-brotli-"+s.name+"-sec", "sec", guidedSec(guidBROTLI, 24, 1, s.b), tier))
		cs = append(cs, decCase("gap3-brotli-"+s.name, "BROTLI", s.b, tier))
	}
	return cs
}

// ---------------------------------------------------------------- 2. UCS-2 strings that end in the middle

func units(us ...uint16) []byte {
	out := make([]byte, 0, 2*len(us))
	for _, u := range us {
		out = append(out, byte(u), byte(u>>8))
	}
	return out
}

// ucs2Tails: code-unit strings (no terminator) whose END is the interesting part.
func ucs2Tails() []namedStream {
	out := []namedStream{
		{"empty", nil},
		{"ascii", units('A', 'b')},
		{"nul", units(0)},
		{"nul-nul", units(0, 0)},
		{"a-nul-b", units('A', 0, 'b')},
		{"pair", units(0xD83D, 0xDE00)},
		{"a-pair", units('A', 0xD83D, 0xDE00)},
		{"pair-a", units(0xD83D, 0xDE00, 'A')},
		{"pair-hi", units(0xD83D, 0xDE00, 0xD83D)},
		{"pair-lo", units(0xD83D, 0xDE00, 0xDE00)},
		{"hi-hi", units(0xD800, 0xD800)},
		{"hi-hi-lo", units(0xD800, 0xD800, 0xDC00)},
		{"lo-hi", units(0xDC00, 0xD800)},
		{"lo-lo", units(0xDC00, 0xDFFF)},
		{"hi-a", units(0xD800, 'A')},
		{"lo-a", units(0xDFFF, 'A')},
		{"bom", units(0xFEFF)},
		{"bom-a", units(0xFEFF, 'A')},
		{"bom-hi", units(0xFEFF, 0xD800)},
		{"rev-bom", units(0xFFFE)},
		{"rev-bom-a", units(0xFFFE, 0x4100)},
		{"ffff", units(0xFFFF)},
		{"fffd", units(0xFFFD)},
		{"latin-cjk", units(0xE9, 0x4E2D, 0x7FF, 0x800)},
	}
	// every boundary of the surrogate range as the LAST unit, alone and behind a letter
	for _, u := range []uint16{0xD7FF, 0xD800, 0xD801, 0xDBFF, 0xDC00, 0xDC01, 0xDFFF, 0xE000} {
		out = append(out, namedStream{fmt.Sprintf("last-%04x", u), units(u)})
		out = append(out, namedStream{fmt.Sprintf("a-last-%04x", u), units('A', u)})
	}
	// a long name cut in the middle of its last pair
	long := bytes.Repeat(units(0xD83D, 0xDE00), 40)
	out = append(out, namedStream{"long-cut", long[:len(long)-2]})
	return out
}

func nvarWithName(name []byte, ascii bool, guidInEntry bool) []byte {
	e := nvEntry{attrs: 0x80, next: 0xFFFFFF, guidIdx: 0, name: name, data: []byte{0x11, 0x22}}
	if ascii {
		e.attrs |= 0x02
	}
	if guidInEntry {
		e.attrs |= 0x04
		e.guid = rep(0x33, 16)
	}
	b := e.ser()
	b = append(b, rep(0xFF, 24)...)
	return append(b, rep(0xA0, 16)...)
}

func gap3Unicode(r *rand.Rand, tier string) []core.Case {
	thorough := tier == "thorough"
	var cs []core.Case
	g := rep(0x6B, 16)
	for i, t := range ucs2Tails() {
		for _, odd := range [][]byte{nil, {0x00}, {0xD8}, {0x41}} {
			if odd != nil && !thorough && i%3 != 0 && len(t.b) > 0 && !isSurrogateLast(t.b) {
				continue
			}
			kind := "gap3-ucs-" + t.name
			if odd != nil {
				kind += fmt.Sprintf("-odd%02x", odd[0])
			}
			raw := append(append([]byte{}, t.b...), odd...)
			cs = append(cs, core.Case{Kind: kind, Op: "ucs", Args: map[string]string{"hex": core.Hex(raw), "tier": tier}})
			// (a) user-interface section: the body IS the string (no terminator), then with the usual terminator
			ui := plainSec(0x15, raw)
			cs = append(cs, hexCase(kind+"-ui-sec", "sec", ui, tier))
			// (b) version section: build number, then the string
			ver := plainSec(0x14, append([]byte{0x34, 0x12}, raw...))
			cs = append(cs, hexCase(kind+"-ver-sec", "sec", ver, tier))
			if odd == nil {
				cs = append(cs, hexCase(kind+"-ui-term-sec", "sec", plainSec(0x15, append(append([]byte{}, raw...), 0, 0)), tier))
				// the sections in a file / in a volume; a section of another kind behind them (alignment bytes
				// are outside the section)
				f, fm := sectionedFile(g, 0x07, joinSecs(ui, ver, plainSec(0x19, []byte{1})), nil)
				cs = append(cs, hexCase(kind+"-file", "file", f, tier))
				if thorough || i%2 == 0 || isSurrogateLast(t.b) {
					v := fvWrap([][]byte{f}, [][]hu.Mark{fm}, 32)
					cs = append(cs, hexCase(kind+"-parse", "parse", v.b, tier))
				}
				// the string behind a compressed wrapper (names inside compressed sections are the common case)
				if isSurrogateLast(t.b) || i%6 == 0 {
					enc := encodeWith(guidLZMA, joinSecs(ui, ver))
					cs = append(cs, hexCase(kind+"-lzma-sec", "sec", guidedSec(guidLZMA, 24, 1, enc), tier))
					zenc := encodeWith(guidZLIB, joinSecs(ver, ui))
					cs = append(cs, hexCase(kind+"-zlib-sec", "sec", guidedSec(guidZLIB, 24, 1, zenc), tier))
				}
			}
			// (c) NVAR entry: the name, then the 0x0000 terminator (odd: the terminator search runs on even
			// offsets, the odd byte shifts what follows)
			name := append(append([]byte{}, raw...), 0, 0)
			st := nvarWithName(name, false, false)
			cs = append(cs, hexCase(kind+"-nvar", "nvar", st, tier, "pol", "255"))
			if odd == nil {
				cs = append(cs, hexCase(kind+"-nvar-guid", "nvar", nvarWithName(name, false, true), tier, "pol", "255"))
				// without a terminator: the name runs into the data
				cs = append(cs, hexCase(kind+"-nvar-unterminated", "nvar", nvarWithName(raw, false, false), tier, "pol", "255"))
				// the same bytes read as an ASCII name
				cs = append(cs, hexCase(kind+"-nvar-ascii", "nvar", nvarWithName(append(append([]byte{}, raw...), 0), true, false), tier, "pol", "255"))
				if isSurrogateLast(t.b) {
					// the entry inside the data of another entry (nested store)
					inner := nvEntry{attrs: 0x80, next: 0xFFFFFF, guidIdx: 0, name: name, data: []byte{5}}
					outer := nvEntry{attrs: 0x82, next: 0xFFFFFF, guidIdx: 0, name: []byte("Outer\x00"), data: append(inner.ser(), rep(0xFF, 24)...)}
					nb := append(append(outer.ser(), rep(0xFF, 24)...), rep(0xA0, 16)...)
					cs = append(cs, hexCase(kind+"-nvar-nested", "nvar", nb, tier, "pol", "255"))
				}
				if thorough || isSurrogateLast(t.b) || i%4 == 0 {
					stb := built{b: st, marks: []hu.Mark{{Off: 0, Len: 10 + 1 + len(name) + 2, Kind: "nvar"}}}
					cs = append(cs, hexCase(kind+"-nvar-volume", "parse", nvarVolume(stb).b, tier))
					cs = append(cs, hexCase(kind+"-nvar-pol0", "nvar", nvarWithName(name, false, false), tier, "pol", "0"))
				}
			}
		}
	}
	// random code units with a bias towards the surrogate range, last unit always a surrogate half
	for i := 0; i < 24; i++ {
		n := 1 + r.Intn(6)
		us := make([]uint16, n)
		for j := range us {
			switch r.Intn(3) {
			case 0:
				us[j] = uint16(0xD800 + r.Intn(0x800))
			case 1:
				us[j] = uint16(0x20 + r.Intn(0x5F))
			default:
				us[j] = uint16(r.Intn(0x10000))
			}
		}
		us[n-1] = uint16(0xD800 + r.Intn(0x800))
		raw := units(us...)
		if r.Intn(3) == 0 {
			raw = append(raw, byte(r.Intn(256)))
		}
		kind := "gap3-ucs-random"
		cs = append(cs, core.Case{Kind: kind, Op: "ucs", Args: map[string]string{"hex": core.Hex(raw), "tier": tier}})
		switch i % 3 {
		case 0:
			cs = append(cs, hexCase(kind+"-ui-sec", "sec", plainSec(0x15, raw), tier))
		case 1:
			cs = append(cs, hexCase(kind+"-ver-sec", "sec", plainSec(0x14, append([]byte{1, 0}, raw...)), tier))
		default:
			cs = append(cs, hexCase(kind+"-nvar", "nvar", nvarWithName(append(append([]byte{}, raw[:len(raw)&^1]...), 0, 0), false, false), tier, "pol", "255"))
		}
	}
	return cs
}

func isSurrogateLast(b []byte) bool {
	if len(b) < 2 {
		return false
	}
	n := len(b) &^ 1
	u := uint16(b[n-2]) | uint16(b[n-1])<<8
	return u >= 0xD800 && u <= 0xDFFF
}

func gap3Cases(r *rand.Rand, tier string) []core.Case {
	return append(gap3Codec(r, tier), gap3Unicode(r, tier)...)
}

// ---------------------------------------------------------------- the two direct operations

// gap3Run: `dec` = compression.CompressorFromGUID(&guid).Decode(payload) — the call NewSection makes;
// `ucs` = unicode.UCS2ToUTF8(bytes) — the call NewSection and the NVAR name parser make.
func gap3Run(c core.Case) (core.Outcome, bool) {
	var out core.Outcome
	switch c.Op {
	case "dec":
		in := core.UnHex(c.Args["hex"])
		g, known := codecNames[c.Args["codec"]]
		if !known {
			panic("c05: unknown codec " + c.Args["codec"])
		}
		hu.ResetState()
		keep := append([]byte{}, in...)
		var dec []byte
		r := call(func() error {
			cp := compression.CompressorFromGUID(&g)
			if cp == nil {
				return fmt.Errorf("no compressor")
			}
			o, err := cp.Decode(in)
			if err == nil {
				dec = o
			}
			return err
		})
		out.Checks = append(out.Checks, totalCheck("dec", r))
		if c.Args["codec"] == "ZLIB" || c.Args["codec"] == "BROTLI" {
			// (the LZMA decoders allocate their dictionary from a header field: known finding `lzma-dict`,
			// measured through the section parser where the allowance is computed)
			out.Checks = append(out.Checks, resourceChecks("dec", r, ctx{inputLen: len(in), decompressed: uint64(len(dec))})...)
		}
		same := "unchanged"
		if !bytes.Equal(keep, in) {
			same = "modified"
		}
		out.Checks = append(out.Checks, core.Check{Tag: "O", What: "input-buffer-unchanged", Exp: "unchanged", Got: same, Sig: "input-modified:dec"})
		out.Class = "dec:" + c.Args["codec"] + ":" + r.class
		out.Key = fmt.Sprintf("%s %016x", r.class, core.FNV(dec))
		out.Trivial = false
		return out, true
	case "ucs":
		in := core.UnHex(c.Args["hex"])
		var s string
		r := call(func() error {
			s = funicode.UCS2ToUTF8(in)
			return nil
		})
		out.Checks = append(out.Checks, totalCheck("ucs", r))
		out.Checks = append(out.Checks, resourceChecks("ucs", r, ctx{inputLen: len(in)})...)
		out.Class = "ucs:" + r.class
		out.Key = fmt.Sprintf("%s %x", r.class, s)
		out.Trivial = false
		return out, true
	}
	return out, false
}
