// Package c05: harness for property C05 (not built yet).
package c05
