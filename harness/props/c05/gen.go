package c05

// Generators.  Seeds are well-formed images from the shared reference-grammar generator
// (harness/props/uefi), plus builders of our own for what that grammar leaves out: compressed
// GUID-defined sections, NVAR stores (inside a RAW file and stand-alone), ME partition tables.
// From every seed:
//   * boundary mutants — every header field × every boundary value (core.BoundaryMutants; field maps below),
//     checksums re-fixed for every second mutant;
//   * random mutants (core.RandomMutants);
// and, independent of the seeds, the historical fuzz corpus (pkg/uefi/testdata/fuzz_in.txz) and random bytes.

import (
	"archive/tar"
	"encoding/binary"
	"fmt"
	"io"
	"math/rand"
	"os"
	"os/exec"
	"path/filepath"
	"strings"

	"github.com/linuxboot/fiano/pkg/compression"

	"verif/harness/core"
	hu "verif/harness/props/uefi"
	ue "verif/harness/props/uefiedit"
)

func le(n int, v uint64) []byte {
	out := make([]byte, n)
	for i := 0; i < n; i++ {
		out[i] = byte(v >> (8 * i))
	}
	return out
}

func rep(b byte, n int) []byte {
	out := make([]byte, n)
	for i := range out {
		out[i] = b
	}
	return out
}

// ---------------------------------------------------------------- field maps

// fieldsOf lists the length / offset / count / type fields of one header (offsets absolute in the image).
func fieldsOf(img []byte, m hu.Mark) []core.Field {
	o := m.Off
	f := func(name string, off, w int) core.Field {
		return core.Field{Name: m.Kind + "." + name, Off: o + off, W: w, Hdr: m.Len}
	}
	switch m.Kind {
	case "fv":
		if m.Len == 20 { // extended header
			return []core.Field{f("ExtHeaderSize", 16, 4)}
		}
		fs := []core.Field{f("Length", 32, 8), f("Signature", 40, 4), f("Attributes", 44, 4), f("HeaderLen", 48, 2),
			f("Checksum", 50, 2), f("ExtHeaderOffset", 52, 2), f("Revision", 55, 1), f("FileSystemGUID[0]", 16, 1)}
		for b := 56; b+8 <= m.Len; b += 8 {
			fs = append(fs, f(fmt.Sprintf("Block[%d].Count", (b-56)/8), b, 4), f(fmt.Sprintf("Block[%d].Size", (b-56)/8), b+4, 4))
		}
		return fs
	case "file":
		fs := []core.Field{f("Checksum.Header", 16, 1), f("Checksum.File", 17, 1), f("Type", 18, 1), f("Attributes", 19, 1),
			f("Size", 20, 3), f("State", 23, 1)}
		if m.Len == 32 {
			fs = append(fs, f("ExtendedSize", 24, 8))
		}
		return fs
	case "sec":
		fs := []core.Field{f("Size", 0, 3), f("Type", 3, 1)}
		hl := 4
		if m.Len == 8 || m.Len == 28 {
			hl = 8
			fs = append(fs, f("ExtendedSize", 4, 4))
		}
		if m.Len == hl+20 {
			fs = append(fs, f("GUID[0]", hl, 1), f("DataOffset", hl+16, 2), f("GUIDAttributes", hl+18, 2))
		}
		return fs
	case "desc":
		var fs []core.Field
		if m.Len == 20 { // signature + descriptor map
			fs = append(fs, f("Signature", 0, 4))
			for i := 0; i < 16; i++ {
				fs = append(fs, f(fmt.Sprintf("Map[%d]", i), 4+i, 1))
			}
			return fs
		}
		fs = append(fs, f("Reserved", 0, 2), f("FlashBlockEraseSize", 2, 2))
		for i := 0; i < 15; i++ {
			fs = append(fs, f(fmt.Sprintf("Region[%d].Base", i), 4+4*i, 2), f(fmt.Sprintf("Region[%d].Limit", i), 6+4*i, 2))
		}
		return fs
	case "nvar":
		fs := []core.Field{f("Signature", 0, 4), f("Size", 4, 2), f("Next", 6, 3), f("Attributes", 9, 1), f("GUIDIndex", 10, 1),
			f("Name[0]", 11, 1)}
		if m.Len >= 14 {
			fs = append(fs, f("ExtHeaderSize", m.Len-2, 2), f("ExtChecksum", m.Len-3, 1))
		}
		return fs
	case "nvext":
		return []core.Field{f("ExtAttributes", 0, 1), f("Timestamp", 1, 8)}
	case "fpt":
		fs := []core.Field{f("Signature", 0, 4), f("PartitionCount", 4, 4)}
		for e := 32; e+32 <= m.Len; e += 32 {
			fs = append(fs, f(fmt.Sprintf("Entry[%d].Offset", e/32-1), e+8, 4), f(fmt.Sprintf("Entry[%d].Length", e/32-1), e+12, 4),
				f(fmt.Sprintf("Entry[%d].Flags", e/32-1), e+28, 4))
		}
		return fs
	case "lzma":
		return []core.Field{f("Properties", 0, 1), f("DictSize", 1, 4), f("UncompressedSize", 5, 8)}
	case "zlib":
		return []core.Field{f("SectionSize", 20, 4), f("CMF", 256, 1), f("FLG", 257, 1)}
	}
	return nil
}

// refix recomputes the checksums the `validate` visitor looks at: the 16-bit header checksum of every
// marked volume and the 8-bit header checksum of every marked file (best effort on a mutated image).
func refix(b []byte, marks []hu.Mark) {
	for _, m := range marks {
		switch {
		case m.Kind == "fv" && m.Len >= 64 && m.Off+m.Len <= len(b):
			hl := int(binary.LittleEndian.Uint16(b[m.Off+48:]))
			if hl < 52 || hl%2 != 0 || m.Off+hl > len(b) {
				continue
			}
			b[m.Off+50], b[m.Off+51] = 0, 0
			var sum uint16
			for i := 0; i+1 < hl; i += 2 {
				sum += binary.LittleEndian.Uint16(b[m.Off+i:])
			}
			binary.LittleEndian.PutUint16(b[m.Off+50:], 0-sum)
		case m.Kind == "file" && m.Off+m.Len <= len(b):
			b[m.Off+16] = 0
			var sum uint8
			for i := 0; i < m.Len; i++ {
				if i != 17 && i != 23 {
					sum += b[m.Off+i]
				}
			}
			b[m.Off+16] = 0 - sum
		}
	}
}

// ---------------------------------------------------------------- builders of our own

type built struct {
	b     []byte
	marks []hu.Mark
}

func secHdr(typ uint8, total int) []byte { return append(le(3, uint64(total)), typ) }

func plainSec(typ uint8, body []byte) []byte { return append(secHdr(typ, 4+len(body)), body...) }

func joinSecs(secs ...[]byte) []byte {
	var out []byte
	for _, s := range secs {
		for len(out)%4 != 0 {
			out = append(out, 0)
		}
		out = append(out, s...)
	}
	return out
}

var (
	guidLZMA    = append([]byte{}, compression.LZMAGUID[:]...)
	guidLZMAX86 = append([]byte{}, compression.LZMAX86GUID[:]...)
	guidZLIB    = append([]byte{}, compression.ZLIBGUID[:]...)
	guidBROTLI  = append([]byte{}, compression.BROTLIGUID[:]...)
)

func guidedSec(g []byte, dataOffset, attrs uint16, payload []byte) []byte {
	out := secHdr(0x02, 24+len(payload))
	out = append(out, g...)
	out = append(out, le(2, uint64(dataOffset))...)
	out = append(out, le(2, uint64(attrs))...)
	return append(out, payload...)
}

func encodeWith(g []byte, plain []byte) []byte {
	switch string(g) {
	case string(guidLZMA):
		enc, err := (&compression.LZMA{}).Encode(plain)
		if err != nil {
			panic(err)
		}
		return enc
	case string(guidZLIB):
		enc, err := (&compression.ZLIB{}).Encode(plain)
		if err != nil {
			panic(err)
		}
		return enc
	case string(guidLZMAX86):
		// the filter only touches E8/E9 call operands; a payload without such bytes is its own image
		enc, err := (&compression.LZMA{}).Encode(plain)
		if err != nil {
			panic(err)
		}
		return enc
	}
	return plain // BROTLI: no encoder in the sandbox; the payload is whatever it is
}

func fileHdr(g []byte, typ, attrs uint8, total int, state uint8) []byte {
	out := append([]byte{}, g...)
	out = append(out, 0, 0xAA, typ, attrs)
	out = append(out, le(3, uint64(total))...)
	out = append(out, state)
	return out
}

func fvWrap(files [][]byte, fileMarks [][]hu.Mark, free int) built {
	hdr := make([]byte, 16)
	hdr = append(hdr, hu.GuidFFS2...)
	hdr = append(hdr, le(8, 0)...)
	hdr = append(hdr, '_', 'F', 'V', 'H')
	hdr = append(hdr, le(4, 0x0004FEFF)...)
	hdr = append(hdr, le(2, 72)...)
	hdr = append(hdr, 0, 0, 0, 0, 0, 2)
	hdr = append(hdr, le(4, 1)...)
	hdr = append(hdr, le(4, 0)...) // block size patched below
	hdr = append(hdr, make([]byte, 8)...)
	out := built{b: hdr, marks: []hu.Mark{{Off: 0, Len: 72, Kind: "fv"}}}
	for i, f := range files {
		for len(out.b)%8 != 0 {
			out.b = append(out.b, 0xFF)
		}
		base := len(out.b)
		out.b = append(out.b, f...)
		for _, m := range fileMarks[i] {
			m.Off += base
			out.marks = append(out.marks, m)
		}
	}
	for len(out.b)%8 != 0 {
		out.b = append(out.b, 0xFF)
	}
	out.b = append(out.b, rep(0xFF, free)...)
	binary.LittleEndian.PutUint64(out.b[32:], uint64(len(out.b)))
	binary.LittleEndian.PutUint32(out.b[60:], uint32(len(out.b)))
	refix(out.b, out.marks[:1])
	return out
}

// sectionedFile wraps a section stream into a file of a parsed type.
func sectionedFile(g []byte, typ uint8, secs []byte, secMarks []hu.Mark) ([]byte, []hu.Mark) {
	f := append(fileHdr(g, typ, 0, 24+len(secs), 0xF8), secs...)
	marks := []hu.Mark{{Off: 0, Len: 24, Kind: "file"}}
	for _, m := range secMarks {
		m.Off += 24
		marks = append(marks, m)
	}
	refix(f, marks[:1])
	return f, marks
}

// compressedVolume: a volume with one file holding a GUID-defined section whose payload decodes to `inner`.
func compressedVolume(r *rand.Rand, codec []byte, inner []byte, innerMarksInPayload bool) built {
	enc := encodeWith(codec, inner)
	gs := guidedSec(codec, 24, 1, enc)
	secMarks := []hu.Mark{{Off: 0, Len: 24, Kind: "sec"}}
	switch string(codec) {
	case string(guidLZMA), string(guidLZMAX86):
		secMarks = append(secMarks, hu.Mark{Off: 24, Len: 13, Kind: "lzma"})
	case string(guidZLIB):
		secMarks = append(secMarks, hu.Mark{Off: 24, Len: 258, Kind: "zlib"})
	}
	// a second, plain section after it (NewSection hands the decoder the rest of the *file*)
	secs := joinSecs(gs, plainSec(0x19, []byte{1, 2, 3, 4, 5}))
	g := make([]byte, 16)
	r.Read(g)
	f, fm := sectionedFile(g, 0x02, secs, secMarks)
	return fvWrap([][]byte{f}, [][]hu.Mark{fm}, 64)
}

// innerPayloads: section streams to be compressed (well-formed ones and the hostile shapes a decoder can
// hand to the encapsulated-section loop).
func innerPayloads(r *rand.Rand) [][]byte {
	g := &hu.Gen{R: r, MaxAlign: 1, Depth: 1}
	small := g.FV(600, false).Ser()
	ui := plainSec(0x15, hu.UCS2([]rune("Shell")))
	pe := plainSec(0x10, append([]byte("MZ"), rep(0x90, 60)...))
	lz, _ := (&compression.LZMA{}).Encode(joinSecs(plainSec(0x19, []byte("nested payload"))))
	return [][]byte{
		joinSecs(pe, ui),
		joinSecs(plainSec(0x17, small), ui),                       // nested volume
		joinSecs(guidedSec(guidLZMA, 24, 1, lz), ui),              // compression inside compression
		{0, 0, 0, 0x19},                                           // a zero-size section (§8 new: endless loop)
		{4, 0, 0, 0x19, 0, 0, 0, 0x19},                            // … after a well-formed one
		{0xFF, 0xFF, 0xFF, 0x19, 0, 0, 0, 0},                      // extended size 0
		{1, 0, 0, 0x19},                                           // size smaller than the header
		{3, 0, 0, 0x19, 9, 9, 9, 9, 8, 0, 0, 0x15, 0x41, 0, 0, 0}, // short RAW, then a UI section
		{0x10, 0, 0, 0x02},                                        // GUID-defined, truncated sub-header
		append(secHdr(0x17, 4+8), rep(0, 8)...),                   // volume image too small
		rep(0xFF, 16),                                             // erased
		{},                                                        // empty output
	}
}

// ---- NVAR

type nvEntry struct {
	attrs   byte
	next    uint32
	guidIdx byte
	guid    []byte // with attrs&4
	name    []byte // encoded name incl. terminator
	data    []byte
	ext     []byte // extended header incl. trailing size (attrs&0x10)
}

func (e nvEntry) ser() []byte {
	body := []byte{}
	if e.attrs&0x08 == 0 {
		if e.attrs&0x04 != 0 {
			body = append(body, e.guid...)
		} else {
			body = append(body, e.guidIdx)
		}
		body = append(body, e.name...)
	}
	body = append(body, e.data...)
	body = append(body, e.ext...)
	out := []byte("NVAR")
	out = append(out, le(2, uint64(10+len(body)))...)
	out = append(out, le(3, uint64(e.next))...)
	out = append(out, e.attrs)
	return append(out, body...)
}

func extHeader(extAttrs byte, withTimestamp bool, hash bool, padTo int) []byte {
	x := []byte{extAttrs}
	if withTimestamp {
		x = append(x, le(8, 0x1122334455667788)...)
	}
	if hash {
		x = append(x, rep(0xAB, 32)...)
	}
	for len(x) < padTo {
		x = append(x, 0)
	}
	if extAttrs&1 != 0 {
		x = append(x, 0) // stored checksum
	}
	return append(x, le(2, uint64(len(x)+2))...)
}

// nvarStore builds a store of `size` bytes: entries, erased space, GUID table (reversed) at the end.
func nvarStore(r *rand.Rand, size int, hostile bool) built {
	var out built
	nguids := 1 + r.Intn(3)
	add := func(e nvEntry) {
		b := e.ser()
		out.marks = append(out.marks, hu.Mark{Off: len(out.b), Len: len(b), Kind: "nvar"})
		if len(e.ext) > 0 {
			out.marks = append(out.marks, hu.Mark{Off: len(out.b) + len(b) - len(e.ext), Len: len(e.ext), Kind: "nvext"})
		}
		out.b = append(out.b, b...)
	}
	n := 2 + r.Intn(5)
	for i := 0; i < n; i++ {
		e := nvEntry{attrs: 0x80 | 0x02, next: 0xFFFFFF, guidIdx: byte(r.Intn(nguids)), name: append([]byte(fmt.Sprintf("Var%d", i)), 0),
			data: rep(byte(i), 1+r.Intn(24))}
		switch r.Intn(8) {
		case 0: // UCS-2 name
			e.attrs &^= 0x02
			e.name = hu.UCS2([]rune(fmt.Sprintf("Ünï%d", i)))
		case 1: // GUID in the entry
			e.attrs |= 0x04
			e.guid = rep(byte(0x30+i), 16)
		case 2: // link to a data-only entry that follows
			self := len(out.b)
			first := e.ser()
			e.next = uint32(len(first))
			add(e)
			_ = self
			e = nvEntry{attrs: 0x80 | 0x08, next: 0xFFFFFF, data: rep(0x77, 5)}
		case 3: // extended header with checksum and timestamp
			e.attrs |= 0x10
			e.ext = extHeader(0x01, true, false, 0)
		case 4: // invalid (deleted) entry
			e.attrs &^= 0x80
		case 6: // link to a data-only entry that carries an extended header with timestamp and hash
			first := e.ser()
			e.next = uint32(len(first))
			add(e)
			e = nvEntry{attrs: 0x80 | 0x08 | 0x10, next: 0xFFFFFF, data: rep(0x66, 6), ext: extHeader(0x00, true, true, 0)}
		case 7: // extended header, authenticated write (no timestamp)
			e.attrs |= 0x10 | 0x40
			e.ext = extHeader(0x01, false, false, 12)
		case 5: // nested store in the content
			inner := nvEntry{attrs: 0x80 | 0x02, next: 0xFFFFFF, guidIdx: 0, name: []byte("In\x00"), data: []byte{1, 2, 3}}
			e.data = append(inner.ser(), rep(0xFF, 40)...)
		}
		add(e)
	}
	if hostile {
		switch r.Intn(6) {
		case 0: // §8 #1: Size smaller than the header
			out.b = append(out.b, []byte("NVAR")...)
			out.b = append(out.b, 5, 0, 0xFF, 0xFF, 0xFF, 0x82, 0, 0)
		case 1: // §8 #2: Size zero
			out.b = append(out.b, []byte("NVAR")...)
			out.b = append(out.b, 0, 0, 0xFF, 0xFF, 0xFF, 0x00, 0, 0)
		case 2: // §8 #3: empty UCS-2 name
			e := nvEntry{attrs: 0x80, next: 0xFFFFFF, guidIdx: 0, name: []byte{0, 0}, data: []byte{1}}
			add(e)
		case 3: // GUID index far beyond the store
			e := nvEntry{attrs: 0x82, next: 0xFFFFFF, guidIdx: 0xFF, name: []byte("X\x00"), data: []byte{1}}
			add(e)
		case 4: // entry reaching the GUID table
			e := nvEntry{attrs: 0x82, next: 0xFFFFFF, guidIdx: 2, name: []byte("Big\x00")}
			room := size - len(out.b) - 10 - 1 - 4
			if room > 0 {
				e.data = rep(0x55, room)
				add(e)
			}
		}
	}
	if len(out.b)+16*nguids > size {
		size = len(out.b) + 16*nguids + 8
	}
	out.b = append(out.b, rep(0xFF, size-len(out.b)-16*nguids)...)
	for i := nguids - 1; i >= 0; i-- {
		out.b = append(out.b, rep(byte(0xA0+i), 16)...)
	}
	return out
}

// nvarVolume puts a store into a RAW file carrying the NVAR GUID, inside a volume.
func nvarVolume(st built) built {
	f := append(fileHdr(hu.GuidNVAR, 0x01, 0, 24+len(st.b), 0xF8), st.b...)
	marks := []hu.Mark{{Off: 0, Len: 24, Kind: "file"}}
	for _, m := range st.marks {
		m.Off += 24
		marks = append(marks, m)
	}
	refix(f, marks[:1])
	return fvWrap([][]byte{f}, [][]hu.Mark{marks}, 32)
}

// ---- ME partition table

func meRegion(r *rand.Rand, size int, entries int) built {
	b := rep(0xFF, size)
	o := 16
	copy(b[o:], "$FPT")
	binary.LittleEndian.PutUint32(b[o+4:], uint32(entries))
	for i := 0; i < 24; i++ {
		b[o+8+i] = byte(i)
	}
	for e := 0; e < entries; e++ {
		p := o + 32 + 32*e
		if p+32 > size {
			break
		}
		copy(b[p:], fmt.Sprintf("P%03d", e))
		binary.LittleEndian.PutUint32(b[p+8:], uint32(0x400+0x100*e))
		binary.LittleEndian.PutUint32(b[p+12:], 0x100)
		binary.LittleEndian.PutUint32(b[p+28:], uint32(r.Intn(6)))
	}
	ln := 32 + 32*entries
	if o+ln > size {
		ln = size - o
	}
	return built{b: b, marks: []hu.Mark{{Off: o, Len: ln, Kind: "fpt"}}}
}

// ---------------------------------------------------------------- the canonical seed

// canonical is one flash image holding one of everything: descriptor, ME region with a partition table,
// BIOS region with a volume (extended header, block map) whose files cover: plain sections of every parsed
// kind, a large-header file, a GUID-defined section (not decoded), a nested volume, an NVAR store.
func canonical(r *rand.Rand) built {
	g := &hu.Gen{R: rand.New(rand.NewSource(7)), MaxAlign: 1, Depth: 1}
	gid := func(b byte) []byte { return rep(b, 16) }
	nested := g.FV(500, false)
	extDepex := append(append([]byte{0x02}, gid(0x45)...), 0x08) // PUSH guid, END
	fv := &hu.FV{ZV: make([]byte, 16), Attrs: 0x0004FEFF, Rev: 2, Blocks: []hu.Block{{Count: 1, Size: 0x2000}},
		ExtHdr: &hu.ExtHdr{FVName: gid(0xE1), Data: []byte{1, 2, 3, 4}}}
	mk := func(gb byte, typ uint8, secs ...*hu.Sec) *hu.File {
		return &hu.File{Kind: "fs", GUID: gid(gb), Type: typ, State: 0xF8, Secs: secs}
	}
	fv.Files = []*hu.File{
		mk(0x11, 0x07, &hu.Sec{Kind: "sl", Type: 0x10, Body: append([]byte("MZ"), rep(0x90, 40)...)},
			&hu.Sec{Kind: "su", Name: []rune("Driver")}, &hu.Sec{Kind: "sv", Build: 7, Name: []rune("1.0")},
			&hu.Sec{Kind: "sd", Type: 0x13, Ops: []hu.DepOp{{Op: 2, GUID: gid(0x44)}, {Op: 8}}}),
		mk(0x12, 0x02, &hu.Sec{Kind: "sl", Type: 0x19, Ext: true, Body: rep(0x5A, 20)},
			&hu.Sec{Kind: "sg", GUID: gid(0x77), DataOffset: 24, Attrs: 2, Body: rep(0x33, 16)}),
		mk(0x13, 0x0b, &hu.Sec{Kind: "sf", FV: nested}),
		{Kind: "fl", GUID: gid(0x14), Type: 0x01, State: 0xF8, Ext: true, Attrs: 1, CkF: 0xAA, Body: rep(0x21, 40)},
		// every parsed section kind once more behind the *extended* common header (Size = FFFFFF, 32-bit
		// ExtendedSize): each has a header-size guard of its own in NewSection, and the boundary mutants of
		// ExtendedSize (…, 4, 5, 7, 8, 9, …) are what tells a guard against the 4-byte header from one against
		// this section's header (seeded defect c05-1)
		mk(0x15, 0x07,
			&hu.Sec{Kind: "sl", Type: 0x15, Ext: true, Body: hu.UCS2([]rune("ExtName"))},
			&hu.Sec{Kind: "sl", Type: 0x14, Ext: true, Body: append(le(2, 7), hu.UCS2([]rune("2.0"))...)},
			&hu.Sec{Kind: "sl", Type: 0x13, Ext: true, Body: extDepex},
			&hu.Sec{Kind: "sl", Type: 0x1b, Ext: true, Body: extDepex},
			&hu.Sec{Kind: "sl", Type: 0x1c, Ext: true, Body: extDepex},
			&hu.Sec{Kind: "sl", Type: 0x17, Ext: true, Body: g.FV(200, false).Ser()},
			&hu.Sec{Kind: "sg", Ext: true, GUID: gid(0x78), DataOffset: 28, Attrs: 2, Body: rep(0x34, 16)}),
	}
	fv.Files[3].CkH = hu.HeaderChecksum(fv.Files[3], 32+40)
	fv.Free = 0x2000 - fv.FilesEnd()
	if fv.Free < 0 {
		panic("canonical volume too large")
	}
	nv := nvarVolume(nvarStore(rand.New(rand.NewSource(11)), 0x300, false))
	bios := &hu.Bios{Items: []hu.Item{{FV: fv}}}
	bb := bios.Ser()
	var marks []hu.Mark
	// descriptor
	desc := rep(0xFF, 4096)
	copy(desc[16:], []byte{0x5a, 0xa5, 0xf0, 0x0f})
	for i := 0; i < 16; i++ {
		desc[20+i] = 0
	}
	desc[20+2] = 0x04 // RegionBase -> 0x40
	desc[20+4] = 0x06 // MasterBase -> 0x60
	for i := 0x40; i < 0x80; i++ {
		desc[i] = 0
	}
	me := meRegion(r, 4096, 3)
	// layout: [desc][ME 1 block][BIOS: canonical volume + nvar volume, padded to blocks]
	biosBytes := append(append([]byte{}, bb...), nv.b...)
	for len(biosBytes)%4096 != 0 {
		biosBytes = append(biosBytes, 0xFF)
	}
	nb := len(biosBytes) / 4096
	setReg := func(i, base, limit int) {
		binary.LittleEndian.PutUint16(desc[0x44+4*i:], uint16(base))
		binary.LittleEndian.PutUint16(desc[0x46+4*i:], uint16(limit))
	}
	for i := 0; i < 15; i++ {
		setReg(i, 0x7FFF, 0)
	}
	setReg(1, 1, 1)
	setReg(0, 2, 1+nb)
	img := append(append(append([]byte{}, desc...), me.b...), biosBytes...)
	marks = append(marks, hu.Mark{Off: 16, Len: 20, Kind: "desc"}, hu.Mark{Off: 0x40, Len: 64, Kind: "desc"})
	for _, m := range me.marks {
		m.Off += 4096
		marks = append(marks, m)
	}
	for _, m := range (&hu.Img{Bios: bios}).Marks() {
		m.Off += 8192
		marks = append(marks, m)
	}
	for _, m := range nv.marks {
		m.Off += 8192 + len(bb)
		marks = append(marks, m)
	}
	return built{b: img, marks: marks}
}

// ---------------------------------------------------------------- cases

func hexCase(kind, op string, b []byte, tier string, extra ...string) core.Case {
	c := core.Case{Kind: kind, Op: op, Args: map[string]string{"hex": core.Hex(b), "tier": tier}}
	for i := 0; i+1 < len(extra); i += 2 {
		c.Args[extra[i]] = extra[i+1]
	}
	return c
}

// containerValues: boundary values that depend on where a header sits inside its container — the bytes left
// to the end of the enclosing volume (file sizes) or file (section sizes, GUID-defined data offsets), and, for
// the descriptor's region table, the image size in 4 KiB blocks — each ± 1.
func containerValues(img []byte, marks []hu.Mark, m hu.Mark, f core.Field) []uint64 {
	var vals []uint64
	around := func(v int) {
		for d := -1; d <= 1; d++ {
			if v+d >= 0 {
				vals = append(vals, uint64(v+d))
			}
		}
	}
	enclosingEnd := func(kind string) int {
		end := -1
		for _, e := range marks {
			if e.Kind != kind || e.Off >= m.Off || e.Off+e.Len > len(img) {
				continue
			}
			var size int
			switch kind {
			case "fv":
				if e.Len < 64 {
					continue
				}
				size = int(binary.LittleEndian.Uint64(img[e.Off+32:]))
			case "file":
				size = int(img[e.Off+20]) | int(img[e.Off+21])<<8 | int(img[e.Off+22])<<16
				if size == 0xFFFFFF && e.Len == 32 {
					size = int(binary.LittleEndian.Uint64(img[e.Off+24:]))
				}
			}
			if size > 0 && e.Off+size >= m.Off && e.Off+size <= len(img) {
				end = e.Off + size // the innermost one comes last
			}
		}
		return end
	}
	switch {
	case m.Kind == "file" && (f.Name == "file.Size" || f.Name == "file.ExtendedSize"):
		if end := enclosingEnd("fv"); end > 0 {
			around(end - m.Off)
		}
	case m.Kind == "sec" && (f.Name == "sec.Size" || f.Name == "sec.ExtendedSize" || f.Name == "sec.DataOffset"):
		if end := enclosingEnd("file"); end > 0 {
			around(end - m.Off)
		}
		if end := enclosingEnd("fv"); end > 0 {
			around(end - m.Off)
		}
	case m.Kind == "desc" && m.Len == 64 && f.W == 2 && f.Off >= m.Off+4:
		around(len(img) / 4096)
		around(len(img)/4096 - 1)
	case m.Kind == "nvar" && f.Name == "nvar.Size":
		around(m.Len)
		around(10)
	case m.Kind == "nvar" && f.Name == "nvar.ExtHeaderSize":
		around(m.Len - 10)
		around(10 + 32)
		around(1 + 8 + 32 + 2)
	}
	return vals
}

// boundary: every field × every boundary value; every second mutant has its checksums re-fixed.
func boundary(kind, op string, s built, tier string, stride int, r *rand.Rand, extra ...string) []core.Case {
	var fields []core.Field
	for _, m := range s.marks {
		fields = append(fields, fieldsOf(s.b, m)...)
	}
	var cs []core.Case
	for i, mu := range core.BoundaryMutants(s.b, fields) {
		if stride > 1 && r.Intn(stride) != 0 {
			continue
		}
		b := mu.Bytes
		if i%2 == 1 {
			refix(b, s.marks)
		}
		cs = append(cs, hexCase(kind, op, b, tier, extra...))
	}
	// container-relative values (never sampled away: there are few of them)
	n := 0
	for _, m := range s.marks {
		for _, f := range fieldsOf(s.b, m) {
			if f.Off < 0 || f.Off+f.W > len(s.b) {
				continue
			}
			for _, v := range containerValues(s.b, s.marks, m, f) {
				b := append([]byte(nil), s.b...)
				for k := 0; k < f.W; k++ {
					b[f.Off+k] = byte(v >> (8 * uint(k)))
				}
				if n%2 == 1 {
					refix(b, s.marks)
				}
				n++
				cs = append(cs, hexCase(kind, op, b, tier, extra...))
			}
		}
	}
	return cs
}

func seedImage(r *rand.Rand, maxLen int) (built, string) {
	for {
		g := &hu.Gen{R: r, MaxAlign: 3, Depth: 2}
		var img *hu.Img
		kind := ""
		switch r.Intn(4) {
		case 0:
			img, kind = &hu.Img{Flash: g.Flash(1 + r.Intn(2))}, "flash"
		case 1:
			img, kind = &hu.Img{Bios: &hu.Bios{Items: []hu.Item{{FV: g.FV(512+r.Intn(4096), r.Intn(4) == 0)}}}}, "fv"
		default:
			img, kind = &hu.Img{Bios: g.Bios(0, 1+r.Intn(2))}, "bios"
		}
		b := img.Ser()
		if len(b) <= maxLen {
			return built{b: b, marks: img.Marks()}, kind
		}
	}
}

func fuzzCorpus() [][]byte {
	root := os.Getenv("VERIF_REPO")
	if root == "" {
		root = "/repo"
	}
	p := filepath.Join(root, "pkg", "uefi", "testdata", "fuzz_in.txz")
	if _, err := os.Stat(p); err != nil {
		return nil
	}
	cmd := exec.Command("xz", "-dc", p)
	rd, err := cmd.StdoutPipe()
	if err != nil || cmd.Start() != nil {
		return nil
	}
	defer cmd.Wait()
	var out [][]byte
	tr := tar.NewReader(rd)
	for {
		h, err := tr.Next()
		if err != nil {
			break
		}
		if h.Typeflag != tar.TypeReg {
			continue
		}
		b, err := io.ReadAll(tr)
		if err != nil {
			break
		}
		out = append(out, b)
	}
	io.Copy(io.Discard, rd)
	return out
}

func (prop) Gen(r *rand.Rand, tier string) []core.Case {
	cs := genAll(r, tier)
	if only := os.Getenv("C05_ONLY"); only != "" { // debugging knob: one operation only
		var out []core.Case
		for _, c := range cs {
			if c.Op == only || (strings.HasPrefix(only, "kind:") && strings.HasPrefix(c.Kind, only[5:])) {
				out = append(out, c)
			}
		}
		return out
	}
	return cs
}

func genAll(r *rand.Rand, tier string) []core.Case {
	thorough := tier == "thorough"
	var cs []core.Case
	pick := func(q, t int) int {
		if thorough {
			return t
		}
		return q
	}

	// 1. the canonical seed: exhaustive field × boundary value (parse), plus its walkers
	can := canonical(r)
	cs = append(cs, hexCase("seed-canonical", "parse", can.b, tier))
	cs = append(cs, boundary("boundary-canonical", "parse", can, tier, 1, r)...)

	// 2. generated seeds: seeds themselves, boundary mutants (sampled in the quick tier), random mutants
	nSeeds := pick(8, 80)
	for i := 0; i < nSeeds; i++ {
		s, kind := seedImage(r, pick(12<<10, 16<<10))
		cs = append(cs, hexCase("seed-"+kind, "parse", s.b, tier))
		if i%4 == 0 {
			cs = append(cs, hexCase("seed-"+kind+"-dd", "parse", s.b, tier, "dd", "1"))
		}
		cs = append(cs, boundary("boundary-"+kind, "parse", s, tier, pick(16, 3), r)...)
		for _, m := range core.RandomMutants(r, s.b, pick(6, 20)) {
			cs = append(cs, hexCase("random-"+kind, "parse", m, tier))
		}
		// direct entry points on the sub-buffers the marks point at
		for _, m := range s.marks {
			if r.Intn(pick(8, 3)) != 0 || m.Off >= len(s.b) {
				continue
			}
			op := map[string]string{"fv": "fv", "file": "file", "sec": "sec"}[m.Kind]
			if op == "" || (m.Kind == "fv" && m.Len == 20) {
				continue
			}
			sub := s.b[m.Off:]
			if len(sub) > 6<<10 {
				sub = sub[:6<<10]
			}
			cs = append(cs, hexCase("direct-"+op, op, sub, tier))
			one := built{b: sub, marks: []hu.Mark{{Off: 0, Len: m.Len, Kind: m.Kind}}}
			cs = append(cs, boundary("boundary-direct-"+op, op, one, tier, pick(4, 2), r)...)
		}
	}

	// 3. compressed sections: every codec × every inner payload; boundary mutants of the GUID-defined header
	//    and of the compressed stream's own header
	for ci, codec := range [][]byte{guidLZMA, guidLZMAX86, guidZLIB, guidBROTLI} {
		name := []string{"lzma", "lzmax86", "zlib", "brotli"}[ci]
		for pi, inner := range innerPayloads(r) {
			if string(codec) == string(guidBROTLI) && pi > 1 {
				break
			}
			s := compressedVolume(r, codec, inner, false)
			cs = append(cs, hexCase("compressed-"+name, "parse", s.b, tier))
			if pi < 3 {
				// NewSection / NewFile called directly on the GUID-defined section and its file
				for _, m := range s.marks {
					op := map[string]string{"file": "file", "sec": "sec"}[m.Kind]
					if op == "" || m.Len != 24 {
						continue
					}
					sub := s.b[m.Off:]
					var sm []hu.Mark
					for _, x := range s.marks {
						if x.Off >= m.Off {
							x.Off -= m.Off
							sm = append(sm, x)
						}
					}
					cs = append(cs, hexCase("direct-compressed-"+op, op, sub, tier))
					cs = append(cs, boundary("boundary-direct-compressed-"+op, op, built{b: sub, marks: sm}, tier, pick(4, 1), r)...)
				}
			}
			if pi < 3 {
				cs = append(cs, boundary("boundary-compressed-"+name, "parse", s, tier, pick(6, 1), r)...)
				for _, m := range core.RandomMutants(r, s.b, pick(4, 40)) {
					cs = append(cs, hexCase("random-compressed-"+name, "parse", m, tier))
				}
			}
			if pi == 0 {
				cs = append(cs, hexCase("compressed-"+name+"-dd", "parse", s.b, tier, "dd", "1"))
			}
		}
	}

	// 3b. gap closing round 3: streams that reach (and are refused by) the decoders' own readers, UCS-2
	//     strings that end in the middle of a surrogate pair / code unit (gap3.go)
	cs = append(cs, gap3Cases(r, tier)...)

	// 4. NVAR stores: stand-alone under each polarity, and inside a volume
	for i := 0; i < pick(6, 30); i++ {
		st := nvarStore(r, 0x100+r.Intn(0x300), i%2 == 1)
		pol := []string{"255", "255", "255", "0", "240"}[r.Intn(5)]
		cs = append(cs, hexCase("nvar-store", "nvar", st.b, tier, "pol", pol))
		cs = append(cs, boundary("boundary-nvar", "nvar", st, tier, pick(6, 1), r, "pol", pol)...)
		for _, m := range core.RandomMutants(r, st.b, pick(4, 30)) {
			cs = append(cs, hexCase("random-nvar", "nvar", m, tier, "pol", pol))
		}
		if i%3 == 0 {
			v := nvarVolume(st)
			cs = append(cs, hexCase("nvar-volume", "parse", v.b, tier))
			cs = append(cs, boundary("boundary-nvar-volume", "parse", v, tier, pick(8, 2), r)...)
		}
	}

	// 5. ME partition tables
	for i := 0; i < pick(3, 30); i++ {
		me := meRegion(r, 256+32*r.Intn(40), r.Intn(8))
		cs = append(cs, hexCase("fpt", "fpt", me.b, tier))
		cs = append(cs, boundary("boundary-fpt", "fpt", me, tier, pick(2, 1), r)...)
		for _, m := range core.RandomMutants(r, me.b, pick(3, 20)) {
			cs = append(cs, hexCase("random-fpt", "fpt", m, tier))
		}
	}

	// 5b. scaling: a few large well-formed images (oracles only; the model is not asked)
	if thorough {
		for _, kb := range []int{64, 128, 256, 512} {
			g := &hu.Gen{R: r, MaxAlign: 3, Depth: 2}
			b := (&hu.Img{Bios: g.Bios(kb<<10, 2+r.Intn(3))}).Ser()
			cs = append(cs, hexCase("large-bios", "parse", b, tier, "nomodel", "1"))
			f := (&hu.Img{Flash: g.Flash(kb / 4)}).Ser()
			cs = append(cs, hexCase("large-flash", "parse", f, tier, "nomodel", "1"))
		}
	}

	// 6. the historical fuzz corpus (sampled in the quick tier) and plain random bytes
	fz := fuzzCorpus()
	for i, b := range fz {
		if !thorough && r.Intn(len(fz)/150+1) != 0 {
			continue
		}
		if len(b) > 256<<10 && !thorough {
			continue
		}
		_ = i
		cs = append(cs, hexCase("fuzz-corpus", "parse", b, tier))
	}
	// 7. assemble after edit operations: the case streams of the C02 harness (read-only), every case ends
	//    with (or contains) `save`, which is Assemble on the edited tree
	for _, c := range append(append(ue.ExhaustiveCases(pick(1, 2)), ue.WrapperCases()...), ue.RandomCases(r, pick(250, 6000), true)...) {
		c.Kind = "edit-" + c.Kind
		c.Op = "asmrun"
		c.Args["tier"] = tier
		cs = append(cs, c)
	}

	for i := 0; i < pick(40, 1000); i++ {
		b := make([]byte, r.Intn(600))
		r.Read(b)
		op := []string{"parse", "fv", "file", "sec", "nvar", "fpt"}[r.Intn(6)]
		if op == "nvar" {
			cs = append(cs, hexCase("random-bytes", op, b, tier, "pol", "255"))
		} else {
			cs = append(cs, hexCase("random-bytes", op, b, tier))
		}
	}
	return cs
}
