// Package c05: UEFI image parsing and tree walking are total — a tree or an error, never a crash, a hang
// or a blow-up (pkg/uefi Parse / NewFirmwareVolume / NewFile / NewSection / NewNVarStore / NewMEFPT and the
// visitors json, table, validate, extract, assemble; cat is run as an extra walker).
//
// Every case runs in a watchdogged child process (core.Isolated): a hang is the O failure `terminates`,
// a crash / log.Fatalf / out-of-memory the O failure `no-crash`.  Inside the child each call is guarded,
// so one case reports every operation separately:
//
//	O  <op>-returns-or-errors   the call returned a value or an error (no panic, no log.Fatalf)
//	O  <op>-alloc-bounded       TotalAlloc delta ≤ k·|input| + K + kd·decompressed + per-decode allowance
//	O  <op>-time-bounded        CPU time ≤ a·(|input| + decompressed) + b
//	M  parse / fv / file / sec / nvar / fpt   outcome class and digest of the canonical tree dump against
//	                            the Go-semantics Lean model (`drv_c05`), for inputs up to mLimit bytes
//	M  walk                     validate / extract on the model's tree: class
//	M  asm                      (&visitors.Assemble{}).Run on the parsed tree against the Go-semantics model
//	                            assembleG: class, digest of the whole assembled tree, FNV of its root buffer
//	M  nvarwalk                 validate / extract / assemble over the NVarStore / NVar nodes: classes and the
//	                            FNV of the assembled store buffer
//	M  asmrun                   `utk <image> <edit ops> save`: every save assembled by assembleG (the case
//	                            stream of harness/props/uefiedit, used read-only)
//	O  save-after-edit-returns-or-errors   no panic / log.Fatalf in a save that follows edit operations
//
// The constants k, K, … are fixed below (bounds.go) and recorded in the report.
package c05

import (
	"bytes"
	"fmt"
	"io"
	"os"
	"path/filepath"
	"runtime"
	"runtime/debug"
	"runtime/metrics"
	"strings"
	"syscall"
	"time"

	"github.com/linuxboot/fiano/pkg/compression"
	"github.com/linuxboot/fiano/pkg/guid"
	fuefi "github.com/linuxboot/fiano/pkg/uefi"
	"github.com/linuxboot/fiano/pkg/visitors"

	"verif/harness/core"
	hu "verif/harness/props/uefi"
	ue "verif/harness/props/uefiedit"
)

type prop struct{}

func init() {
	core.Register(prop{})
	// the isolation child gets an address-space ceiling: an allocation by an unchecked length field
	// then ends the process ("fatal error: out of memory") and the parent reports O `no-crash`.
	if len(os.Args) > 1 && os.Args[1] == "worker" {
		// soft limit only: the model driver started by buildTable raises it again for itself
		var lim syscall.Rlimit
		if syscall.Getrlimit(syscall.RLIMIT_AS, &lim) == nil {
			lim.Cur = memCeiling
			syscall.Setrlimit(syscall.RLIMIT_AS, &lim)
		}
		// fiano is single-threaded; fewer Ps make the per-call measurements cheap and less noisy
		runtime.GOMAXPROCS(2)
		// (corpus case 23, nested NVAR stores, lived at the edge of this ceiling — json indents quadratically —
		// and passed or not with the allocation pattern of the binary; it was made smaller, see reports/C05.md B5.4)
		// scratch directories of workers that were killed in the middle of an extract
		for _, pat := range []string{"/dev/shm/c05-x-*", filepath.Join(os.TempDir(), "c05-x-*")} {
			ds, _ := filepath.Glob(pat)
			for _, d := range ds {
				if st, err := os.Stat(d); err == nil && time.Since(st.ModTime()) > 15*time.Minute {
					os.RemoveAll(d)
				}
			}
		}
	}
}

func (prop) ID() string                 { return "C05" }
func (prop) CaseTimeout() time.Duration { return 40 * time.Second }
func (prop) MemLimitBytes() uint64      { return memCeiling }

// ---------------------------------------------------------------- guarded, measured calls

type callRes struct {
	class  string // ok | err | panic | fatal
	detail string
	frame  string // top fiano frame of a panic
	alloc  uint64
	cpu    time.Duration
}

func topFrame(stack string) string {
	// frames after the panic machinery: the first one inside fiano
	lines := strings.Split(stack, "\n")
	seenPanic := false
	for _, l := range lines {
		l = strings.TrimSpace(l)
		if strings.HasPrefix(l, "panic(") {
			seenPanic = true
			continue
		}
		if !seenPanic {
			continue
		}
		if strings.HasPrefix(l, "github.com/linuxboot/fiano/") {
			l = strings.TrimPrefix(l, "github.com/linuxboot/fiano/")
			if i := strings.LastIndex(l, "("); i > 0 {
				l = l[:i]
			}
			return l
		}
	}
	return "unknown"
}

func cpuNow() time.Duration {
	var ru syscall.Rusage
	syscall.Getrusage(syscall.RUSAGE_SELF, &ru)
	return time.Duration(ru.Utime.Nano() + ru.Stime.Nano())
}

// allocated is the cumulative number of bytes allocated on the heap (= MemStats.TotalAlloc, read without
// stopping the world).
func allocated() uint64 {
	s := []metrics.Sample{{Name: "/gc/heap/allocs:bytes"}}
	metrics.Read(s)
	if s[0].Value.Kind() == metrics.KindUint64 {
		return s[0].Value.Uint64()
	}
	var m runtime.MemStats
	runtime.ReadMemStats(&m)
	return m.TotalAlloc
}

func call(f func() error) (res callRes) {
	a := allocated()
	t0 := cpuNow()
	defer func() {
		if r := recover(); r != nil {
			if ft, ok := r.(hu.Fatal); ok {
				res.class, res.detail = "fatal", "log.Fatalf: "+ft.Msg
			} else {
				res.class, res.detail = "panic", "panic: "+fmt.Sprint(r)
			}
			res.frame = topFrame(string(debug.Stack()))
			if len(res.detail) > 200 {
				res.detail = res.detail[:200]
			}
		}
		res.cpu = cpuNow() - t0
		res.alloc = allocated() - a
		if res.alloc > 256<<20 {
			debug.FreeOSMemory() // give the address space back before the next case
		}
	}()
	if err := f(); err != nil {
		res.class, res.detail = "err", err.Error()
		if len(res.detail) > 200 {
			res.detail = res.detail[:200]
		}
		return
	}
	res.class = "ok"
	return
}

// quiet runs f with os.Stdout pointing at /dev/null (NewFlashImage and Table print there).
func quiet(f func()) {
	stdout := os.Stdout
	devnull, err := os.OpenFile(os.DevNull, os.O_WRONLY, 0)
	if err == nil {
		os.Stdout = devnull
	}
	defer func() {
		os.Stdout = stdout
		if err == nil {
			devnull.Close()
		}
	}()
	f()
}

// ---------------------------------------------------------------- the decoder table for the model

var codecNames = map[string]guid.GUID{
	"LZMA":    compression.LZMAGUID,
	"LZMAX86": compression.LZMAX86GUID,
	"ZLIB":    compression.ZLIBGUID,
	"BROTLI":  compression.BROTLIGUID,
}

type decEntry struct {
	codec string
	in    []byte
	out   []byte
	ok    bool
	enc   bool // an *encoder* answer (assemble): key prefix "enc-"
}

type decTable []decEntry

func (t decTable) String() string {
	if len(t) == 0 {
		return "-"
	}
	var ps []string
	for _, e := range t {
		v := "!"
		if e.ok {
			v = core.Hex(e.out)
		}
		pre := ""
		if e.enc {
			pre = "enc-"
		}
		ps = append(ps, fmt.Sprintf("%s%s:%016x:%d=%s", pre, e.codec, core.FNV(e.in), len(e.in), v))
	}
	return strings.Join(ps, ",")
}

func (t decTable) decompressed() (n uint64) {
	for _, e := range t {
		if !e.enc {
			n += uint64(len(e.out))
		}
	}
	return
}

// thirdParty is the allocation the decoders themselves make from header fields of their input:
// the LZMA dictionary (header bytes 1..4) and probability tables (lc+lp from byte 0).  `capped` limits the
// dictionary to what xz -9 ever writes (64 MiB); anything above is the known finding `lzma-dict`.
func (t decTable) thirdParty(capped bool) (n uint64) {
	for _, e := range t {
		if e.enc {
			continue
		}
		switch e.codec {
		case "LZMA", "LZMAX86":
			if len(e.in) >= 13 {
				d := uint64(e.in[1]) | uint64(e.in[2])<<8 | uint64(e.in[3])<<16 | uint64(e.in[4])<<24
				if capped && d > 64<<20 {
					d = 64 << 20
				}
				n += d
			}
			n += 16 << 20 // probability tables (0x300 << (lc+lp) entries), readers, io.ReadAll growth
		default:
			n += 1 << 20
		}
	}
	return
}

var preDriver *core.Driver

var encCache = map[string]decEntry{}

func driverPath() string {
	root := os.Getenv("VERIF_ROOT")
	if root == "" {
		root = "."
	}
	return filepath.Join(root, "lean", ".lake", "build", "bin", "drv_c05")
}

var codecGUIDBytes [][]byte

func init() {
	for _, g := range codecNames {
		codecGUIDBytes = append(codecGUIDBytes, append([]byte{}, g[:]...))
	}
}

func mentionsCodec(b []byte) bool {
	for _, g := range codecGUIDBytes {
		if bytes.Contains(b, g) {
			return true
		}
	}
	return false
}

// buildTable asks the model which byte strings it hands to a decoder on this request and answers with what
// the real decoder (the code uefi.NewSection calls) returns, until the model needs nothing more.
// ok=false: no driver, or the dialogue did not converge (the M check is then skipped).
func buildTable(op string, z int, dd bool, in []byte, init ...decEntry) (decTable, bool) {
	if dd || !mentionsCodec(in) {
		return nil, true
	}
	if preDriver == nil {
		// the Lean runtime reserves more address space than the worker's ceiling allows: lift the soft limit
		script := filepath.Join(filepath.Dir(os.Args[0]), "drv_c05_nolimit.sh")
		body := "#!/bin/sh\nulimit -v unlimited 2>/dev/null\nexec " + driverPath() + "\n"
		if old, err := os.ReadFile(script); err != nil || string(old) != body {
			os.WriteFile(script, []byte(body), 0o755)
		}
		d, err := core.StartDriver(script)
		if err != nil {
			return nil, false
		}
		preDriver = d
	}
	t := append(decTable{}, init...)
	h := core.Hex(in)
	for round := 0; round < 64; round++ {
		ans, err := preDriver.Ask(fmt.Sprintf("%s %d %d %s %s", op, z, b2i(dd), h, t.String()))
		if err != nil {
			preDriver = nil
			return nil, false
		}
		if strings.HasPrefix(ans, "need-enc ") {
			// assemble: what the real encoder (the code Assemble.Visit calls) returns for this section data
			ws := strings.Split(ans, " ")
			if len(ws) != 3 {
				return nil, false
			}
			g, known := codecNames[ws[1]]
			if !known {
				return nil, false
			}
			e := decEntry{codec: ws[1], in: core.UnHex(ws[2]), enc: true}
			// the encoders are deterministic (xz / zlib with fixed parameters) and slow to start: remember
			// their answers across cases (the mutants of one seed re-encode the same payloads)
			ck := fmt.Sprintf("%s:%016x:%d", e.codec, core.FNV(e.in), len(e.in))
			if hit, ok := encCache[ck]; ok && bytes.Equal(hit.in, e.in) {
				e.out, e.ok = hit.out, hit.ok
			} else {
				func() {
					defer func() { recover() }()
					c := compression.CompressorFromGUID(&g)
					out, err := c.Encode(append([]byte{}, e.in...))
					if err == nil {
						e.out, e.ok = out, true
					}
				}()
				if len(encCache) < 4096 && len(e.in) <= 64<<10 {
					encCache[ck] = e
				}
			}
			t = append(t, e)
			continue
		}
		if !strings.HasPrefix(ans, "need-dec ") {
			return t, true
		}
		ws := strings.Split(ans, " ")
		if len(ws) != 3 {
			return nil, false
		}
		g, known := codecNames[ws[1]]
		if !known {
			return nil, false
		}
		encIn := core.UnHex(ws[2])
		e := decEntry{codec: ws[1], in: encIn}
		if (ws[1] == "LZMA" || ws[1] == "LZMAX86") && len(encIn) >= 5 {
			if d := uint64(encIn[1]) | uint64(encIn[2])<<8 | uint64(encIn[3])<<16 | uint64(encIn[4])<<24; d > 256<<20 {
				// the decoder would allocate (and clear) this dictionary here and again in the measured run:
				// keep the entry for the allocation allowance, give up the model comparison for this case
				t = append(t, e)
				return t, false
			}
		}
		func() {
			defer func() { recover() }() // a panicking decoder: the Go parse panics too; the model sees a decode error
			c := compression.CompressorFromGUID(&g)
			out, err := c.Decode(append([]byte{}, encIn...))
			if err == nil {
				e.out, e.ok = out, true
			}
		}()
		t = append(t, e)
		// the decoder's dictionary (allocated from a header field) must be reusable by the run that is measured
		debug.FreeOSMemory()
	}
	return nil, false
}

func b2i(b bool) int {
	if b {
		return 1
	}
	return 0
}

// ---------------------------------------------------------------- checks

func okOrErr(class string) bool { return class == "ok" || class == "err" }

type ctx struct {
	inputLen     int
	decompressed uint64
	tp, tpCapped uint64 // third-party decoder allowance, uncapped / capped
	depth        int    // nesting depth of volumes / NVAR stores in the tree Go returned
	alignPad     uint64 // Σ data alignment of the files that ask for one (assemble builds pad files for them)
	blockGrow    uint64 // Σ first block size (> 64 KiB) of nested, resizable volumes (assemble grows them block-wise)
}

func totalCheck(op string, r callRes) core.Check {
	ck := core.Check{Tag: "O", What: op + "-returns-or-errors", Exp: "a value or an error", Got: "a value or an error"}
	if !okOrErr(r.class) {
		ck.Got = r.detail
		ck.Sig = r.class + ":" + op + ":" + r.frame + ":" + panicKind(r.detail)
	}
	return ck
}

// panicKind: the class of a run-time panic message (part of the failure signature).
func panicKind(detail string) string {
	switch {
	case strings.Contains(detail, "slice bounds out of range"):
		return "slice"
	case strings.Contains(detail, "index out of range"):
		return "index"
	case strings.Contains(detail, "makeslice"):
		return "makeslice"
	case strings.Contains(detail, "nil pointer"):
		return "nil"
	case strings.Contains(detail, "log.Fatalf"):
		return "fatal"
	}
	return "other"
}

func resourceChecks(op string, r callRes, c ctx) []core.Check {
	if p := os.Getenv("C05_MEASURE"); p != "" { // debugging knob: raw measurements for calibrating bounds.go
		if f, err := os.OpenFile(p, os.O_APPEND|os.O_CREATE|os.O_WRONLY, 0o644); err == nil {
			fmt.Fprintf(f, "%s %d %d %d %d %d %d\n", op, c.inputLen, c.decompressed, c.tpCapped, c.depth, r.alloc, r.cpu.Microseconds())
			f.Close()
		}
	}
	b := boundsFor(op)
	n := uint64(c.inputLen)
	allocBound := b.k*n + b.K + b.kd*c.decompressed + c.tpCapped
	ca := core.Check{Tag: "O", What: op + "-alloc-bounded", Exp: "within the bound", Got: "within the bound"}
	if r.alloc > allocBound {
		ca.Got = fmt.Sprintf("TotalAlloc %d > %d = %d*|input| + %d + %d*decompressed + decoders (input %d, decompressed %d, decoders %d)",
			r.alloc, allocBound, b.k, b.K, b.kd, n, c.decompressed, c.tpCapped)
		switch {
		case op == "assemble" && c.blockGrow > 0 && r.alloc <= allocBound+16*c.blockGrow+16*c.alignPad:
			ca.Sig = "alloc:assemble:block-size"
		case op == "assemble" && c.alignPad > 0 && r.alloc <= allocBound+16*c.alignPad:
			ca.Sig = "alloc:assemble:alignment-pad"
		case r.alloc <= b.k*n+b.K+b.kd*c.decompressed+c.tp:
			ca.Sig = "alloc:" + op + ":lzma-dict"
		case c.depth > 0 && r.alloc <= (allocBound)*uint64(c.depth+1):
			ca.Sig = "alloc:" + op + ":nested-copy"
		default:
			ca.Sig = "alloc:" + op
		}
	}
	timeBound := time.Duration(b.a)*time.Duration(n+c.decompressed) + b.b
	ct := core.Check{Tag: "O", What: op + "-time-bounded", Exp: "within the bound", Got: "within the bound"}
	if r.cpu > timeBound {
		ct.Got = fmt.Sprintf("CPU time %v > %v = %v/byte * (input %d + decompressed %d) + %v", r.cpu.Round(time.Millisecond),
			timeBound, time.Duration(b.a), n, c.decompressed, b.b)
		if op == "assemble" && c.blockGrow > 0 && r.cpu <= timeBound+time.Duration(c.blockGrow+c.alignPad)*200*time.Nanosecond {
			ct.Sig = "time:assemble:block-size"
		} else if op == "assemble" && c.alignPad > 0 && r.cpu <= timeBound+time.Duration(c.alignPad)*200*time.Nanosecond {
			ct.Sig = "time:assemble:alignment-pad"
		} else if c.depth > 0 && r.cpu <= timeBound*time.Duration(c.depth+1) {
			ct.Sig = "time:" + op + ":nested-copy"
		} else {
			ct.Sig = "time:" + op
		}
	}
	return []core.Check{ca, ct}
}

// depthOf: nesting depth of firmware volumes (a top-level volume has depth 0).
func depthOf(f fuefi.Firmware) int {
	max := 0
	var walk func(f fuefi.Firmware, d int)
	walk = func(f fuefi.Firmware, d int) {
		if d > max {
			max = d
		}
		switch f := f.(type) {
		case *fuefi.FlashImage:
			for _, r := range f.Regions {
				walk(r.Value, d)
			}
		case *fuefi.BIOSRegion:
			for _, e := range f.Elements {
				walk(e.Value, d)
			}
		case *fuefi.FirmwareVolume:
			for _, x := range f.Files {
				walk(x, d)
			}
		case *fuefi.File:
			for _, s := range f.Sections {
				walk(s, d)
			}
			if f.NVarStore != nil {
				walk(f.NVarStore, d)
			}
		case *fuefi.Section:
			for _, e := range f.Encapsulated {
				if _, isFV := e.Value.(*fuefi.FirmwareVolume); isFV {
					walk(e.Value, d+1)
				} else {
					walk(e.Value, d)
				}
			}
		case *fuefi.NVarStore:
			for _, e := range f.Entries {
				if e.NVarStore != nil {
					walk(e.NVarStore, d+1)
				}
			}
		}
	}
	walk(f, 0)
	return max
}

// alignPadOf: Σ of the data alignments (> 8) requested by files of the tree.
func alignPadOf(f fuefi.Firmware) uint64 {
	var n uint64
	var walk func(f fuefi.Firmware)
	walk = func(f fuefi.Firmware) {
		switch f := f.(type) {
		case *fuefi.FlashImage:
			for _, r := range f.Regions {
				walk(r.Value)
			}
		case *fuefi.BIOSRegion:
			for _, e := range f.Elements {
				walk(e.Value)
			}
		case *fuefi.FirmwareVolume:
			for _, x := range f.Files {
				walk(x)
			}
		case *fuefi.File:
			if a := f.Header.Attributes.GetAlignment(); a > 8 {
				n += a
			}
			for _, s := range f.Sections {
				walk(s)
			}
		case *fuefi.Section:
			for _, e := range f.Encapsulated {
				walk(e.Value)
			}
		}
	}
	walk(f)
	return n
}

// blockGrowOf: Σ of the first block size (> 64 KiB) of the resizable (nested) volumes of the tree.
func blockGrowOf(f fuefi.Firmware) uint64 {
	var n uint64
	var walk func(f fuefi.Firmware)
	walk = func(f fuefi.Firmware) {
		switch f := f.(type) {
		case *fuefi.FlashImage:
			for _, r := range f.Regions {
				walk(r.Value)
			}
		case *fuefi.BIOSRegion:
			for _, e := range f.Elements {
				walk(e.Value)
			}
		case *fuefi.FirmwareVolume:
			if f.Resizable && len(f.Blocks) > 0 && f.Blocks[0].Size > 64<<10 {
				n += uint64(f.Blocks[0].Size)
			}
			for _, x := range f.Files {
				walk(x)
			}
		case *fuefi.File:
			for _, s := range f.Sections {
				walk(s)
			}
		case *fuefi.Section:
			for _, e := range f.Encapsulated {
				walk(e.Value)
			}
		}
	}
	walk(f)
	return n
}

// ---------------------------------------------------------------- walkers

var xdir string

func extractDir() string {
	if xdir == "" {
		base := "" // a memory file system when there is one: extract makes a directory per node
		if st, err := os.Stat("/dev/shm"); err == nil && st.IsDir() {
			base = "/dev/shm"
		}
		d, err := os.MkdirTemp(base, "c05-x-")
		if err != nil {
			d, err = os.MkdirTemp("", "c05-x-")
		}
		if err != nil {
			panic(err)
		}
		xdir = d
	}
	// deep below the scratch root: an NVAR name such as "../../x" must not leave it
	p := filepath.Join(xdir, "a", "b", "c", "d", "e", "f", "g", "h")
	os.RemoveAll(filepath.Join(xdir, "a"))
	return p
}

type walker struct {
	name string
	run  func(t fuefi.Firmware) error
}

func walkers() []walker {
	return []walker{
		{"json", func(t fuefi.Firmware) error { return (&visitors.JSON{W: io.Discard}).Run(t) }},
		{"table", func(t fuefi.Firmware) (err error) {
			quiet(func() { err = (&visitors.Table{}).Run(t) })
			return
		}},
		{"validate", func(t fuefi.Firmware) error { return (&visitors.Validate{}).Run(t) }},
		{"cat", func(t fuefi.Firmware) error {
			c := &visitors.Cat{Writer: io.Discard, Predicate: func(f fuefi.Firmware) bool {
				_, ok := f.(*fuefi.File)
				return ok
			}}
			return c.Run(t)
		}},
		{"extract", func(t fuefi.Firmware) error {
			var idx uint64
			d := extractDir()
			defer func() { os.RemoveAll(xdir); xdir = "" }()
			return (&visitors.Extract{BasePath: d, DirPath: ".", Index: &idx}).Run(t)
		}},
		// assemble rewrites the tree: last
		{"assemble", func(t fuefi.Firmware) error { return (&visitors.Assemble{}).Run(t) }},
	}
}

var lastWalk map[string]string // walker name → class of the last runWalkers call

func runWalkers(tree fuefi.Firmware, c ctx, out *core.Outcome) string {
	var cls []string
	lastWalk = map[string]string{}
	for _, w := range walkers() {
		w := w
		if strings.Contains(os.Getenv("C05_SKIP"), w.name) { // debugging knob
			continue
		}
		r := call(func() error { return w.run(tree) })
		out.Checks = append(out.Checks, totalCheck(w.name, r))
		out.Checks = append(out.Checks, resourceChecks(w.name, r, c)...)
		cls = append(cls, w.name[:1]+":"+r.class)
		lastWalk[w.name] = r.class
	}
	return strings.Join(cls, ",")
}

// ---------------------------------------------------------------- Run

func modelClass(r callRes, ok string) string {
	switch r.class {
	case "ok":
		return ok
	case "err":
		return "err"
	}
	return r.class
}

func (prop) Run(c core.Case) core.Outcome {
	tier := c.Args["tier"]
	mLimit := 8 << 10
	if tier == "thorough" {
		mLimit = 16 << 10
	}
	const z = 6
	var out core.Outcome
	if o, ok := gap3Run(c); ok { // `dec`, `ucs`: the decoder / UCS-2 conversion called directly (gap3.go)
		return o
	}
	switch c.Op {
	case "parse", "fv", "file", "sec":
		in := core.UnHex(c.Args["hex"])
		dd := c.Args["dd"] == "1"
		withModel := len(in) <= mLimit && c.Args["nomodel"] != "1"
		var tbl decTable
		tblOK := false
		if withModel {
			tbl, tblOK = buildTable(c.Op, z, dd, in)
		} else if mentionsCodec(in) && !dd {
			// resource bounds still need to know what was decompressed: ask the model for the table only
			// when the input is small enough for it; otherwise credit the whole decoded volume measured below
			tbl, tblOK = nil, false
		}
		hu.ResetState()
		fuefi.DisableDecompression = dd
		keep := append([]byte{}, in...)
		var node fuefi.Firmware
		var nilFile bool
		var r callRes
		quiet(func() {
			r = call(func() error {
				switch c.Op {
				case "parse":
					t, err := fuefi.Parse(in)
					if err == nil {
						node = t
					}
					return err
				case "fv":
					t, err := fuefi.NewFirmwareVolume(in, 0, false)
					if err == nil {
						node = t
					}
					return err
				case "file":
					t, err := fuefi.NewFile(in)
					if err == nil {
						if t == nil {
							nilFile = true
						} else {
							node = t
						}
					}
					return err
				default:
					t, err := fuefi.NewSection(in, 0)
					if err == nil {
						node = t
					}
					return err
				}
			})
		})
		cx := ctx{inputLen: len(in)}
		if tblOK || len(tbl) > 0 {
			cx.decompressed, cx.tp, cx.tpCapped = tbl.decompressed(), tbl.thirdParty(false), tbl.thirdParty(true)
			if !tblOK && node != nil {
				cx.decompressed += decodedBytes(node)
			}
		} else if mentionsCodec(in) && !dd {
			// no table: credit what the tree shows was decoded
			if node != nil {
				cx.decompressed = decodedBytes(node)
			}
			cx.tp, cx.tpCapped = lzmaHeadersIn(in, false), lzmaHeadersIn(in, true)
		}
		if node != nil {
			cx.depth = depthOf(node)
			cx.alignPad = alignPadOf(node)
			cx.blockGrow = blockGrowOf(node)
		}
		out.Checks = append(out.Checks, totalCheck(c.Op, r))
		out.Checks = append(out.Checks, resourceChecks(c.Op, r, cx)...)
		same := "unchanged"
		if !bytes.Equal(keep, in) {
			same = "modified"
		}
		out.Checks = append(out.Checks, core.Check{Tag: "O", What: "input-buffer-unchanged", Exp: "unchanged", Got: same, Sig: "input-modified:" + c.Op})
		dig := ""
		if r.class == "ok" {
			if nilFile {
				dig = "nil"
			} else {
				dig = hu.Digest(node)
			}
		}
		// the model answers about one uefi.Parse are asked for in one request (`multi`): parse, and — once the
		// walkers ran — walk and asm
		parts, exps := []string{}, []string{}
		mtbl := tbl
		if withModel && tblOK {
			exp := modelClass(r, "ok "+dig)
			if c.Op == "parse" {
				parts, exps = append(parts, "parse"), append(exps, exp)
			} else {
				out.Checks = append(out.Checks, core.Check{Tag: "M", What: c.Op,
					Req: fmt.Sprintf("%s %d %d %s %s", c.Op, z, b2i(dd), core.Hex(in), tbl.String()), Exp: exp})
			}
		}
		out.Class = c.Op + ":" + r.class
		out.Key = dig + r.class
		if r.class == "ok" && node != nil {
			if cx.decompressed > 0 {
				out.Class += "+dec"
			}
			wcls := runWalkers(node, cx, &out)
			out.Class += " " + wcls
			if c.Op == "parse" && withModel && tblOK {
				parts, exps = append(parts, "walk"), append(exps, "ok validate=ok extract=ok")
				// assemble ran last and rewrote the tree: compare what it left with the Go-semantics model
				// (not when a file asks for a data alignment, or a nested volume claims a block, of 256 KiB and more:
				// the list-based model would build the same pad file / grown volume byte by byte)
				if acl, ran := lastWalk["assemble"]; ran && (acl == "ok" || acl == "err") && cx.alignPad < 256<<10 && cx.blockGrow < 256<<10 {
					atbl, aok := buildTable("asm", z, dd, keep, tbl...)
					if aok {
						exp := "err"
						if acl == "ok" {
							exp = fmt.Sprintf("ok %s %016x", hu.Digest(node), core.FNV(node.Buf()))
						}
						parts, exps, mtbl = append(parts, "asm"), append(exps, exp), atbl
					}
				}
			}
		}
		if len(parts) > 0 {
			out.Checks = append(out.Checks, core.Check{Tag: "M", What: strings.Join(parts, "+"),
				Req: fmt.Sprintf("multi %s %d %d %s %s", strings.Join(parts, ","), z, b2i(dd), core.Hex(keep), mtbl.String()),
				Exp: strings.Join(exps, " ; ")})
		}
		out.Trivial = len(in) == 0
		return out
	case "nvar":
		in := core.UnHex(c.Args["hex"])
		pol := byte(0xFF)
		fmt.Sscanf(c.Args["pol"], "%d", &pol)
		hu.ResetState()
		fuefi.Attributes.ErasePolarity = pol
		var st *fuefi.NVarStore
		r := call(func() error {
			s, err := fuefi.NewNVarStore(in)
			if err == nil {
				st = s
			}
			return err
		})
		cx := ctx{inputLen: len(in)}
		if r.class == "ok" {
			cx.depth = depthOf(st)
		}
		out.Checks = append(out.Checks, totalCheck("nvar", r))
		out.Checks = append(out.Checks, resourceChecks("nvar", r, cx)...)
		exp := r.class
		if r.class == "ok" {
			exp = fmt.Sprintf("ok %016x", core.FNV([]byte(nvarText(st))))
		}
		if len(in) <= mLimit {
			out.Checks = append(out.Checks, core.Check{Tag: "M", What: "nvar", Req: fmt.Sprintf("nvar %d %s", pol, core.Hex(in)), Exp: exp})
		}
		out.Class = "nvar:" + r.class
		out.Key = exp
		if r.class == "ok" {
			out.Class += fmt.Sprintf(":%s", bucket(len(st.Entries)))
			wcls := runWalkers(st, cx, &out)
			out.Class += " " + wcls
			v, x, a := lastWalk["validate"], lastWalk["extract"], lastWalk["assemble"]
			if len(in) <= mLimit && okOrErr(v) && okOrErr(x) && okOrErr(a) {
				if a == "ok" {
					a = fmt.Sprintf("ok:%016x", core.FNV(st.Buf()))
				}
				out.Checks = append(out.Checks, core.Check{Tag: "M", What: "nvarwalk",
					Req: fmt.Sprintf("nvarwalk %d %s", pol, core.Hex(in)),
					Exp: fmt.Sprintf("ok validate=%s extract=%s assemble=%s", v, x, a)})
			}
		} else if r.class == "err" && len(in) <= mLimit {
			out.Checks = append(out.Checks, core.Check{Tag: "M", What: "nvarwalk",
				Req: fmt.Sprintf("nvarwalk %d %s", pol, core.Hex(in)), Exp: "parse:err"})
		}
		out.Trivial = len(in) == 0
		return out
	case "asmrun":
		// `utk <image> <ops>`: the edit visitors, then save = Assemble on the edited tree
		in, ops := ue.Unpack(c)
		res := ue.Execute(in, ops)
		out.Class = "asmrun:" + res.Stage + ":" + res.Class
		if n := len(res.Steps); n > 0 {
			out.Class += "@" + res.Steps[n-1].Op.Kind
		}
		out.Key = res.RunLine()
		for _, st := range res.Steps {
			if !st.Op.IsSave() {
				continue
			}
			ck := core.Check{Tag: "O", What: "save-after-edit-returns-or-errors", Exp: "a value or an error", Got: "a value or an error"}
			if !okOrErr(st.Class) && !res.NilFile {
				ck.Got = st.Class + ": " + st.Detail
				ck.Sig = st.Class + ":save-after-edit:" + panicKind(st.Detail)
			}
			out.Checks = append(out.Checks, ck)
		}
		if ue.AllModelled(ops) && len(in) <= 64<<10 {
			out.Checks = append(out.Checks, core.Check{Tag: "M", What: "asmrun",
				Req: "asmrun " + core.Hex(in) + " " + ue.OpsText(ops), Exp: res.RunLine()})
		}
		out.Trivial = len(in) == 0
		return out
	case "fpt":
		in := core.UnHex(c.Args["hex"])
		hu.ResetState()
		var fp *fuefi.MEFPT
		r := call(func() error {
			f, err := fuefi.NewMEFPT(in)
			if err == nil {
				fp = f
			}
			return err
		})
		cx := ctx{inputLen: len(in)}
		out.Checks = append(out.Checks, totalCheck("fpt", r))
		out.Checks = append(out.Checks, resourceChecks("fpt", r, cx)...)
		exp := r.class
		if r.class == "ok" {
			exp = fmt.Sprintf("ok %d %d %016x", fp.PartitionCount, fp.PartitionMapStart, core.FNV(fp.Buf()))
		}
		if len(in) <= mLimit {
			out.Checks = append(out.Checks, core.Check{Tag: "M", What: "fpt", Req: "fpt " + core.Hex(in), Exp: exp})
		}
		out.Class = "fpt:" + r.class
		out.Key = exp
		if r.class == "ok" {
			wcls := runWalkers(fp, cx, &out)
			out.Class += " " + wcls
		}
		out.Trivial = len(in) == 0
		return out
	}
	panic("c05: unknown op " + c.Op)
}

func bucket(n int) string {
	switch {
	case n == 0:
		return "0"
	case n < 4:
		return "1-3"
	case n < 32:
		return "4-31"
	}
	return ">=32"
}

// decodedBytes: total size of the buffers of nodes that sit below a decoded GUID-defined section.
func decodedBytes(f fuefi.Firmware) uint64 {
	var n uint64
	var walk func(f fuefi.Firmware)
	walk = func(f fuefi.Firmware) {
		switch f := f.(type) {
		case *fuefi.FlashImage:
			for _, r := range f.Regions {
				walk(r.Value)
			}
		case *fuefi.BIOSRegion:
			for _, e := range f.Elements {
				walk(e.Value)
			}
		case *fuefi.FirmwareVolume:
			for _, x := range f.Files {
				walk(x)
			}
		case *fuefi.File:
			for _, s := range f.Sections {
				walk(s)
			}
		case *fuefi.Section:
			if f.Header.Type == fuefi.SectionTypeGUIDDefined {
				for _, e := range f.Encapsulated {
					n += uint64(len(e.Value.Buf())) + 4
				}
			}
			for _, e := range f.Encapsulated {
				walk(e.Value)
			}
		}
	}
	walk(f)
	return n
}

// lzmaHeadersIn: allowance for LZMA dictionaries when no decode table is available (large inputs):
// every occurrence of an LZMA codec GUID followed by a GUID-defined sub-header.
func lzmaHeadersIn(b []byte, capped bool) uint64 {
	var n uint64
	for _, name := range []string{"LZMA", "LZMAX86"} {
		g := codecNames[name]
		for off := 0; ; {
			i := bytes.Index(b[off:], g[:])
			if i < 0 {
				break
			}
			p := off + i + 20 // dataOffset is normally 24 = 4 + 20: the stream follows the sub-header
			if p+5 <= len(b) {
				d := uint64(b[p+1]) | uint64(b[p+2])<<8 | uint64(b[p+3])<<16 | uint64(b[p+4])<<24
				if capped && d > 64<<20 {
					d = 64 << 20
				}
				n += d
			}
			n += 16 << 20
			off += i + 16
		}
	}
	return n
}

// nvarText is the canonical text of a store (same as Total.nvDump in lean/FianoModel/Uefi/TotalNvar.lean).
func nvarText(s *fuefi.NVarStore) string {
	hexOf := func(b []byte) string {
		if len(b) == 0 {
			return "-"
		}
		return core.Hex(b)
	}
	var gs []byte
	for _, g := range s.GUIDStore {
		gs = append(gs, g[:]...)
	}
	var es []string
	for _, e := range s.Entries {
		g, n := "-", "-"
		if e.IsValid() {
			g, n = hexOf(e.GUID[:]), hexOf([]byte(e.Name))
		}
		t := fmt.Sprintf("%d:%d:%d:%d:%d:%s:%s:%016x", uint8(e.Type), e.Header.Size, e.DataOffset, e.Offset, e.NextOffset, g, n, core.FNV(e.Buf()))
		if e.NVarStore != nil {
			t += "{" + nvarText(e.NVarStore) + "}"
		}
		es = append(es, t)
	}
	return fmt.Sprintf("n=%d fso=%d gso=%d guids=%d:%016x ", len(s.Entries), s.FreeSpaceOffset, s.GUIDStoreOffset, len(s.GUIDStore), core.FNV(gs)) +
		strings.Join(es, ",")
}
