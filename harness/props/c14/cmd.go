package c14

import (
	"bytes"
	"encoding/binary"
	"encoding/json"
	"fmt"
	"io"
	"os"
	"os/exec"
	"path/filepath"
	"runtime"
	"strconv"
	"strings"

	"github.com/linuxboot/fiano/cmds/fittool/commands/addrawheaders"
	cmdinit "github.com/linuxboot/fiano/cmds/fittool/commands/init"
	"github.com/linuxboot/fiano/cmds/fittool/commands/removeheaders"
	"github.com/linuxboot/fiano/cmds/fittool/commands/setrawheaders"
	"github.com/linuxboot/fiano/cmds/fittool/commands/show"
	"github.com/linuxboot/fiano/pkg/intel/metadata/fit"

	"verif/harness/core"
)

// The fittool command functions (Execute) are driven on a scratch file, one script per case:
//
//	init:o:<offset> | init:p:<pointer> | add:<raw> | set:<idx>:<raw> | remove:<idx> | show
//	raw = addressPointer,addressOffset,size,type,cv,checksum   ("_" = flag not given)

type rawOpts struct {
	ap, ao   *uint64
	size     *uint32
	typ, cks *uint8
	cv       *bool
}

func parseRaw(s string) rawOpts {
	f := strings.Split(s, ",")
	if len(f) != 6 {
		panic("harness: bad raw options")
	}
	var o rawOpts
	if f[0] != "_" {
		v := pu(f[0], 64)
		o.ap = &v
	}
	if f[1] != "_" {
		v := pu(f[1], 64)
		o.ao = &v
	}
	if f[2] != "_" {
		v := uint32(pu(f[2], 32))
		o.size = &v
	}
	if f[3] != "_" {
		v := uint8(pu(f[3], 8))
		o.typ = &v
	}
	if f[4] != "_" {
		v := f[4] == "t"
		o.cv = &v
	}
	if f[5] != "_" {
		v := uint8(pu(f[5], 8))
		o.cks = &v
	}
	return o
}

// captureStdout runs f with os.Stdout redirected into a buffer
func captureStdout(f func()) []byte {
	old := os.Stdout
	rp, wp, err := os.Pipe()
	must(err)
	os.Stdout = wp
	done := make(chan []byte)
	go func() {
		b, _ := io.ReadAll(rp)
		done <- b
	}()
	func() {
		defer func() {
			os.Stdout = old
			wp.Close()
		}()
		f()
	}()
	b := <-done
	rp.Close()
	return b
}

// expectedHdr computes, independently of fiano's setters, the header add/set_raw_headers must
// produce from the flags
func expectedHdr(h fit.EntryHeaders, o rawOpts, fileSize uint64) fit.EntryHeaders {
	if o.ap != nil {
		h.Address = fit.Address64(*o.ap)
	}
	if o.ao != nil {
		h.Address = fit.Address64(uint64(1<<32) - fileSize + *o.ao)
	}
	if o.size != nil {
		setSize(&h, int(*o.size))
	}
	if o.cv != nil {
		h.TypeAndIsChecksumValid &= 0x7f
		if *o.cv {
			h.TypeAndIsChecksumValid |= 0x80
		}
	}
	if o.typ != nil {
		h.TypeAndIsChecksumValid = h.TypeAndIsChecksumValid&0x80 | fit.TypeAndIsChecksumValid(*o.typ)
	}
	if h.TypeAndIsChecksumValid&0x80 != 0 {
		h.Checksum = 0
		var s uint8
		for _, b := range hdrBytes(h) {
			s += b
		}
		h.Checksum = s
	}
	if o.cks != nil {
		h.Checksum = *o.cks
	}
	return h
}

// tableOf reads the table of a file image with our own reader (pointer → start; entry 0 count)
func tableOf(f []byte) (start int, hs []fit.EntryHeaders, ok bool) {
	n := len(f)
	if n < 0x40 {
		return 0, nil, false
	}
	ptr := binary.LittleEndian.Uint64(f[n-0x40:])
	s := ptr - (uint64(1<<32) - uint64(n))
	if s > uint64(n) || s+16 > uint64(n) || !bytes.Equal(f[s:s+8], []byte("_FIT_   ")) {
		return 0, nil, false
	}
	cnt := uint64(f[s+8]) | uint64(f[s+9])<<8 | uint64(f[s+10])<<16
	if s+16*cnt > uint64(n) {
		return 0, nil, false
	}
	for i := uint64(0); i < cnt; i++ {
		b := f[s+16*i : s+16*i+16]
		var h fit.EntryHeaders
		h.Address = fit.Address64(binary.LittleEndian.Uint64(b))
		copy(h.Size.Value[:], b[8:11])
		h.Reserved = b[11]
		h.Version = fit.EntryVersion(binary.LittleEndian.Uint16(b[12:]))
		h.TypeAndIsChecksumValid = fit.TypeAndIsChecksumValid(b[14])
		h.Checksum = b[15]
		hs = append(hs, h)
	}
	return int(s), hs, true
}

// diffOutside returns the first index (within the common prefix) where a and b differ outside
// the given ranges, or -1
func diffOutside(a, b []byte, rs ...rng) int {
	for i := 0; i < len(a) && i < len(b); i++ {
		if a[i] != b[i] {
			in := false
			for _, g := range rs {
				if uint64(i) >= g.lo && uint64(i) < g.hi {
					in = true
				}
			}
			if !in {
				return i
			}
		}
	}
	return -1
}

func (r *runner) runCmd(c core.Case) {
	defer runtime.GC() // the commands never close their files; let the finalizers do it
	cls := r.runScript(c, inProcess{}, "")
	r.out.Class = "cmd:" + cls
	// the same script through the fittool binary (built from the same tree): flag parsing and the
	// wiring of main.go included, every invocation a fresh process reading through os.File
	if cliExpressible(c.Args["script"]) {
		cls2 := r.runScript(c, cliTool{}, "[cli]")
		r.O("cli-same-outcome", cls, cls2)
	}
}

// runScript runs the script of c on a scratch file through the given tool; every check's name
// gets the suffix sfx
func (r *runner) runScript(c core.Case, tool fitTool, sfx string) string {
	img := buildImage(c.Args["img"])
	tmp, err := os.CreateTemp("", "c14-fit-*.rom")
	must(err)
	path := tmp.Name()
	defer os.Remove(path)
	_, err = tmp.Write(img)
	must(err)
	must(tmp.Close())
	var classes []string
	for si, step := range strings.Split(c.Args["script"], "|") {
		before, err := os.ReadFile(path)
		must(err)
		f := strings.SplitN(step, ":", 3)
		tag := fmt.Sprintf("step%d-%s%s", si, f[0], sfx)
		n := uint64(len(before))
		xb := "x:" + core.Hex(before)
		var cls string
		switch f[0] {
		case "init":
			v := pu(f[2], 64)
			off := v
			if f[1] == "p" {
				off = v - (uint64(1<<32) - n)
				cls = tool.init(path, &v, nil)
			} else {
				cls = tool.init(path, nil, &v)
			}
			after, err := os.ReadFile(path)
			must(err)
			r.M(tag, fmt.Sprintf("cmdinit %s %d", xb, off), fmt.Sprintf("%s %d %d", map[bool]string{true: "ok", false: "err"}[cls == "ok"], len(after), core.FNV(after)))
			inside := n >= 0x40 && (off+16 <= n-0x40 || (off >= n-0x38 && off+16 <= n))
			if cls == "ok" && inside {
				r.O(tag+"-pointer", fmt.Sprint(uint64(1<<32)-n+off), fmt.Sprint(binary.LittleEndian.Uint64(after[n-0x40:])))
				r.O(tag+"-entry0-magic-count", "_FIT_    1", fmt.Sprintf("%s %d", after[off:off+8], int(after[off+8])|int(after[off+9])<<8|int(after[off+10])<<16))
				r.O(tag+"-frame", fmt.Sprintf("%d -1", len(before)), fmt.Sprintf("%d %d", len(after),
					diffOutside(before, after, rng{n - 0x40, n - 0x38}, rng{off, off + 16})))
				t, terr := fit.GetTable(after)
				r.O(tag+"-get-table", "ok 1", fmt.Sprintf("%s %d", core.ErrClass(terr), len(t)))
			}
		case "add", "set":
			var o rawOpts
			var idx uint64
			var req string
			if f[0] == "add" {
				o = parseRaw(f[1])
				req = fmt.Sprintf("cmdadd %s %s", xb, f[1])
				cls = tool.add(path, o)
			} else {
				idx = pu(f[1], 16)
				o = parseRaw(f[2])
				req = fmt.Sprintf("cmdset %s %d %s", xb, idx, f[2])
				cls = tool.set(path, idx, o)
			}
			after, err := os.ReadFile(path)
			must(err)
			exp := fail(cls)
			if cls == "ok" {
				exp = fmt.Sprintf("ok %d %d", len(after), core.FNV(after))
			} else if !bytes.Equal(before, after) {
				exp += " file-changed"
			}
			r.M(tag, req, exp)
			if cls == "ok" {
				start, old, ok := tableOf(before)
				if ok && len(old) > 0 {
					var want []fit.EntryHeaders
					want = append(want, old...)
					if f[0] == "add" {
						h := fit.EntryHeaders{Version: 0x1000, TypeAndIsChecksumValid: 0x7f}
						want = append(want, expectedHdr(h, o, n))
					} else {
						for uint64(len(want)) <= idx {
							want = append(want, fit.EntryHeaders{TypeAndIsChecksumValid: 0x7f})
						}
						want[idx] = expectedHdr(want[idx], o, n)
					}
					setSize(&want[0], len(want)) // entry 0 carries the count
					end := uint64(start + 16*len(want))
					// inside the quantifier only: the (possibly longer) table still lies inside
					// the image and does not run over the FIT pointer
					// … and entry 0 still carries the magic (set_raw_headers -n 0 may overwrite it)
					if (end <= n-0x40 || (uint64(start) >= n-0x38 && end <= n)) && uint64(want[0].Address) == magicAddr {
						_, now, ok2 := tableOf(after)
						r.O(tag+"-table", "true "+showHdrs(want), fmt.Sprint(ok2)+" "+showHdrs(now))
						r.O(tag+"-frame", fmt.Sprintf("%d -1", len(before)), fmt.Sprintf("%d %d", len(after),
							diffOutside(before, after, rng{uint64(start), end})))
					}
				}
			}
		case "remove":
			idx := pu(f[1], 16)
			cls = tool.remove(path, idx)
			after, err := os.ReadFile(path)
			must(err)
			exp := fail(cls)
			if cls == "ok" {
				exp = fmt.Sprintf("ok %d %d", len(after), core.FNV(after))
			} else if !bytes.Equal(before, after) {
				exp += " file-changed"
			}
			r.M(tag, fmt.Sprintf("cmdremove %s %d", xb, idx), exp)
			if cls == "ok" {
				start, old, ok := tableOf(before)
				if ok && idx < uint64(len(old)) && (idx > 0 || (len(old) > 1 && uint64(old[1].Address) == magicAddr)) {
					_, now, ok2 := tableOf(after)
					var want []fit.EntryHeaders
					want = append(want, old[:idx]...)
					want = append(want, old[idx+1:]...)
					setSize(&want[0], len(want))
					r.O(tag+"-table", "true "+showHdrs(want), fmt.Sprint(ok2)+" "+showHdrs(now))
				}
				if ok {
					r.O(tag+"-frame", fmt.Sprintf("%d -1", len(before)), fmt.Sprintf("%d %d", len(after),
						diffOutside(before, after, rng{uint64(start), uint64(start + 16*len(old))})))
				}
			}
		case "show":
			var outb []byte
			cls, outb = tool.show(path, false)
			t, terr := fit.GetTable(before)
			r.O(tag+"-agrees-with-get-table", core.ErrClass(terr), cls)
			if cls == "ok" && terr == nil {
				// the JSON the command prints decodes to the table of the image (JSON round trip
				// through the real command)
				var tj fit.Table
				jc := catch(func() error { return json.Unmarshal(outb, &tj) })
				r.O(tag+"-json-roundtrip", "ok "+showHdrs(t), jc+" "+showHdrs(tj))
			}
			// … and with --include-data: the same headers, and every data segment printed is the
			// bytes the file holds at the address-derived offset
			dcls, dout := tool.show(path, true)
			r.O(tag+"-data-agrees-with-get-table", core.ErrClass(terr), dcls)
			if dcls == "ok" && terr == nil {
				r.O(tag+"-data-reports-file", "same", shownHoldsFile(before, t, dout))
			}
			after, err := os.ReadFile(path)
			must(err)
			r.O(tag+"-file-untouched", "same", same(bytes.Equal(before, after)))
		default:
			panic("harness: bad script step " + step)
		}
		classes = append(classes, f[0]+"="+cls)
	}
	return strings.Join(classes, ",")
}

// shownHoldsFile decodes what `show --format=json --include-data` printed: one object per entry
// with the headers and, where the entry has a data segment, the bytes of it (base64; an ACM prints
// them as DataNotParsedBase64).  "same" or the first difference.
func shownHoldsFile(file []byte, t fit.Table, out []byte) string {
	var shown []struct {
		Headers             fit.EntryHeaders
		DataSegmentBytes    []byte
		DataNotParsedBase64 []byte
	}
	if cls := catch(func() error { return json.Unmarshal(out, &shown) }); cls != "ok" {
		return "output is not the JSON of a list of entries"
	}
	if len(shown) != len(t) {
		return fmt.Sprintf("%d entries instead of %d", len(shown), len(t))
	}
	base := uint64(1<<32) - uint64(len(file))
	for i, e := range shown {
		if showHdr(e.Headers) != showHdr(t[i]) {
			return fmt.Sprintf("entry %d: header %s instead of %s", i, showHdr(e.Headers), showHdr(t[i]))
		}
		d := e.DataSegmentBytes
		if len(d) == 0 {
			d = e.DataNotParsedBase64
		}
		if len(d) > 0 {
			off := uint64(e.Headers.Address) - base
			end := off + uint64(len(d))
			if end < off || end > uint64(len(file)) || !bytes.Equal(file[off:end], d) {
				return fmt.Sprintf("entry %d: %d data bytes that are not the file bytes at offset %d", i, len(d), off)
			}
		}
	}
	return "same"
}

// ---- the two ways of running a fittool command

type fitTool interface {
	init(path string, pointer, fromOffset *uint64) string
	add(path string, o rawOpts) string
	set(path string, idx uint64, o rawOpts) string
	remove(path string, idx uint64) string
	show(path string, includeData bool) (string, []byte)
}

// inProcess calls the Execute functions of cmds/fittool/commands directly
type inProcess struct{}

func (inProcess) init(path string, pointer, fromOffset *uint64) string {
	cmd := &cmdinit.Command{UEFIPath: path, Pointer: pointer, PointerFromOffset: fromOffset}
	return catch(func() error { return cmd.Execute(nil) })
}

func (inProcess) add(path string, o rawOpts) string {
	cmd := &addrawheaders.Command{UEFIPath: path, AddressPointer: o.ap, AddressOffset: o.ao, Size: o.size,
		Type: o.typ, IsChecksumValid: o.cv, Checksum: o.cks}
	return catch(func() error { return cmd.Execute(nil) })
}

func (inProcess) set(path string, idx uint64, o rawOpts) string {
	cmd := &setrawheaders.Command{UEFIPath: path, EntryNumber: uint(idx), AddressPointer: o.ap, AddressOffset: o.ao,
		Size: o.size, Type: o.typ, IsChecksumValid: o.cv, Checksum: o.cks}
	return catch(func() error { return cmd.Execute(nil) })
}

func (inProcess) remove(path string, idx uint64) string {
	cmd := &removeheaders.Command{UEFIPath: path, EntryNumber: uint(idx)}
	return catch(func() error { return cmd.Execute(nil) })
}

func (inProcess) show(path string, includeData bool) (string, []byte) {
	format := "json"
	cmd := &show.Command{UEFIPath: path, Format: &format}
	if includeData {
		cmd.IncludeData = &includeData
	}
	var outb []byte
	cls := catch(func() error {
		var e error
		outb = captureStdout(func() { e = cmd.Execute(nil) })
		return e
	})
	return cls, outb
}

// cliTool runs the fittool binary (checks.d/C14.json aux_builds: ./cmds/fittool -> harness/bin/fittoolcli)
type cliTool struct{}

func cliPath() string {
	root := os.Getenv("VERIF_ROOT")
	if root == "" {
		root = "/verif"
	}
	return filepath.Join(root, "harness", "bin", "fittoolcli")
}

func runCLI(args ...string) (string, []byte) {
	if _, err := os.Stat(cliPath()); err != nil {
		panic("harness: " + cliPath() + " is missing (aux_builds of checks.d/C14.json)")
	}
	cmd := exec.Command(cliPath(), args...)
	var out bytes.Buffer
	cmd.Stdout = &out
	err := cmd.Run()
	switch e := err.(type) {
	case nil:
		return "ok", out.Bytes()
	case *exec.ExitError:
		if e.ExitCode() == 1 { // log.Fatal of main.go: the command returned an error
			return "err", out.Bytes()
		}
		return "panic", out.Bytes()
	}
	panic("harness: cannot run fittool: " + err.Error())
}

func rawArgs(o rawOpts) []string {
	var a []string
	if o.ap != nil {
		a = append(a, "--address-pointer", fmt.Sprint(*o.ap))
	}
	if o.ao != nil {
		a = append(a, "--address-offset", fmt.Sprint(*o.ao))
	}
	if o.size != nil {
		a = append(a, "--size", fmt.Sprint(*o.size))
	}
	if o.typ != nil {
		a = append(a, "--type", fmt.Sprint(*o.typ))
	}
	if o.cv != nil && *o.cv {
		a = append(a, "--is-checksum-valid")
	}
	if o.cks != nil {
		a = append(a, "--checksum", fmt.Sprint(*o.cks))
	}
	return a
}

// cliExpressible: the command line has no way of saying --is-checksum-valid=false (a bool flag
// takes no argument).  For add_raw_headers that equals leaving the flag out (the new entry starts
// with the bit clear); a set_raw_headers that clears the bit cannot be written down.
func cliExpressible(script string) bool {
	for _, step := range strings.Split(script, "|") {
		f := strings.SplitN(step, ":", 3)
		if f[0] == "set" {
			if o := parseRaw(f[2]); o.cv != nil && !*o.cv {
				return false
			}
		}
	}
	return true
}

func (cliTool) init(path string, pointer, fromOffset *uint64) string {
	a := []string{"init", "-f", path}
	if pointer != nil {
		a = append(a, "--pointer", fmt.Sprint(*pointer))
	}
	if fromOffset != nil {
		a = append(a, "--pointer-from-offset", fmt.Sprint(*fromOffset))
	}
	cls, _ := runCLI(a...)
	return cls
}

func (cliTool) add(path string, o rawOpts) string {
	cls, _ := runCLI(append([]string{"add_raw_headers", "-f", path}, rawArgs(o)...)...)
	return cls
}

func (cliTool) set(path string, idx uint64, o rawOpts) string {
	cls, _ := runCLI(append([]string{"set_raw_headers", "-f", path, "-n", fmt.Sprint(idx)}, rawArgs(o)...)...)
	return cls
}

func (cliTool) remove(path string, idx uint64) string {
	cls, _ := runCLI("remove_headers", "-f", path, "-n", fmt.Sprint(idx))
	return cls
}

func (cliTool) show(path string, includeData bool) (string, []byte) {
	a := []string{"show", "-f", path, "--format=json"}
	if includeData {
		a = append(a, "--include-data")
	}
	return runCLI(a...)
}

// ---- generator of command scripts

func (g *gen) rawOpts(n int) string {
	r := g.r
	opt := func(p int, v string) string {
		if r.Intn(100) < p {
			return v
		}
		return "_"
	}
	ap := opt(35, fmt.Sprint(uint64(1<<32)-uint64(n)+uint64(r.Intn(n))))
	ao := "_"
	if ap == "_" || r.Intn(15) == 0 {
		ao = opt(50, strconv.Itoa(r.Intn(n)))
	}
	size := opt(60, strconv.Itoa(r.Intn(64)))
	if r.Intn(25) == 0 {
		size = fmt.Sprint(g.pick64(0xFFFF, 0x1000000, 1<<32-1))
	}
	// no ACM (0x02) here: `show` reads entries from an os.File and allocates the size an ACM
	// announces in the image (up to 4 GiB) before reading — C20's concern, not this property's
	tk := r.Intn(nKinds)
	if tk == kSACM {
		tk = kMicrocode
	}
	typ := opt(60, strconv.Itoa(int(g.typeOfKind(tk))))
	if r.Intn(25) == 0 {
		typ = fmt.Sprint(g.pick64(0x7f, 0x80, 0xff))
	}
	cv := opt(50, []string{"t", "f"}[r.Intn(2)])
	cks := opt(30, strconv.Itoa(r.Intn(256)))
	return strings.Join([]string{ap, ao, size, typ, cv, cks}, ",")
}

// genCmdData: a table whose entries designate bytes of the file (2–5 entries of different kinds
// with data segments of different lengths inside a file that is not constant), then show: what
// `show --include-data` prints for each of them must be those bytes.
func (g *gen) genCmdData(count int) {
	r := g.r
	types := []uint8{0x01, 0x07, 0x09, 0x0B, 0x0C, 0x10, 0x2D, 0x2F, 0x7F, 0x30}
	for i := 0; i < count; i++ {
		n := 1024 + r.Intn(3000)
		img := fmt.Sprintf("g:%d:%d:%d:%d", n, 1+2*r.Intn(128), r.Intn(256), r.Intn(256))
		m := 2 + r.Intn(4)
		off := r.Intn(n-0x40-16*(m+2)) &^ 3
		steps := []string{fmt.Sprintf("init:o:%d", off)}
		perm := r.Perm(len(types))
		for j := 0; j < m; j++ {
			t := types[perm[j]]
			size, l := 0, 0
			if k := kindOfTypeField(t); isByteKind(k) {
				size = 1 + r.Intn(200)
				l = size
			} else {
				size = 1 + r.Intn(8)
				l = 16 * size
			}
			ao := r.Intn(n - l + 1)
			if r.Intn(6) == 0 {
				ao = n - l // flush with the end of the file
			}
			addr := fmt.Sprintf("_,%d", ao)
			if r.Intn(3) == 0 {
				addr = fmt.Sprintf("%d,_", uint64(1<<32)-uint64(n)+uint64(ao))
			}
			steps = append(steps, fmt.Sprintf("add:%s,%d,%d,%s,_", addr, size, t, []string{"t", "_"}[r.Intn(2)]))
		}
		if r.Intn(3) == 0 {
			steps = append(steps, fmt.Sprintf("remove:%d", 1+r.Intn(m)))
		}
		steps = append(steps, "show")
		g.add("cmd-data", "cmd", "img", img, "script", strings.Join(steps, "|"))
	}
}

func (g *gen) genCmd(count int) {
	r := g.r
	g.genCmdData(count / 4)
	for i := 0; i < count; i++ {
		n := 256 + r.Intn(1800)
		if r.Intn(10) == 0 {
			n = []int{0, 16, 63, 64, 80, 128}[r.Intn(6)]
		}
		img := g.imageRecipe(n)
		var steps []string
		room := 2 + r.Intn(8) // table slots kept inside the image before the pointer
		off := 0
		if n >= 0x40+16*room {
			off = r.Intn(n-0x40-16*room+1) &^ 3
		}
		switch r.Intn(10) {
		case 0:
			off = n - 16 // after the pointer, flush with the end
		case 1:
			off = int(g.pick64(uint64(n), uint64(n)+8, uint64(max(n-0x40, 0)), uint64(max(n-8, 0))))
		}
		if off < 0 {
			off = 0
		}
		switch r.Intn(8) {
		case 0:
			steps = append(steps, fmt.Sprintf("init:p:%d", uint64(1<<32)-uint64(n)+uint64(off)))
		case 1:
			if r.Intn(2) == 0 {
				steps = append(steps, fmt.Sprintf("init:p:%d", g.pick64(0, 1<<32, 1<<32-16)))
			} else {
				steps = append(steps, fmt.Sprintf("init:o:%d", g.pick64(1<<63, 1<<64-1)))
			}
		case 2:
			// no init: commands on an image without FIT
		default:
			steps = append(steps, fmt.Sprintf("init:o:%d", off))
		}
		cnt := 1
		if r.Intn(2) == 0 && len(steps) > 0 && strings.HasPrefix(steps[0], "init:o:") {
			// structured script: grow the table, then edit in the middle, then look
			na := 2 + r.Intn(3)
			for j := 0; j < na; j++ {
				steps = append(steps, "add:"+g.rawOpts(max(n, 1)))
				cnt++
			}
			switch r.Intn(4) {
			case 0, 1:
				steps = append(steps, fmt.Sprintf("remove:%d", 1+r.Intn(cnt-1)))
			case 2:
				steps = append(steps, fmt.Sprintf("set:%d:%s", 1+r.Intn(cnt-1), g.rawOpts(max(n, 1))))
			case 3:
				steps = append(steps, fmt.Sprintf("set:%d:%s", cnt+r.Intn(2), g.rawOpts(max(n, 1))))
			}
			steps = append(steps, "show")
			g.add("cmd-structured", "cmd", "img", img, "script", strings.Join(steps, "|"))
			continue
		}
		k := r.Intn(6)
		for j := 0; j < k; j++ {
			switch r.Intn(7) {
			case 0, 1, 2:
				steps = append(steps, "add:"+g.rawOpts(max(n, 1)))
				cnt++
			case 3:
				idx := r.Intn(cnt + 3)
				steps = append(steps, fmt.Sprintf("set:%d:%s", idx, g.rawOpts(max(n, 1))))
				if idx >= cnt {
					cnt = idx + 1
				}
			case 4:
				idx := r.Intn(cnt + 1)
				steps = append(steps, fmt.Sprintf("remove:%d", idx))
				if idx < cnt && cnt > 0 {
					cnt--
				}
			default:
				steps = append(steps, "show")
			}
		}
		steps = append(steps, "show")
		g.add("cmd", "cmd", "img", img, "script", strings.Join(steps, "|"))
	}
}
