package c14

import (
	"bytes"
	"encoding/binary"
	"fmt"
	"strconv"
	"strings"

	"github.com/linuxboot/fiano/pkg/intel/metadata/fit"

	"verif/harness/core"
)

// Oracle-only inject/get cases on images of 2–4 MiB ("biginject"): the Size field of a x16-type
// entry reaches 0x10000 and beyond (>= 1 MiB of data), byte-counted entries reach 64 KiB and
// beyond.  Nothing is sent to the Lean driver (the images never cross the pipe); the property's
// conclusions are checked on the implementation's output exactly as for the small images.
//
//	args: n, fill (a:b:c), tbl, entries = kind,addr,size,res,ver,tcv,cks,<len>:<seed> ; …   ("-" = no data)

func bigData(l int, seed int) []byte {
	b := make([]byte, l)
	m := 2*seed + 1
	for i := range b {
		b[i] = byte(i*m + (i>>8)*5 + (i>>16)*11 + seed)
	}
	return b
}

func parseBigEnts(s string) []ent {
	var es []ent
	for _, p := range strings.Split(s, ";") {
		f := strings.Split(p, ",")
		if len(f) != 8 {
			panic("harness: bad big entry on the wire")
		}
		k, err := strconv.Atoi(f[0])
		must(err)
		e := ent{kind: k, hdr: parseHdrFields(f[1:7])}
		if f[7] != "-" {
			ls := strings.Split(f[7], ":")
			e.data = bigData(int(pu(ls[0], 31)), int(pu(ls[1], 31)))
		}
		es = append(es, e)
	}
	return es
}

func (r *runner) runBigInject(c core.Case) {
	n := int(pu(c.Args["n"], 31))
	f := strings.Split(c.Args["fill"], ":")
	a, b, cc := int(pu(f[0], 31)), int(pu(f[1], 31)), int(pu(f[2], 31))
	img := make([]byte, n)
	for i := range img {
		img[i] = byte(a*i + b + cc*(i/256))
	}
	orig := append([]byte(nil), img...)
	tbl := pu(c.Args["tbl"], 64)
	es := parseBigEnts(c.Args["entries"])
	entries := toEntries(es)
	valid, ranges := layoutValid(uint64(n), tbl, es)
	err := entries.Inject(img, tbl)
	got, gerr := fit.GetEntries(img)
	vs := "invalid"
	if valid {
		vs = "valid"
	}
	r.out.Class = fmt.Sprintf("biginject:%s,inject=%s,get=%s", vs, core.ErrClass(err), core.ErrClass(gerr))
	r.out.Key = c.Args["entries"] + "@" + c.Args["tbl"]

	// frame: only pointer, table and data ranges are modified
	bad := -1
	if !bytes.Equal(img, orig) {
		for i := range img {
			if img[i] != orig[i] {
				in := false
				for _, g := range ranges {
					if uint64(i) >= g.lo && uint64(i) < g.hi {
						in = true
						break
					}
				}
				if !in {
					bad = i
					break
				}
			}
		}
	}
	r.O("inject-frame", "-1", fmt.Sprint(bad))
	r.O("inject-keeps-size", fmt.Sprint(n), fmt.Sprint(len(img)))
	if !valid {
		return
	}
	r.O("inject-ok", "ok", core.ErrClass(err))
	r.O("get-ok", "ok", core.ErrClass(gerr))
	ptr := binary.LittleEndian.Uint64(img[n-0x40:])
	r.O("pointer-designates-table", fmt.Sprint(uint64(1<<32)-uint64(n)+tbl), fmt.Sprint(ptr))
	s, e, rerr := fit.GetHeadersTableRangeFrom(bytes.NewReader(img))
	r.O("table-range", fmt.Sprintf("ok %d %d", tbl, tbl+16*uint64(len(es))), fmt.Sprintf("%s %d %d", core.ErrClass(rerr), s, e))
	r.O("entry0-magic-count", fmt.Sprintf("_FIT_    %d", len(es)),
		fmt.Sprintf("%s %d", img[tbl:tbl+8], int(img[tbl+8])|int(img[tbl+9])<<8|int(img[tbl+10])<<16))
	// same headers, same order, same Go types, same data bytes (data as length:digest, plus the
	// first differing position when they differ)
	if gerr == nil {
		var want, have []string
		for _, x := range es {
			want = append(want, fmt.Sprintf("%d,%s,%d:%d", kindOfTypeField(uint8(x.hdr.TypeAndIsChecksumValid)&0x7f), showHdr(x.hdr), len(x.data), core.FNV(x.data)))
		}
		for _, x := range got {
			bb := x.GetEntryBase()
			have = append(have, fmt.Sprintf("%d,%s,%d:%d", kindOf(x), showHdr(bb.Headers), len(bb.DataSegmentBytes), core.FNV(bb.DataSegmentBytes)))
		}
		r.O("inject-get", strings.Join(want, ";"), strings.Join(have, ";"))
	}
	t, terr := fit.GetTable(img)
	var hs []fit.EntryHeaders
	for _, x := range es {
		hs = append(hs, x.hdr)
	}
	r.O("get-table", "ok "+showHdrs(hs), core.ErrClass(terr)+" "+showHdrs(t))
	for i, x := range es {
		if len(x.data) > 0 {
			off := uint64(x.hdr.Address) - (uint64(1<<32) - uint64(n))
			if !bytes.Equal(img[off:off+uint64(len(x.data))], x.data) {
				r.O("data-stored", "entry data at its offset", fmt.Sprintf("entry %d differs at offset %d", i, off))
			}
		}
	}
}

// ---- generator

type bigSpec struct {
	kind int
	l    int // data length in bytes
}

func (g *gen) genBig(count int) {
	r := g.r
	x16 := []int{kMicrocode, kBIOSStartup, kSkip, kUnknown, kCSESecureBoot, kFeaturePolicy, kJMPDebug}
	byteK := []int{kKeyManifest, kBootPolicy, kBIOSPolicy}
	// Size field values around the 16-bit boundary, incl. zero low / middle bytes
	single := []int{0x10000, 0x10001, 0x010100, 0x010001, 0x01FFFF, 0x020000, 0x020001, 0x018000, 0x0100FF}
	pairs := [][2]int{{0xFFFF, 0x10000}, {0x10000, 0xFFFF}, {0x10001, 0xFFFF}, {0xFFFF, 0x10001}, {0x10000, 0x10000}}
	byteSizes := []int{0x10000, 0x10001, 0xFFFF, 0x010100, 0x020001, 0x030000}
	for i := 0; i < count; i++ {
		var specs []bigSpec
		kind := "big-x16"
		switch i % 4 {
		case 0, 1:
			specs = append(specs, bigSpec{x16[r.Intn(len(x16))], 16 * single[(i/2+r.Intn(2))%len(single)]})
			if r.Intn(2) == 0 { // a small neighbour of another kind
				specs = append(specs, bigSpec{byteK[r.Intn(3)], 1 + r.Intn(300)})
			}
		case 2:
			p := pairs[(i/4)%len(pairs)]
			specs = append(specs, bigSpec{x16[r.Intn(len(x16))], 16 * p[0]}, bigSpec{x16[r.Intn(len(x16))], 16 * p[1]})
			kind = "big-straddle"
		case 3:
			specs = append(specs, bigSpec{byteK[r.Intn(3)], byteSizes[(i/4)%len(byteSizes)]})
			specs = append(specs, bigSpec{x16[r.Intn(len(x16))], 16 * single[r.Intn(2)]})
			kind = "big-bytes"
		}
		if r.Intn(2) == 0 { // order of the entries is free
			for a, b := 0, len(specs)-1; a < b; a, b = a+1, b-1 {
				specs[a], specs[b] = specs[b], specs[a]
			}
		}
		k := 1 + len(specs)
		// sequential layout: [table] data… [pointer]  or  data… [pointer][table]
		pos := 0
		tblFirst := r.Intn(3) != 0
		tbl := 0
		if tblFirst {
			tbl = 16 * r.Intn(8)
			pos = tbl + 16*k + r.Intn(40)
		}
		offs := make([]int, len(specs))
		for j, s := range specs {
			offs[j] = pos
			pos += s.l + []int{0, 0, 1, 16, r.Intn(100)}[r.Intn(5)]
		}
		n := pos + 0x40 + []int{0, 0, 7, 64, r.Intn(5000)}[r.Intn(5)]
		if !tblFirst {
			// table after the pointer, flush with the image end
			if 16*k > 0x38 {
				n = pos + 0x40 + 16*k
			}
			tbl = n - 16*k
			if tbl < n-0x38 {
				tbl = n - 0x38
				n = tbl + 16*k
				// pointer now at n-0x40 <= tbl-8: keep data below it
				if pos > n-0x40 {
					n += pos - (n - 0x40)
					tbl = n - 16*k
				}
			}
		}
		if n < 2<<20 { // the quantifier asks for nothing here; 2–4 MiB keeps the allocations modest
			n = 2<<20 + r.Intn(3)
			if !tblFirst {
				tbl = n - 16*k
				if 16*k > 0x38 {
					tblFirst, tbl = true, 0 // cannot happen with k <= 3; keep the layout valid anyway
				}
			}
		}
		if !tblFirst && pos > n-0x40 {
			continue
		}
		base := uint64(1<<32) - uint64(n)
		var ss []string
		h0 := g.entry0(k)
		ss = append(ss, fmt.Sprintf("%d,%s,-", kFITHeader, showHdr(h0.hdr)))
		for j, s := range specs {
			h := g.randHdr()
			t := g.typeOfKind(s.kind)
			h.TypeAndIsChecksumValid = fit.TypeAndIsChecksumValid(t) | (h.TypeAndIsChecksumValid & 0x80)
			h.Address = fit.Address64(base + uint64(offs[j]))
			if isByteKind(s.kind) {
				setSize(&h, s.l)
			} else {
				setSize(&h, s.l/16)
			}
			ss = append(ss, fmt.Sprintf("%d,%s,%d:%d", s.kind, showHdr(h), s.l, r.Intn(1000)))
		}
		g.add(kind, "biginject", "n", strconv.Itoa(n), "fill", fmt.Sprintf("%d:%d:%d", r.Intn(256), r.Intn(256), r.Intn(256)),
			"tbl", strconv.Itoa(tbl), "entries", strings.Join(ss, ";"))
	}
}
