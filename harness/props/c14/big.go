package c14

import (
	"fmt"
	"strconv"
	"strings"

	"github.com/linuxboot/fiano/pkg/intel/metadata/fit"

	"verif/harness/core"
)

// Oracle-only inject/get cases on images of 2–4 MiB ("biginject"): the Size field of a x16-type
// entry reaches 0x10000 and beyond (>= 1 MiB of data), byte-counted entries reach 64 KiB and
// beyond.  Nothing is sent to the Lean driver (the images never cross the pipe); the property's
// conclusions are checked on the implementation's output exactly as for the small images.
//
//	args: n, fill (a:b:c), tbl, entries = kind,addr,size,res,ver,tcv,cks,<len>:<seed> ; …   ("-" = no data)

func bigData(l int, seed int) []byte {
	b := make([]byte, l)
	m := 2*seed + 1
	for i := range b {
		b[i] = byte(i*m + (i>>8)*5 + (i>>16)*11 + seed)
	}
	return b
}

func parseBigEnts(s string) []ent {
	var es []ent
	for _, p := range strings.Split(s, ";") {
		f := strings.Split(p, ",")
		if len(f) != 8 {
			panic("harness: bad big entry on the wire")
		}
		k, err := strconv.Atoi(f[0])
		must(err)
		e := ent{kind: k, hdr: parseHdrFields(f[1:7])}
		if f[7] != "-" {
			ls := strings.Split(f[7], ":")
			e.data = bigData(int(pu(ls[0], 31)), int(pu(ls[1], 31)))
		}
		es = append(es, e)
	}
	return es
}

func (r *runner) runBigInject(c core.Case) {
	n := int(pu(c.Args["n"], 31))
	f := strings.Split(c.Args["fill"], ":")
	a, b, cc := int(pu(f[0], 31)), int(pu(f[1], 31)), int(pu(f[2], 31))
	img := make([]byte, n)
	for i := range img {
		img[i] = byte(a*i + b + cc*(i/256))
	}
	tbl := pu(c.Args["tbl"], 64)
	es := parseBigEnts(c.Args["entries"])
	// the same round as for the small images (readers.go), every read-back entrance included,
	// without the model
	sf := newScratchFile(img)
	defer sf.close()
	res := r.injectRound(img, sf, "", tbl, es, "")
	vs := "invalid"
	if res.valid {
		vs = "valid"
	}
	r.out.Class = fmt.Sprintf("biginject:%s,inject=%s,get=%s", vs, res.injCls, res.getCls)
	r.out.Key = c.Args["entries"] + "@" + c.Args["tbl"]
}

// ---- generator

type bigSpec struct {
	kind int
	l    int // data length in bytes
}

func (g *gen) genBig(count int) {
	r := g.r
	x16 := []int{kMicrocode, kBIOSStartup, kSkip, kUnknown, kCSESecureBoot, kFeaturePolicy, kJMPDebug}
	byteK := []int{kKeyManifest, kBootPolicy, kBIOSPolicy}
	// Size field values around the 16-bit boundary, incl. zero low / middle bytes
	single := []int{0x10000, 0x10001, 0x010100, 0x010001, 0x01FFFF, 0x020000, 0x020001, 0x018000, 0x0100FF}
	pairs := [][2]int{{0xFFFF, 0x10000}, {0x10000, 0xFFFF}, {0x10001, 0xFFFF}, {0xFFFF, 0x10001}, {0x10000, 0x10000}}
	byteSizes := []int{0x10000, 0x10001, 0xFFFF, 0x010100, 0x020001, 0x030000}
	for i := 0; i < count; i++ {
		var specs []bigSpec
		kind := "big-x16"
		switch i % 4 {
		case 0, 1:
			specs = append(specs, bigSpec{x16[r.Intn(len(x16))], 16 * single[(i/2+r.Intn(2))%len(single)]})
			if r.Intn(2) == 0 { // a small neighbour of another kind
				specs = append(specs, bigSpec{byteK[r.Intn(3)], 1 + r.Intn(300)})
			}
		case 2:
			p := pairs[(i/4)%len(pairs)]
			specs = append(specs, bigSpec{x16[r.Intn(len(x16))], 16 * p[0]}, bigSpec{x16[r.Intn(len(x16))], 16 * p[1]})
			kind = "big-straddle"
		case 3:
			specs = append(specs, bigSpec{byteK[r.Intn(3)], byteSizes[(i/4)%len(byteSizes)]})
			specs = append(specs, bigSpec{x16[r.Intn(len(x16))], 16 * single[r.Intn(2)]})
			kind = "big-bytes"
		}
		if r.Intn(2) == 0 { // order of the entries is free
			for a, b := 0, len(specs)-1; a < b; a, b = a+1, b-1 {
				specs[a], specs[b] = specs[b], specs[a]
			}
		}
		k := 1 + len(specs)
		// sequential layout: [table] data… [pointer]  or  data… [pointer][table]
		pos := 0
		tblFirst := r.Intn(3) != 0
		tbl := 0
		if tblFirst {
			tbl = 16 * r.Intn(8)
			pos = tbl + 16*k + r.Intn(40)
		}
		offs := make([]int, len(specs))
		for j, s := range specs {
			offs[j] = pos
			pos += s.l + []int{0, 0, 1, 16, r.Intn(100)}[r.Intn(5)]
		}
		n := pos + 0x40 + []int{0, 0, 7, 64, r.Intn(5000)}[r.Intn(5)]
		if !tblFirst {
			// table after the pointer, flush with the image end
			if 16*k > 0x38 {
				n = pos + 0x40 + 16*k
			}
			tbl = n - 16*k
			if tbl < n-0x38 {
				tbl = n - 0x38
				n = tbl + 16*k
				// pointer now at n-0x40 <= tbl-8: keep data below it
				if pos > n-0x40 {
					n += pos - (n - 0x40)
					tbl = n - 16*k
				}
			}
		}
		if n < 2<<20 { // the quantifier asks for nothing here; 2–4 MiB keeps the allocations modest
			n = 2<<20 + r.Intn(3)
			if !tblFirst {
				tbl = n - 16*k
				if 16*k > 0x38 {
					tblFirst, tbl = true, 0 // cannot happen with k <= 3; keep the layout valid anyway
				}
			}
		}
		if !tblFirst && pos > n-0x40 {
			continue
		}
		base := uint64(1<<32) - uint64(n)
		var ss []string
		h0 := g.entry0(k)
		ss = append(ss, fmt.Sprintf("%d,%s,-", kFITHeader, showHdr(h0.hdr)))
		for j, s := range specs {
			h := g.randHdr()
			t := g.typeOfKind(s.kind)
			h.TypeAndIsChecksumValid = fit.TypeAndIsChecksumValid(t) | (h.TypeAndIsChecksumValid & 0x80)
			h.Address = fit.Address64(base + uint64(offs[j]))
			if isByteKind(s.kind) {
				setSize(&h, s.l)
			} else {
				setSize(&h, s.l/16)
			}
			ss = append(ss, fmt.Sprintf("%d,%s,%d:%d", s.kind, showHdr(h), s.l, r.Intn(1000)))
		}
		g.add(kind, "biginject", "n", strconv.Itoa(n), "fill", fmt.Sprintf("%d:%d:%d", r.Intn(256), r.Intn(256), r.Intn(256)),
			"tbl", strconv.Itoa(tbl), "entries", strings.Join(ss, ";"))
	}
}
