package c14

import (
	"encoding/binary"
	"fmt"
	"math/rand"
	"strconv"
	"strings"

	"github.com/linuxboot/fiano/pkg/intel/metadata/fit"

	"verif/harness/core"
)

type gen struct {
	r  *rand.Rand
	cs []core.Case
}

func (g *gen) add(kind, op string, kv ...string) {
	a := map[string]string{}
	for i := 0; i+1 < len(kv); i += 2 {
		a[kv[i]] = kv[i+1]
	}
	g.cs = append(g.cs, core.Case{Kind: kind, Op: op, Args: a})
}

func (g *gen) pick64(xs ...uint64) uint64 { return xs[g.r.Intn(len(xs))] }

var magicAddr = binary.LittleEndian.Uint64([]byte("_FIT_   "))

// ---- address maths

func (g *gen) genAddr(n int) {
	r := g.r
	for i := 0; i < n; i++ {
		var size uint64
		switch r.Intn(10) {
		case 0:
			size = g.pick64(0, 1, 0x40, 1<<32-1, 1<<32, 1<<32+1, 1<<63, 1<<64-1)
		case 1:
			size = r.Uint64()
		case 2:
			size = uint64(r.Int63n(1 << 32))
		default:
			size = g.pick64(0x1000, 0x2000, 0x8000, 0x10000, 0x100000, 0x1000000, 0x2000000, uint64(1+r.Intn(1<<16)))
		}
		var x uint64
		kind := "addr-inside"
		switch r.Intn(12) {
		case 0:
			x = g.pick64(0, 1, size-1, size, size+1, (1<<32)-size, 1<<32-1, 1<<32, 1<<64-1, 1<<63, size-0x40)
			kind = "addr-boundary"
		case 1:
			x = r.Uint64()
			kind = "addr-random64"
		case 2:
			x = (1 << 32) - size + uint64(r.Int63n(int64(size%(1<<62))+1)) // an address inside the window
			kind = "addr-physical"
		default:
			if size > 0 && size <= 1<<62 {
				x = uint64(r.Int63n(int64(size)))
			}
			if r.Intn(4) == 0 && size > 0 {
				x = g.pick64(0, size-1, size/2)
			}
		}
		g.add(kind, "addr", "size", fmt.Sprint(size), "x", fmt.Sprint(x))
	}
}

func (g *gen) genRange(n int) {
	r := g.r
	for i := 0; i < n; i++ {
		l := uint64(r.Intn(1 << 16))
		if r.Intn(8) == 0 {
			l = g.pick64(0, 1, 1<<31, 1<<32, 1<<62)
		}
		pt := func() uint64 {
			switch r.Intn(4) {
			case 0:
				return g.pick64(0, 1, l-1, l, l+1, 1<<63-1, 1<<63, 1<<64-1, 1<<64-16, 1<<63+l)
			case 1:
				return r.Uint64()
			}
			return uint64(r.Int63n(int64(l) + 2))
		}
		g.add("range", "range", "len", fmt.Sprint(l), "s", fmt.Sprint(pt()), "e", fmt.Sprint(pt()))
	}
}

// ---- headers

var unregistered = func() []uint8 {
	var out []uint8
	for t := 0; t < 0x80; t++ {
		if kindOfTypeField(uint8(t)) == kUnknown {
			out = append(out, uint8(t))
		}
	}
	return out
}()

func (g *gen) typeOfKind(kind int) uint8 {
	if kind == kUnknown {
		if g.r.Intn(3) == 0 {
			return []uint8{0x04, 0x06, 0x0D, 0x0F, 0x11, 0x2C, 0x2E, 0x30, 0x7E}[g.r.Intn(9)]
		}
		return unregistered[g.r.Intn(len(unregistered))]
	}
	return uint8(kindType[kind])
}

func (g *gen) randHdr() fit.EntryHeaders {
	r := g.r
	var h fit.EntryHeaders
	switch r.Intn(6) {
	case 0:
		h.Address = fit.Address64(g.pick64(0, 1, magicAddr, 1<<32-1, 1<<32, 1<<64-1, 1<<63, 0xFFFFFFC0))
	case 1:
		h.Address = fit.Address64(0xFF000000 + uint64(r.Intn(1<<24)))
	default:
		h.Address = fit.Address64(r.Uint64())
	}
	var sz uint32
	switch r.Intn(5) {
	case 0:
		sz = uint32(g.pick64(0, 1, 0xFF, 0x100, 0xFFFF, 0x10000, 0xFFFFFE, 0xFFFFFF))
	case 1:
		sz = uint32(r.Intn(1 << 24))
	default:
		sz = uint32(r.Intn(64))
	}
	h.Size.Value = [3]byte{byte(sz), byte(sz >> 8), byte(sz >> 16)}
	if r.Intn(3) == 0 {
		h.Reserved = uint8(g.pick64(1, 0x7f, 0x80, 0xff, uint64(r.Intn(256))))
	}
	switch r.Intn(4) {
	case 0:
		h.Version = fit.EntryVersion(g.pick64(0, 1, 0xFF, 0x100, 0x1000, 0xFF00, 0xFFFF, 0x0102))
	case 1:
		h.Version = fit.EntryVersion(r.Intn(1 << 16))
	default:
		h.Version = 0x0100
	}
	t := g.typeOfKind(r.Intn(nKinds))
	if r.Intn(10) == 0 {
		t = uint8(g.pick64(0, 0x7f, 0x7e, 0x40, 0x3f))
	}
	h.TypeAndIsChecksumValid = fit.TypeAndIsChecksumValid(t)
	if r.Intn(2) == 0 {
		h.TypeAndIsChecksumValid |= 0x80
	}
	switch r.Intn(3) {
	case 0:
		h.Checksum = uint8(g.pick64(0, 1, 0x7f, 0x80, 0xff))
	case 1:
		h.Checksum = uint8(r.Intn(256))
	}
	return h
}

func (g *gen) genHdr(n int) {
	for i := 0; i < n; i++ {
		g.add("hdr", "hdr", "hdr", showHdr(g.randHdr()))
	}
}

func (g *gen) genHdrWrite(n int) {
	r := g.r
	lens := []int{0, 1, 15, 16, 17, 31, 32, 33, 47, 48, 49, 64, 80}
	for i := 0; i < n; i++ {
		l := lens[r.Intn(len(lens))]
		if r.Intn(4) == 0 {
			l = r.Intn(100)
		}
		b := make([]byte, l)
		r.Read(b)
		k := r.Intn(5)
		var hs []fit.EntryHeaders
		for j := 0; j < k; j++ {
			hs = append(hs, g.randHdr())
		}
		g.add("hdrwrite", "hdrwrite", "b", core.Hex(b), "hdrs", showHdrs(hs))
	}
}

func (g *gen) genParseTable(n int) {
	r := g.r
	for i := 0; i < n; i++ {
		l := 16 * r.Intn(6)
		switch r.Intn(6) {
		case 0:
			l += 1
		case 1:
			l += 15
		case 2:
			l = r.Intn(100)
		}
		b := make([]byte, l)
		r.Read(b)
		g.add("parsetable", "parsetable", "b", core.Hex(b))
	}
}

// ---- JSON decoding (well-typed objects with missing / extra / duplicate / out-of-range fields)

func (g *gen) genFromJSON(n int) {
	r := g.r
	for i := 0; i < n; i++ {
		h := g.randHdr()
		type kv struct{ k, v string }
		num := func(v uint64) string { return "n" + strconv.FormatUint(v, 10) }
		b2s := func(b bool) string {
			if b {
				return "t"
			}
			return "f"
		}
		maj, min := uint64(h.Version>>8), uint64(h.Version&0xff)
		ver := "Version{maj=" + num(maj)
		if min != 0 || r.Intn(2) == 0 {
			ver += ".min=" + num(min)
		}
		ver += "}"
		fields := []kv{
			{"Address", num(uint64(h.Address))}, {"Size", num(uint64(size24(h)))},
			{"Reserved", num(uint64(h.Reserved))}, {"Version", ver},
			{"Type", num(uint64(h.TypeAndIsChecksumValid & 0x7f))},
			{"IsChecksumValid", b2s(h.TypeAndIsChecksumValid&0x80 != 0)}, {"Checksum", num(uint64(h.Checksum))},
		}
		kind := "json-valid"
		nm := 0
		if r.Intn(3) != 0 {
			nm = 1 + r.Intn(2)
			kind = "json-mutated"
		}
		for m := 0; m < nm; m++ {
			j := r.Intn(len(fields))
			switch r.Intn(9) {
			case 0: // drop a field
				fields = append(fields[:j], fields[j+1:]...)
			case 1: // out of range for the Go type
				bounds := map[string][]uint64{"Address": {1<<64 - 1}, "Size": {1 << 24, 1<<24 - 1, 1<<32 - 1, 1 << 32},
					"Reserved": {255, 256}, "Type": {0x7f, 0x80, 200, 255, 256}, "Checksum": {255, 256, 1 << 16}}
				if bs, ok := bounds[fields[j].k]; ok {
					fields[j].v = num(bs[r.Intn(len(bs))])
				} else if fields[j].k == "Version" {
					fields[j].v = []string{"Version{maj=n256}", "Version{maj=n255.min=n255}", "Version{min=n256}", "Version{}", "Version{min=n7}"}[r.Intn(5)]
				}
			case 2: // wrong JSON type
				if fields[j].k == "IsChecksumValid" {
					fields[j].v = num(uint64(r.Intn(2)))
				} else if fields[j].k == "Version" {
					fields[j].v = []string{"n5", "t", "Version{maj=t}"}[r.Intn(3)]
				} else {
					fields[j].v = b2s(r.Intn(2) == 0)
				}
			case 3: // duplicate key: the later one wins
				d := fields[j]
				if d.k != "Version" && d.k != "IsChecksumValid" {
					d.v = num(uint64(r.Intn(200)))
				}
				fields = append(fields, d)
			case 4: // unknown key
				fields = append(fields, kv{"Foo", num(uint64(r.Intn(1000)))})
			case 5: // 2^64 does not fit uint64
				if fields[j].k == "Address" {
					fields[j].v = "n18446744073709551616"
				}
			case 6: // unknown key inside Version
				if fields[j].k == "Version" {
					fields[j].v = "Version{maj=n1.bar=n2}"
				}
			case 7: // swap two fields (order is irrelevant)
				k := r.Intn(len(fields))
				fields[j], fields[k] = fields[k], fields[j]
			case 8: // empty object
				if r.Intn(4) == 0 {
					fields = nil
				}
			}
			if len(fields) == 0 {
				break
			}
		}
		var parts []string
		for _, f := range fields {
			if strings.HasPrefix(f.v, "Version{") {
				parts = append(parts, f.v)
			} else {
				parts = append(parts, f.k+"="+f.v)
			}
		}
		obj := "-"
		if len(parts) > 0 {
			obj = strings.Join(parts, ",")
		}
		g.add(kind, "fromjson", "obj", obj)
	}
}

// ---- RecalculateHeaders alone

func (g *gen) randData(l int) []byte {
	b := make([]byte, l)
	g.r.Read(b)
	return b
}

func (g *gen) genRecalc(n int) {
	r := g.r
	for i := 0; i < n; i++ {
		k := r.Intn(6)
		var es []ent
		for j := 0; j < k; j++ {
			kind := r.Intn(nKinds)
			if j == 0 && r.Intn(5) != 0 {
				kind = kFITHeader
			}
			if (kind == kUnknown || kind == kDiagACM || kind == kTPMPolicy) && r.Intn(3) != 0 {
				kind = kSkip
			}
			e := ent{kind: kind}
			if r.Intn(2) == 0 {
				e.hdr = g.randHdr()
			}
			e.hdr.Address = fit.Address64(0xFFFF0000 + uint64(r.Intn(0x8000)))
			l := []int{0, 0, 1, 5, 15, 16, 17, 32, 48, 100, 256, 300}[r.Intn(12)]
			e.data = g.randData(l)
			es = append(es, e)
		}
		g.add("recalc", "recalc", "entries", showEnts(es))
	}
}

// ---- Inject / GetEntries

type alloc struct {
	n    int
	used []rng
	r    *rand.Rand
}

func (a *alloc) free(lo, hi int) bool {
	if lo < 0 || hi > a.n {
		return false
	}
	for _, u := range a.used {
		if overlaps(u, rng{uint64(lo), uint64(hi)}) {
			return false
		}
	}
	return true
}

func (a *alloc) take(lo, hi int) { a.used = append(a.used, rng{uint64(lo), uint64(hi)}) }

// place finds a free spot for l bytes (sometimes flush against a neighbour or an image edge)
func (a *alloc) place(l int) int {
	if l > a.n {
		return -1
	}
	for try := 0; try < 60; try++ {
		var off int
		switch a.r.Intn(6) {
		case 0:
			off = 0
		case 1:
			off = a.n - l
		case 2:
			if len(a.used) > 0 { // flush after an existing range
				off = int(a.used[a.r.Intn(len(a.used))].hi)
			}
		case 3:
			if len(a.used) > 0 { // flush before an existing range
				off = int(a.used[a.r.Intn(len(a.used))].lo) - l
			}
		default:
			off = a.r.Intn(a.n - l + 1)
			if a.r.Intn(2) == 0 {
				off &^= 15
			}
		}
		if a.free(off, off+l) {
			a.take(off, off+l)
			return off
		}
	}
	return -1
}

func (g *gen) imageSize() int {
	r := g.r
	switch r.Intn(20) {
	case 0:
		return []int{64, 65, 72, 80, 96, 127, 128}[r.Intn(7)]
	case 1, 2, 3:
		return 128 + r.Intn(900)
	case 4, 5, 6, 7:
		return 1024 + r.Intn(3072)
	case 8:
		return []int{4096, 8192, 16384, 32768, 65536}[r.Intn(5)] + r.Intn(3) - 1
	default:
		return []int{4096, 8192, 16384, 32768, 65536}[r.Intn(5)]
	}
}

func (g *gen) imageRecipe(n int) string {
	r := g.r
	switch r.Intn(4) {
	case 0:
		return fmt.Sprintf("g:%d:0:255:0", n)
	case 1:
		return fmt.Sprintf("g:%d:0:0:0", n)
	}
	return fmt.Sprintf("g:%d:%d:%d:%d", n, r.Intn(256), r.Intn(256), r.Intn(256))
}

func (g *gen) entry0(k int) ent {
	h := g.randHdr()
	h.Address = fit.Address64(magicAddr)
	h.Size.Value = [3]byte{byte(k), byte(k >> 8), byte(k >> 16)}
	h.TypeAndIsChecksumValid &= 0x80
	return ent{kind: kFITHeader, hdr: h}
}

func isDefaultKind(k int) bool {
	switch k {
	case kMicrocode, kBIOSStartup, kCSESecureBoot, kFeaturePolicy, kJMPDebug, kSkip, kUnknown:
		return true
	}
	return false
}

func isByteKind(k int) bool { return k == kKeyManifest || k == kBootPolicy || k == kBIOSPolicy }

func setSize(h *fit.EntryHeaders, v int) {
	h.Size.Value = [3]byte{byte(v), byte(v >> 8), byte(v >> 16)}
}

// validEntry builds entry number j (>0) of a valid layout. mode: 0 data, 1 no data & size 0,
// 2 no data & designating nothing readable
func (g *gen) validEntry(a *alloc) ent {
	r := g.r
	n := a.n
	base := uint64(1<<32) - uint64(n)
	kind := r.Intn(nKinds)
	h := g.randHdr()
	t := g.typeOfKind(kind)
	h.TypeAndIsChecksumValid = fit.TypeAndIsChecksumValid(t) | (h.TypeAndIsChecksumValid & 0x80)
	e := ent{kind: kind}
	outside := func() uint64 {
		switch r.Intn(7) {
		case 0:
			return 0
		case 1:
			return base - 16 // just below the image
		case 2:
			return 1 << 32 // just past the end
		case 3:
			return 1<<32 - 1 // last byte: anything longer than 1 leaves the image
		case 4:
			return 1<<32 + uint64(r.Int63n(1<<40))
		case 5:
			return magicAddr
		}
		return uint64(r.Int63n(int64(base))) // below the image (base > 0 because n < 4 GiB)
	}
	mode := r.Intn(10)
	switch {
	case kind == kFITHeader || kind == kTXTPolicy || kind == kTPMPolicy || kind == kDiagACM:
		// never a data segment; the address is free (TXT keeps its policy data there)
		if r.Intn(2) == 0 {
			h.Address = fit.Address64(base + uint64(r.Intn(n)))
		}
	case kind == kSACM:
		if mode < 7 {
			q := 7 + r.Intn(40)
			l := 4 * q
			off := a.place(l)
			if off >= 0 {
				e.data = g.randData(l)
				field := uint32(q)
				if r.Intn(6) == 0 {
					field |= 1 << 30 // `<< 2` on uint32 drops the two top bits
				}
				binary.LittleEndian.PutUint32(e.data[24:], field)
				h.Address = fit.Address64(base + uint64(off))
				if r.Intn(2) == 0 {
					setSize(&h, 0)
				}
				break
			}
		}
		// no data: the size field at +24 must not be readable
		h.Address = fit.Address64([]uint64{0, 1 << 32, 1<<32 - 20, 1<<32 - 27, base - 25, 1<<64 - 24, 1<<64 - 25}[r.Intn(7)])
	case isByteKind(kind):
		if mode < 7 {
			l := 1 + r.Intn(300)
			if r.Intn(8) == 0 {
				l = 1 + r.Intn(min(n, 5000))
			}
			off := a.place(l)
			if off >= 0 {
				e.data = g.randData(l)
				h.Address = fit.Address64(base + uint64(off))
				setSize(&h, l)
				break
			}
		}
		if mode%2 == 0 {
			setSize(&h, 0)
		} else {
			h.Address = fit.Address64(outside())
			if size24(h) == 0 {
				setSize(&h, 1+r.Intn(1000))
			}
			if uint64(h.Address) == 1<<32-1 && size24(h) == 1 {
				setSize(&h, 2)
			}
		}
	default: // x16 kinds
		if mode < 7 {
			m := 1 + r.Intn(16)
			if r.Intn(8) == 0 {
				m = 1 + r.Intn(min(n, 8000)/16+1)
			}
			off := a.place(16 * m)
			if off >= 0 {
				e.data = g.randData(16 * m)
				h.Address = fit.Address64(base + uint64(off))
				setSize(&h, m)
				break
			}
		}
		if mode%2 == 0 {
			setSize(&h, 0)
		} else {
			h.Address = fit.Address64(outside())
			if size24(h) == 0 {
				setSize(&h, 1+r.Intn(1000))
			}
		}
	}
	e.hdr = h
	return e
}

type layout struct {
	n   int
	img string
	tbl uint64
	es  []ent
}

func (g *gen) validLayout() (layout, bool) { return g.validLayoutN(g.imageSize()) }

func (g *gen) validLayoutN(n int) (layout, bool) {
	r := g.r
	a := &alloc{n: n, r: r}
	a.take(n-0x40, n-0x40+8)
	k := 1 + r.Intn(7)
	if r.Intn(12) == 0 {
		k = 8 + r.Intn(17)
	}
	for 16*k > n-8 {
		k--
	}
	if k < 1 {
		return layout{}, false
	}
	tbl := -1
	switch r.Intn(8) {
	case 0:
		if a.free(0, 16*k) {
			tbl = 0
		}
	case 1:
		if a.free(n-0x40-16*k, n-0x40) {
			tbl = n - 0x40 - 16*k
		}
	case 2:
		if a.free(n-16*k, n) {
			tbl = n - 16*k
		}
	case 3:
		if a.free(n-0x38, n-0x38+16*k) {
			tbl = n - 0x38
		}
	}
	if tbl >= 0 {
		a.take(tbl, tbl+16*k)
	} else {
		tbl = a.place(16 * k)
	}
	if tbl < 0 {
		return layout{}, false
	}
	es := []ent{g.entry0(k)}
	for j := 1; j < k; j++ {
		es = append(es, g.validEntry(a))
	}
	return layout{n: n, img: g.imageRecipe(n), tbl: uint64(tbl), es: es}, true
}

func (g *gen) addInject(kind string, l layout, recalc bool) {
	rc := "0"
	if recalc {
		rc = "1"
	}
	g.add(kind, "inject", "img", l.img, "tbl", fmt.Sprint(l.tbl), "entries", showEnts(l.es), "recalc", rc)
}

func (g *gen) genInject(n int) {
	r := g.r
	for i := 0; i < n; i++ {
		l, ok := g.validLayout()
		if !ok {
			continue
		}
		base := uint64(1<<32) - uint64(l.n)
		sel := r.Intn(100)
		switch {
		case sel < 55:
			g.addInject("inject-valid", l, false)
		case sel < 67: // the documented pipeline: blank headers, RecalculateHeaders, Inject
			var es []ent
			for j, e := range l.es {
				if e.kind == kUnknown || e.kind == kDiagACM || e.kind == kTPMPolicy {
					e.kind = kSkip
				}
				h := fit.EntryHeaders{Address: e.hdr.Address}
				if j == 0 {
					h.Address = 0
				}
				if e.kind == kSACM {
					// SACM's CustomRecalculateHeaders only clears Size: the caller sets the type
					h.TypeAndIsChecksumValid = 0x02
				}
				if len(e.data) == 0 && (isDefaultKind(e.kind) || isByteKind(e.kind)) {
					h.Address = 0 // designates nothing
				}
				if r.Intn(3) == 0 {
					h.Version, h.Checksum, h.Reserved = 0x0200, 7, e.hdr.Reserved
				}
				es = append(es, ent{e.kind, h, e.data})
			}
			l.es = es
			g.addInject("inject-pipeline", l, true)
		case sel < 72: // header references bytes already in the image (no data supplied)
			j := r.Intn(len(l.es))
			if j > 0 && len(l.es[j].data) > 0 && l.es[j].kind != kSACM {
				l.es[j].data = nil
			}
			g.addInject("inject-reference", l, false)
		case sel < 80: // overlapping layouts (negative stream: model comparison + frame only)
			j := r.Intn(len(l.es))
			switch r.Intn(5) {
			case 0: // data over the table
				if len(l.es[j].data) > 0 {
					l.es[j].hdr.Address = fit.Address64(base + l.tbl + uint64(r.Intn(16*len(l.es))) - uint64(r.Intn(8)))
				}
			case 1: // data over the pointer
				if len(l.es[j].data) > 0 {
					l.es[j].hdr.Address = fit.Address64(base + uint64(l.n-0x40) - uint64(r.Intn(len(l.es[j].data))))
				}
			case 2: // two data segments at the same place
				k := r.Intn(len(l.es))
				if len(l.es[j].data) > 0 && len(l.es[k].data) > 0 && j != k {
					l.es[j].hdr.Address = l.es[k].hdr.Address + fit.Address64(r.Intn(4))
				}
			case 3: // table over the pointer
				l.tbl = uint64(l.n - 0x40 - r.Intn(16*len(l.es)))
			case 4: // table start inside a data segment
				if len(l.es[j].data) > 0 {
					l.tbl = uint64(l.es[j].hdr.Address) - base + uint64(r.Intn(len(l.es[j].data)))
				}
			}
			g.addInject("inject-overlap", l, false)
		case sel < 87: // outside the image
			j := r.Intn(len(l.es))
			switch r.Intn(7) {
			case 0: // data crossing the end (clipped write)
				if len(l.es[j].data) > 0 {
					l.es[j].hdr.Address = fit.Address64(uint64(1<<32) - uint64(1+r.Intn(len(l.es[j].data))))
				}
			case 1: // data at / past the end
				if len(l.es[j].data) > 0 {
					l.es[j].hdr.Address = fit.Address64(g.pick64(1<<32, 1<<32+1, base-1, 0, 1<<64-1))
				}
			case 2: // table crossing the end
				l.tbl = uint64(l.n - r.Intn(16*len(l.es)) - 1)
			case 3:
				l.tbl = uint64(l.n)
			case 4:
				l.tbl = g.pick64(uint64(l.n)+1, 1<<63-1, 1<<63, 1<<64-1, 1<<32)
			case 5: // image too small for a pointer
				sz := r.Intn(64)
				l.n, l.img = sz, g.imageRecipe(sz)
				l.tbl = uint64(r.Intn(sz + 1))
				for k := range l.es {
					l.es[k].data = nil
				}
			case 6: // no entries at all
				l.es = nil
			}
			g.addInject("inject-outside", l, false)
		case sel < 94: // inconsistent entries
			j := r.Intn(len(l.es))
			switch r.Intn(6) {
			case 0: // data length is not what the header announces
				if len(l.es[j].data) > 1 {
					l.es[j].data = l.es[j].data[:len(l.es[j].data)-1-r.Intn(min(15, len(l.es[j].data)-1))]
				}
			case 1: // entry 0 without the magic
				l.es[0].hdr.Address = fit.Address64(r.Uint64())
			case 2: // wrong count in entry 0
				setSize(&l.es[0].hdr, r.Intn(2*len(l.es)+2))
			case 3: // Go type differs from the TYPE field
				l.es[j].kind = r.Intn(nKinds)
			case 4: // ACM whose size field disagrees
				if l.es[j].kind == kSACM && len(l.es[j].data) >= 28 {
					binary.LittleEndian.PutUint32(l.es[j].data[24:], uint32(r.Intn(64)))
				}
			case 5: // data on a type that has no data segment
				l.es[j].hdr.TypeAndIsChecksumValid = fit.TypeAndIsChecksumValid([]uint8{0x00, 0x0A, 0x08, 0x03}[r.Intn(4)])
			}
			g.addInject("inject-inconsistent", l, false)
		default: // pipeline on data RecalculateHeaders cannot describe
			var es []ent
			for j, e := range l.es {
				h := fit.EntryHeaders{Address: e.hdr.Address}
				if j == 0 {
					h.Address = 0
				}
				if len(e.data) > 0 && r.Intn(3) == 0 {
					e.data = append(e.data, byte(j)) // not a multiple of 16 any more
				}
				es = append(es, ent{e.kind, h, e.data})
			}
			l.es = es
			g.addInject("inject-pipeline-raw", l, true)
		}
	}
}

// ---- reading hand-built / hostile images

func hdrBytes(h fit.EntryHeaders) []byte {
	b := make([]byte, 16)
	binary.LittleEndian.PutUint64(b, uint64(h.Address))
	copy(b[8:11], h.Size.Value[:])
	b[11] = h.Reserved
	binary.LittleEndian.PutUint16(b[12:], uint16(h.Version))
	b[14] = uint8(h.TypeAndIsChecksumValid)
	b[15] = h.Checksum
	return b
}

func (g *gen) genGet(n int) {
	r := g.r
	for i := 0; i < n; i++ {
		sz := g.imageSize()
		if r.Intn(15) == 0 {
			sz = r.Intn(80)
		}
		img := g.imageRecipe(sz)
		if sz < 0x60 {
			g.add("get-tiny", "get", "img", img)
			continue
		}
		base := uint64(1<<32) - uint64(sz)
		k := 1 + r.Intn(6)
		for 16*k > sz-0x40 {
			k--
		}
		tbl := r.Intn(sz-0x40-16*k+1) &^ 3
		if tbl < 0 {
			tbl = 0
		}
		ptr := base + uint64(tbl)
		count := k
		kind := "get-built"
		switch r.Intn(12) {
		case 0:
			ptr = g.pick64(0, 1<<64-1, base-16, 1<<32, 1<<32-16, 1<<32-15, 1<<32-1, base, 1<<63, 1<<32+16)
			kind = "get-bad-pointer"
		case 1:
			count = int(g.pick64(0, 1, 0xFFFFFF, uint64((sz-tbl)/16), uint64((sz-tbl)/16+1), uint64(k+1)))
			kind = "get-bad-count"
		case 2:
			ptr = r.Uint64()
			kind = "get-bad-pointer"
		}
		var ps []string
		pb := make([]byte, 8)
		binary.LittleEndian.PutUint64(pb, ptr)
		ps = append(ps, fmt.Sprintf("%d=%s", sz-0x40, core.Hex(pb)))
		var tb []byte
		for j := 0; j < k; j++ {
			h := g.randHdr()
			if j == 0 {
				h.Address = fit.Address64(magicAddr)
				setSize(&h, count)
				if r.Intn(10) == 0 {
					h.Address ^= fit.Address64(1 << uint(r.Intn(64)))
					kind = "get-bad-magic"
				}
			} else {
				switch r.Intn(4) {
				case 0, 1:
					h.Address = fit.Address64(base + uint64(r.Intn(sz)))
					setSize(&h, r.Intn(40))
				case 2:
					h.Address = fit.Address64(base + uint64(sz) - uint64(r.Intn(64)))
					setSize(&h, r.Intn(8))
				}
				if uint8(h.TypeAndIsChecksumValid)&0x7f == 0x02 && r.Intn(2) == 0 {
					// an ACM whose size field is planted in the image
					off := r.Intn(sz - 0x40)
					h.Address = fit.Address64(base + uint64(off))
					if off+28 <= sz-0x40 {
						fb := make([]byte, 4)
						binary.LittleEndian.PutUint32(fb, uint32(g.pick64(0, 1, 7, 16, uint64(sz/4), uint64(sz/4+1), 1<<30, 1<<30+8, 1<<32-1, uint64((sz-off)/4))))
						ps = append(ps, fmt.Sprintf("%d=%s", off+24, core.Hex(fb)))
					}
				}
			}
			tb = append(tb, hdrBytes(h)...)
		}
		ps = append(ps, fmt.Sprintf("%d=%s", tbl, core.Hex(tb)))
		g.add(kind, "get", "img", img+"/"+strings.Join(ps, "/"))
	}
}

// ---- several data-carrying entries of different kinds in one table

// dataEntry builds an entry of the given kind that carries l bytes of data (l is rounded to what
// the kind can announce); ok = false when no room is left
func (g *gen) dataEntry(a *alloc, kind, l int) (ent, bool) {
	r := g.r
	base := uint64(1<<32) - uint64(a.n)
	h := g.randHdr()
	h.TypeAndIsChecksumValid = fit.TypeAndIsChecksumValid(g.typeOfKind(kind)) | (h.TypeAndIsChecksumValid & 0x80)
	switch {
	case kind == kSACM:
		l = max(l&^3, 28)
	case isByteKind(kind):
		l = max(l, 1)
	default:
		l = max(l&^15, 16)
	}
	off := a.place(l)
	if off < 0 {
		return ent{}, false
	}
	e := ent{kind: kind, data: g.randData(l)}
	h.Address = fit.Address64(base + uint64(off))
	switch {
	case kind == kSACM:
		binary.LittleEndian.PutUint32(e.data[24:], uint32(l/4))
		if r.Intn(2) == 0 {
			setSize(&h, 0)
		}
	case isByteKind(kind):
		setSize(&h, l)
	default:
		setSize(&h, l/16)
	}
	e.hdr = h
	return e, true
}

var dataKinds = []int{kMicrocode, kSACM, kBIOSStartup, kBIOSPolicy, kKeyManifest, kBootPolicy, kCSESecureBoot,
	kFeaturePolicy, kJMPDebug, kSkip, kUnknown}

// genMultiData: 2–6 data-carrying entries of different kinds in one table, with sizes in
// descending / equal / ascending / mixed order across the sizes a reader may treat differently
// (below and above 512 = bytes.MinRead, a page, 32 KiB).  A read-back that mixes up or reuses the
// storage of the segments shows here.
func (g *gen) genMultiData(count int) {
	r := g.r
	sizes := []int{16, 32, 48, 64, 96, 160, 256, 496, 512, 528, 1024, 2048, 4096, 4112, 8192, 16384, 32768}
	for i := 0; i < count; i++ {
		n := []int{4096, 8192, 16384, 32768, 65536, 131072}[r.Intn(6)]
		m := 2 + r.Intn(5)
		large := i%4 == 3
		if large { // only large segments
			m = 2 + r.Intn(2)
			n = []int{131072, 262144}[r.Intn(2)]
		}
		if r.Intn(6) == 0 {
			n += []int{-1, 1, 16, 100}[r.Intn(4)]
		}
		a := &alloc{n: n, r: r}
		a.take(n-0x40, n-0x40+8)
		k := 1 + m
		tbl := a.place(16 * k)
		if tbl < 0 {
			continue
		}
		// sizes: at most half of the image in total; every fourth case only large segments
		var ls []int
		budget := n / 2
		for j := 0; j < m; j++ {
			l := sizes[r.Intn(len(sizes))]
			if large {
				l = []int{8192, 16384, 32768, 65536}[r.Intn(4)]
			}
			for l > budget/(m-j) && l > 16 {
				l /= 2
			}
			budget -= l
			ls = append(ls, l)
		}
		switch r.Intn(5) {
		case 0: // descending
			for x := range ls {
				for y := x + 1; y < len(ls); y++ {
					if ls[y] > ls[x] {
						ls[x], ls[y] = ls[y], ls[x]
					}
				}
			}
		case 1: // ascending
			for x := range ls {
				for y := x + 1; y < len(ls); y++ {
					if ls[y] < ls[x] {
						ls[x], ls[y] = ls[y], ls[x]
					}
				}
			}
		case 2: // all equal
			for x := range ls {
				ls[x] = ls[0]
			}
		}
		es := []ent{g.entry0(k)}
		perm := r.Perm(len(dataKinds))
		ok := true
		for j, l := range ls {
			kind := dataKinds[perm[j%len(perm)]]
			if !isByteKind(kind) && kind != kSACM && r.Intn(3) == 0 && l%16 != 0 {
				l += 16
			}
			if isByteKind(kind) && r.Intn(2) == 0 {
				l += r.Intn(15) // byte-counted kinds: any length
			}
			e, placed := g.dataEntry(a, kind, l)
			if !placed {
				ok = false
				break
			}
			es = append(es, e)
		}
		if !ok {
			continue
		}
		if r.Intn(4) == 0 { // a data-less neighbour in between
			j := 1 + r.Intn(len(es)-1)
			h := g.randHdr()
			h.TypeAndIsChecksumValid = 0x0A // TXT policy: never a data segment
			es = append(es[:j], append([]ent{{kind: kTXTPolicy, hdr: h}}, es[j:]...)...)
			if a.free(tbl+16*k, tbl+16*k+16) {
				k++
				setSize(&es[0].hdr, k)
			} else {
				es = append(es[:j], es[j+1:]...)
			}
		}
		g.addInject("inject-multidata", layout{n: n, img: g.imageRecipe(n), tbl: uint64(tbl), es: es}, false)
	}
}

// ---- sequences of two injections into the same image (runInjectSeq)

func (g *gen) genInjectSeq(count int) {
	r := g.r
	for i := 0; i < count; i++ {
		n := 256 + r.Intn(8192-256)
		if r.Intn(3) == 0 {
			n = []int{512, 1024, 2048, 4096, 8192}[r.Intn(5)]
		}
		l1, ok := g.validLayoutN(n)
		if !ok || len(l1.es) < 2 {
			continue
		}
		base := uint64(1<<32) - uint64(n)
		l2 := layout{n: n, tbl: l1.tbl}
		for _, e := range l1.es {
			l2.es = append(l2.es, ent{e.kind, e.hdr, append([]byte(nil), e.data...)})
		}
		kind := "seq-independent"
		img2 := ""
		switch r.Intn(7) {
		case 6: // another image of another size
			n2 := 256 + r.Intn(8192-256)
			if n2 == n {
				n2++
			}
			var ok2 bool
			l2, ok2 = g.validLayoutN(n2)
			if !ok2 {
				continue
			}
			img2 = l2.img
			kind = "seq-other-image"
		case 0: // an unrelated second layout
			var ok2 bool
			l2, ok2 = g.validLayoutN(n)
			if !ok2 {
				continue
			}
		case 1: // the same entries, table moved (the old table stays behind)
			a := &alloc{n: n, r: r}
			a.take(n-0x40, n-0x40+8)
			for _, e := range l1.es {
				if len(e.data) > 0 {
					off := int(uint64(e.hdr.Address) - base)
					a.take(off, off+len(e.data))
				}
			}
			t := a.place(16 * len(l1.es))
			if t < 0 {
				continue
			}
			l2.tbl = uint64(t)
			kind = "seq-table-moved"
		case 2: // fewer entries at the same place (the tail of the old table stays behind)
			keep := 1 + r.Intn(len(l2.es)-1)
			l2.es = l2.es[:keep]
			setSize(&l2.es[0].hdr, keep)
			kind = "seq-shorter"
		case 3: // the same entries in another order
			rest := l2.es[1:]
			r.Shuffle(len(rest), func(x, y int) { rest[x], rest[y] = rest[y], rest[x] })
			kind = "seq-reordered"
		case 4: // the same layout, other data
			for j := range l2.es {
				if len(l2.es[j].data) > 0 && l2.es[j].kind != kSACM {
					l2.es[j].data = g.randData(len(l2.es[j].data))
				}
			}
			kind = "seq-new-data"
		case 5: // the same again
			kind = "seq-repeat"
		}
		g.add(kind, "injectseq", "img", l1.img, "tbl", fmt.Sprint(l1.tbl), "entries", showEnts(l1.es),
			"tbl2", fmt.Sprint(l2.tbl), "entries2", showEnts(l2.es), "img2", img2)
	}
}
