// Package c14: harness for property C14 (not built yet).
package c14
