// Package c14: FIT location, table and data segments round-trip through an image
// (pkg/intel/metadata/fit, cmds/fittool/commands).
package c14

import (
	"bytes"
	"encoding/binary"
	"encoding/json"
	"fmt"
	"math/rand"
	"reflect"
	"sort"
	"strconv"
	"strings"

	"github.com/linuxboot/fiano/pkg/intel/metadata/fit"
	"github.com/linuxboot/fiano/pkg/intel/metadata/fit/check"

	"verif/harness/core"
)

type prop struct{}

func init() { core.Register(prop{}) }

func (prop) ID() string { return "C14" }

// ---------------------------------------------------------------- kinds (Go types of entries)

// kind codes shared with Driver/C14.lean (`kinds`)
const (
	kFITHeader = iota
	kMicrocode
	kSACM
	kDiagACM
	kBIOSStartup
	kTPMPolicy
	kBIOSPolicy
	kTXTPolicy
	kKeyManifest
	kBootPolicy
	kCSESecureBoot
	kFeaturePolicy
	kJMPDebug
	kSkip
	kUnknown
	nKinds
)

// the harness' own copy of the registry of entry_type.go (tied by T1: Fit/Tie.lean compares the
// regenerated RegisterEntryType calls with the model's table; this one is compared with the
// implementation by the "kind" oracle on every read-back entry)
var kindType = [nKinds]int{0x00, 0x01, 0x02, 0x03, 0x07, 0x08, 0x09, 0x0A, 0x0B, 0x0C, 0x10, 0x2D, 0x2F, 0x7F, -1}

func newEntry(kind int) fit.Entry {
	switch kind {
	case kFITHeader:
		return &fit.EntryFITHeaderEntry{}
	case kMicrocode:
		return &fit.EntryMicrocodeUpdateEntry{}
	case kSACM:
		return &fit.EntrySACM{}
	case kDiagACM:
		return &fit.EntryDiagnosticACM{}
	case kBIOSStartup:
		return &fit.EntryBIOSStartupModuleEntry{}
	case kTPMPolicy:
		return &fit.EntryTPMPolicyRecord{}
	case kBIOSPolicy:
		return &fit.EntryBIOSPolicyRecord{}
	case kTXTPolicy:
		return &fit.EntryTXTPolicyRecord{}
	case kKeyManifest:
		return &fit.EntryKeyManifestRecord{}
	case kBootPolicy:
		return &fit.EntryBootPolicyManifestRecord{}
	case kCSESecureBoot:
		return &fit.EntryCSESecureBoot{}
	case kFeaturePolicy:
		return &fit.EntryFeaturePolicyDeliveryRecord{}
	case kJMPDebug:
		return &fit.EntryJMPDebugPolicy{}
	case kSkip:
		return &fit.EntrySkip{}
	case kUnknown:
		return &fit.EntryUnknown{}
	}
	panic("harness: bad kind")
}

var kindOfGoType = func() map[reflect.Type]int {
	m := map[reflect.Type]int{}
	for k := 0; k < nKinds; k++ {
		m[reflect.TypeOf(newEntry(k))] = k
	}
	return m
}()

func kindOf(e fit.Entry) int {
	k, ok := kindOfGoType[reflect.TypeOf(e)]
	if !ok {
		return 99
	}
	return k
}

// kindOfTypeField is the expected Go type of a read-back entry with the given TYPE field
func kindOfTypeField(t uint8) int {
	for k := 0; k < nKinds-1; k++ {
		if kindType[k] == int(t) {
			return k
		}
	}
	return kUnknown
}

// ---------------------------------------------------------------- wire formats

type ent struct {
	kind int
	hdr  fit.EntryHeaders
	data []byte
}

// size24 reads the 24-bit size from the raw bytes (not through fiano's own accessor, so that the
// canonical form of a header does not inherit a defect of Uint24.Uint32)
func size24(h fit.EntryHeaders) uint32 {
	return uint32(h.Size.Value[0]) | uint32(h.Size.Value[1])<<8 | uint32(h.Size.Value[2])<<16
}

func showHdr(h fit.EntryHeaders) string {
	return fmt.Sprintf("%d,%d,%d,%d,%d,%d", uint64(h.Address), size24(h), h.Reserved, uint16(h.Version),
		uint8(h.TypeAndIsChecksumValid), h.Checksum)
}

func showHdrs(hs []fit.EntryHeaders) string {
	if len(hs) == 0 {
		return "-"
	}
	var ss []string
	for _, h := range hs {
		ss = append(ss, showHdr(h))
	}
	return strings.Join(ss, ";")
}

func must(err error) {
	if err != nil {
		panic("harness: " + err.Error())
	}
}

func pu(s string, bits int) uint64 {
	v, err := strconv.ParseUint(s, 10, bits)
	must(err)
	return v
}

func parseHdrFields(f []string) fit.EntryHeaders {
	if len(f) != 6 {
		panic("harness: bad header on the wire")
	}
	var h fit.EntryHeaders
	h.Address = fit.Address64(pu(f[0], 64))
	sz := uint32(pu(f[1], 24))
	h.Size.Value = [3]byte{byte(sz), byte(sz >> 8), byte(sz >> 16)}
	h.Reserved = uint8(pu(f[2], 8))
	h.Version = fit.EntryVersion(pu(f[3], 16))
	h.TypeAndIsChecksumValid = fit.TypeAndIsChecksumValid(pu(f[4], 8))
	h.Checksum = uint8(pu(f[5], 8))
	return h
}

func parseHdr(s string) fit.EntryHeaders { return parseHdrFields(strings.Split(s, ",")) }

func parseHdrs(s string) []fit.EntryHeaders {
	if s == "-" || s == "" {
		return nil
	}
	var hs []fit.EntryHeaders
	for _, p := range strings.Split(s, ";") {
		hs = append(hs, parseHdr(p))
	}
	return hs
}

func showEnt(e ent) string {
	return fmt.Sprintf("%d,%s,%s", e.kind, showHdr(e.hdr), core.Hex(e.data))
}

func showEnts(es []ent) string {
	if len(es) == 0 {
		return "-"
	}
	var ss []string
	for _, e := range es {
		ss = append(ss, showEnt(e))
	}
	return strings.Join(ss, ";")
}

func parseEnts(s string) []ent {
	if s == "-" || s == "" {
		return nil
	}
	var es []ent
	for _, p := range strings.Split(s, ";") {
		f := strings.Split(p, ",")
		if len(f) != 8 {
			panic("harness: bad entry on the wire")
		}
		k, err := strconv.Atoi(f[0])
		must(err)
		es = append(es, ent{kind: k, hdr: parseHdrFields(f[1:7]), data: core.UnHex(f[7])})
	}
	return es
}

func toEntries(es []ent) fit.Entries {
	var out fit.Entries
	for _, e := range es {
		x := newEntry(e.kind)
		b := x.GetEntryBase()
		b.Headers = e.hdr
		if len(e.data) > 0 {
			b.DataSegmentBytes = append([]byte(nil), e.data...)
		}
		out = append(out, x)
	}
	return out
}

func fromEntries(es fit.Entries) []ent {
	var out []ent
	for _, e := range es {
		b := e.GetEntryBase()
		out = append(out, ent{kind: kindOf(e), hdr: b.Headers, data: b.DataSegmentBytes})
	}
	return out
}

// read-back entries: kind, header, data length:digest, error flag (Driver.showREntries)
func showREntries(es fit.Entries) string {
	if len(es) == 0 {
		return "-"
	}
	var ss []string
	for _, e := range es {
		b := e.GetEntryBase()
		herr := 0
		if len(b.HeadersErrors) > 0 {
			herr = 1
		}
		ss = append(ss, fmt.Sprintf("%d,%s,%d:%d,%d", kindOf(e), showHdr(b.Headers), len(b.DataSegmentBytes),
			core.FNV(b.DataSegmentBytes), herr))
	}
	return strings.Join(ss, ";")
}

// image recipe  g:<size>:<a>:<b>:<c>[/off=hex]*  |  x:<hex>[/off=hex]*
func buildImage(s string) []byte {
	parts := strings.Split(s, "/")
	f := strings.Split(parts[0], ":")
	var img []byte
	switch {
	case f[0] == "g" && len(f) == 5:
		n, a, b, c := int(pu(f[1], 31)), int(pu(f[2], 31)), int(pu(f[3], 31)), int(pu(f[4], 31))
		img = make([]byte, n)
		for i := range img {
			img[i] = byte((a*i + b + c*(i/256)) % 256)
		}
	case f[0] == "x" && len(f) == 2:
		img = append([]byte(nil), core.UnHex(f[1])...)
	default:
		panic("harness: bad image recipe")
	}
	for _, p := range parts[1:] {
		kv := strings.Split(p, "=")
		off := int(pu(kv[0], 31))
		d := core.UnHex(kv[1])
		if off+len(d) > len(img) {
			panic("harness: patch outside the image")
		}
		copy(img[off:], d)
	}
	return img
}

// ---------------------------------------------------------------- independent layout judgement

type rng struct{ lo, hi uint64 } // [lo, hi)

func overlaps(a, b rng) bool { return a.lo < b.hi && b.lo < a.hi }

// segment size an entry header announces, by the per-type conventions of the FIT specification
// as implemented (x16 default; bytes for KM / BPM / BIOS policy; none for FIT header and TXT;
// unsupported for TPM policy and diagnostic ACM; ACM self-described) — written here
// independently of the model, from the Go sources.
func announcedSize(h fit.EntryHeaders, data []byte) (size uint64, ok bool) {
	switch kindOfTypeField(uint8(h.TypeAndIsChecksumValid) & 0x7f) {
	case kFITHeader, kTXTPolicy:
		return 0, true
	case kTPMPolicy, kDiagACM:
		return 0, false
	case kKeyManifest, kBootPolicy, kBIOSPolicy:
		return uint64(size24(h)), true
	case kSACM:
		if len(data) < 28 {
			return 0, false
		}
		return uint64(binary.LittleEndian.Uint32(data[24:]) << 2), true
	}
	return uint64(size24(h)) << 4, true
}

// layoutValid decides whether (n, tbl, es) lies inside the property's quantifier: entry 0 carries
// the magic and the count, every entry is self-consistent (its data has the length its header
// announces, or it has no data and its header designates nothing readable inside the image),
// the Go type matches the TYPE field, and pointer, table and data ranges fit the image without
// overlapping.  Returns the written ranges too.
func layoutValid(n uint64, tbl uint64, es []ent) (bool, []rng) {
	var rs []rng
	if n >= 0x40 {
		rs = append(rs, rng{n - 0x40, n - 0x40 + 8})
	}
	rs = append(rs, rng{tbl, tbl + 16*uint64(len(es))})
	base := uint64(1<<32) - n
	valid := n >= 0x40 && len(es) > 0 && tbl <= n && tbl+16*uint64(len(es)) <= n
	for _, e := range es {
		off := uint64(e.hdr.Address) - base
		if len(e.data) > 0 {
			rs = append(rs, rng{off, off + uint64(len(e.data))})
		}
	}
	if len(es) > 0 {
		h0 := es[0].hdr
		if uint64(h0.Address) != binary.LittleEndian.Uint64([]byte("_FIT_   ")) || int(size24(h0)) != len(es) {
			valid = false
		}
	}
	for _, e := range es {
		t := uint8(e.hdr.TypeAndIsChecksumValid) & 0x7f
		if e.kind != kindOfTypeField(t) {
			valid = false
		}
		off := uint64(e.hdr.Address) - base
		sz, ok := announcedSize(e.hdr, e.data)
		if len(e.data) > 0 {
			if !ok || sz != uint64(len(e.data)) || off >= n || off+sz > n {
				valid = false
			}
		} else {
			// no data: nothing readable may be designated
			switch kindOfTypeField(t) {
			case kFITHeader, kTXTPolicy, kTPMPolicy, kDiagACM:
			case kSACM:
				so := off + 24
				if so < n && so+4 <= n { // the size field would be readable
					valid = false
				}
			default:
				if sz != 0 && off < n && off+sz <= n && off+sz >= off {
					valid = false
				}
			}
		}
	}
	for i := range rs {
		if rs[i].hi < rs[i].lo || rs[i].hi > n {
			valid = false
		}
		for j := i + 1; j < len(rs); j++ {
			if overlaps(rs[i], rs[j]) {
				valid = false
			}
		}
	}
	return valid, rs
}

// ---------------------------------------------------------------- running the implementation

func same(b bool) string {
	if b {
		return "same"
	}
	return "DIFFERENT"
}

// fail collapses the two failure classes for the comparison with the model: whether a hostile
// input is refused with an error or with a panic is C20's concern, not this property's
func fail(cls string) string {
	if cls == "ok" {
		return "ok"
	}
	return "fail"
}

// catch runs f and reports a panic as class "panic" (hostile inputs: C20's concern, here only
// compared with the model, as "fail")
func catch(f func() error) (class string) {
	defer func() {
		if r := recover(); r != nil {
			class = "panic"
		}
	}()
	if err := f(); err != nil {
		return "err"
	}
	return "ok"
}

type runner struct {
	out core.Outcome
}

func (r *runner) M(what, req, exp string) {
	r.out.Checks = append(r.out.Checks, core.Check{Tag: "M", What: what, Req: req, Exp: exp})
}
func (r *runner) O(what, exp, got string) {
	r.out.Checks = append(r.out.Checks, core.Check{Tag: "O", What: what, Exp: exp, Got: got})
}

func (prop) Run(c core.Case) core.Outcome {
	r := &runner{}
	switch c.Op {
	case "addr":
		r.runAddr(c)
	case "range":
		r.runRange(c)
	case "hdr":
		r.runHdr(c)
	case "hdrwrite":
		r.runHdrWrite(c)
	case "parsetable":
		r.runParseTable(c)
	case "fromjson":
		r.runFromJSON(c)
	case "recalc":
		r.runRecalc(c)
	case "inject":
		r.runInject(c)
	case "get":
		r.runGet(c)
	case "cmd":
		r.runCmd(c)
	case "biginject":
		r.runBigInject(c)
	case "injectseq":
		r.runInjectSeq(c)
	default:
		panic("harness: unknown op " + c.Op)
	}
	return r.out
}

func (r *runner) runAddr(c core.Case) {
	size, x := pu(c.Args["size"], 64), pu(c.Args["x"], 64)
	phys := fit.CalculatePhysAddrFromOffset(x, size)
	off := fit.CalculateOffsetFromPhysAddr(x, size)
	tail := fit.CalculateTailOffsetFromPhysAddr(x)
	r.M("addr", "addr "+c.Args["size"]+" "+c.Args["x"], fmt.Sprintf("%d %d %d", phys, off, tail))
	// oracles: mutually inverse, both directions (x as an offset, x as an address) …
	r.O("addr-off-inverse", c.Args["x"], fmt.Sprint(fit.CalculateOffsetFromPhysAddr(phys, size)))
	r.O("off-addr-inverse", c.Args["x"], fmt.Sprint(fit.CalculatePhysAddrFromOffset(off, size)))
	var a fit.Address64
	a.SetOffset(x, size)
	r.O("address64-setoffset-offset", c.Args["x"], fmt.Sprint(a.Offset(size)))
	r.out.Class = "addr:outside"
	if size <= 1<<32 && x < size {
		// … and for an offset inside an image that ends at 4 GiB the address lies inside
		// [4GiB-size, 4GiB) at the same distance from the end
		r.out.Class = "addr:inside"
		r.O("addr-in-window", "true", fmt.Sprint(phys >= (1<<32)-size && phys < 1<<32))
		r.O("addr-tail", fmt.Sprint(size-x), fmt.Sprint(fit.CalculateTailOffsetFromPhysAddr(phys)))
	}
}

func (r *runner) runRange(c core.Case) {
	l, s, e := pu(c.Args["len"], 63), pu(c.Args["s"], 64), pu(c.Args["e"], 64)
	err := check.BytesRange(uint(l), int(s), int(e))
	r.M("bytesrange", "range "+c.Args["len"]+" "+c.Args["s"]+" "+c.Args["e"], core.ErrClass(err))
	r.out.Class = "range:" + core.ErrClass(err)
}

// canonical JSON of a header in the model's key order; unexpected keys are appended sorted
func canonJSON(text []byte) (string, error) {
	var m map[string]json.RawMessage
	if err := json.Unmarshal(text, &m); err != nil {
		return "", err
	}
	js := func(raw json.RawMessage) string {
		s := strings.TrimSpace(string(raw))
		switch s {
		case "true":
			return "t"
		case "false":
			return "f"
		}
		if _, err := strconv.ParseUint(s, 10, 64); err == nil {
			return "n" + s
		}
		return "?" + s
	}
	var parts []string
	used := map[string]bool{}
	for _, k := range []string{"Address", "Size", "Reserved", "Version", "Type", "IsChecksumValid", "Checksum"} {
		raw, ok := m[k]
		if !ok {
			continue
		}
		used[k] = true
		if k == "Version" {
			var vm map[string]json.RawMessage
			if err := json.Unmarshal(raw, &vm); err != nil {
				return "", err
			}
			var vp []string
			vused := map[string]bool{}
			for _, vk := range []string{"maj", "min"} {
				if vr, ok := vm[vk]; ok {
					vp = append(vp, vk+"="+js(vr))
					vused[vk] = true
				}
			}
			var extra []string
			for vk := range vm {
				if !vused[vk] {
					extra = append(extra, vk+"="+js(vm[vk]))
				}
			}
			sort.Strings(extra)
			parts = append(parts, "Version{"+strings.Join(append(vp, extra...), ".")+"}")
			continue
		}
		parts = append(parts, k+"="+js(raw))
	}
	var extra []string
	for k := range m {
		if !used[k] {
			extra = append(extra, k+"="+js(m[k]))
		}
	}
	sort.Strings(extra)
	parts = append(parts, extra...)
	if len(parts) == 0 {
		return "-", nil
	}
	return strings.Join(parts, ","), nil
}

func (r *runner) runHdr(c core.Case) {
	h := parseHdr(c.Args["hdr"])
	var buf bytes.Buffer
	n, err := h.WriteTo(&buf)
	must(err)
	r.M("hdr-encode", "hdrenc "+c.Args["hdr"], fmt.Sprintf("%s %d", core.Hex(buf.Bytes()), h.CalculateChecksum()))
	r.O("hdr-encode-size", "16 16", fmt.Sprintf("%d %d", n, buf.Len()))
	// oracle: binary encode → decode is the identity
	back, err := fit.ParseEntryHeadersFrom(bytes.NewReader(buf.Bytes()))
	must(err)
	r.O("hdr-bin-roundtrip", showHdr(h), showHdr(*back))
	r.M("hdr-decode", "hdrdec "+core.Hex(buf.Bytes()), showHdr(*back))
	// oracle: JSON encode → decode is the identity
	text, err := json.Marshal(h)
	must(err)
	cj, err := canonJSON(text)
	must(err)
	r.M("hdr-tojson", "tojson "+c.Args["hdr"], cj)
	var hj fit.EntryHeaders
	cls := catch(func() error { return json.Unmarshal(text, &hj) })
	r.O("hdr-json-roundtrip", "ok "+showHdr(h), cls+" "+showHdr(hj))
	// the same through a table (array of headers)
	ttext, err := json.Marshal(fit.Table{h, h})
	must(err)
	var tj fit.Table
	cls = catch(func() error { return json.Unmarshal(ttext, &tj) })
	r.O("table-json-roundtrip", "ok "+showHdrs([]fit.EntryHeaders{h, h}), cls+" "+showHdrs(tj))
	// oracle: the []byte flavour of the binary encoder (EntryHeaders.Write) stores the same 16
	// bytes in the caller's buffer
	b := make([]byte, 16)
	wn, werr := h.Write(b)
	back2, perr := fit.ParseEntryHeadersFrom(bytes.NewReader(b))
	must(perr)
	r.O("hdr-write-roundtrip", "16 ok "+showHdr(h), fmt.Sprintf("%d %s %s", wn, core.ErrClass(werr), showHdr(*back2)))
	r.out.Class = fmt.Sprintf("hdr:type=%s", typeClass(uint8(h.TypeAndIsChecksumValid)&0x7f))
	r.out.Key = c.Args["hdr"]
}

func typeClass(t uint8) string {
	k := kindOfTypeField(t)
	if k == kUnknown {
		return "unknown"
	}
	return fmt.Sprintf("%#02x", t)
}

func (r *runner) runHdrWrite(c core.Case) {
	hs := parseHdrs(c.Args["hdrs"])
	b0 := core.UnHex(c.Args["b"])
	// EntryHeaders.Write on a buffer of exactly this length (cap == len)
	if len(hs) > 0 {
		b := append(make([]byte, 0, len(b0)), b0...)
		n, err := hs[0].Write(b)
		exp := "err"
		if err == nil {
			exp = "ok " + core.Hex(b)
			back, perr := fit.ParseEntryHeadersFrom(bytes.NewReader(b))
			if perr == nil {
				r.O("hdr-write-roundtrip", "16 "+showHdr(hs[0]), fmt.Sprintf("%d %s", n, showHdr(*back)))
			} else {
				r.O("hdr-write-roundtrip", "16 "+showHdr(hs[0]), fmt.Sprintf("%d buffer too short to hold a header, yet no error", n))
			}
			r.O("hdr-write-confined", "same", same(bytes.Equal(b[min(16, len(b)):], b0[min(16, len(b)):])))
		} else {
			r.O("hdr-write-refused-untouched", "same", same(bytes.Equal(b, b0)))
		}
		r.M("hdr-write", "hdrwrite "+c.Args["b"]+" "+showHdr(hs[0]), exp)
	}
	// Table.Write
	b := append(make([]byte, 0, len(b0)), b0...)
	n, err := fit.Table(hs).Write(b)
	r.M("table-write", "tblwrite "+c.Args["b"]+" "+c.Args["hdrs"], fmt.Sprintf("%s %d %s", core.ErrClass(err), n, core.Hex(b)))
	r.out.Class = "tblwrite:" + core.ErrClass(err)
	if err == nil {
		// oracle: what was written decodes to the same table, the rest of b is untouched
		r.O("table-write-count", fmt.Sprint(16*len(hs)), fmt.Sprint(n))
		if n <= len(b) {
			back, perr := fit.ParseTable(b[:n])
			r.O("table-write-roundtrip", "ok "+showHdrs(hs), core.ErrClass(perr)+" "+showHdrs(back))
			r.O("table-write-confined", "same", same(bytes.Equal(b[n:], b0[n:])))
		} else {
			r.O("table-write-roundtrip", "ok "+showHdrs(hs), fmt.Sprintf("claims %d bytes written into a buffer of %d", n, len(b)))
		}
	}
	r.out.Trivial = len(hs) == 0
}

func (r *runner) runParseTable(c core.Case) {
	b := core.UnHex(c.Args["b"])
	t, err := fit.ParseTable(b)
	if err != nil {
		r.M("parsetable", "parsetable "+c.Args["b"], "err")
		r.out.Class = "parsetable:err"
		r.O("parsetable-error-justified", "true", fmt.Sprint(len(b)%16 != 0))
		return
	}
	r.M("parsetable", "parsetable "+c.Args["b"], "ok "+showHdrs(t))
	r.out.Class = "parsetable:ok"
	// oracle: decode → encode gives the bytes back
	var buf bytes.Buffer
	_, werr := t.WriteTo(&buf)
	must(werr)
	r.O("table-bin-roundtrip", core.Hex(b), core.Hex(buf.Bytes()))
	r.out.Trivial = len(b) == 0
}

// wire → JSON text
func wireToJSON(s string) string {
	if s == "-" {
		return "{}"
	}
	val := func(v string) string {
		switch {
		case v == "t":
			return "true"
		case v == "f":
			return "false"
		case strings.HasPrefix(v, "n"):
			return v[1:]
		}
		panic("harness: bad json wire value " + v)
	}
	var parts []string
	for _, f := range strings.Split(s, ",") {
		if strings.HasSuffix(f, "}") {
			i := strings.Index(f, "{")
			inner := f[i+1 : len(f)-1]
			var ip []string
			if inner != "" {
				for _, g := range strings.Split(inner, ".") {
					kv := strings.SplitN(g, "=", 2)
					ip = append(ip, fmt.Sprintf("%q:%s", kv[0], val(kv[1])))
				}
			}
			parts = append(parts, fmt.Sprintf("%q:{%s}", f[:i], strings.Join(ip, ",")))
			continue
		}
		kv := strings.SplitN(f, "=", 2)
		parts = append(parts, fmt.Sprintf("%q:%s", kv[0], val(kv[1])))
	}
	return "{" + strings.Join(parts, ",") + "}"
}

func (r *runner) runFromJSON(c core.Case) {
	text := wireToJSON(c.Args["obj"])
	var h fit.EntryHeaders
	cls := catch(func() error { return json.Unmarshal([]byte(text), &h) })
	exp := fail(cls)
	if cls == "ok" {
		exp = "ok " + showHdr(h)
		// oracle: decode → encode → decode is stable
		t2, err := json.Marshal(h)
		must(err)
		var h2 fit.EntryHeaders
		cls2 := catch(func() error { return json.Unmarshal(t2, &h2) })
		r.O("json-decode-encode-decode", "ok "+showHdr(h), cls2+" "+showHdr(h2))
	}
	r.M("fromjson", "fromjson "+c.Args["obj"], exp)
	r.out.Class = "fromjson:" + cls
}

func (r *runner) runRecalc(c core.Case) {
	es := parseEnts(c.Args["entries"])
	entries := toEntries(es)
	cls := catch(func() error { return entries.RecalculateHeaders() })
	exp := fail(cls)
	if cls == "ok" {
		exp = "ok " + showEnts(fromEntries(entries))
		r.recalcOracles(es, fromEntries(entries))
	}
	r.M("recalc", "recalc "+c.Args["entries"], exp)
	r.out.Class = "recalc:" + cls
	r.out.Trivial = len(es) == 0
}

// what the property says about recomputed headers: entry 0 carries the magic and the count
func (r *runner) recalcOracles(before, after []ent) {
	if len(after) == 0 {
		return
	}
	var ab [8]byte
	binary.LittleEndian.PutUint64(ab[:], uint64(after[0].hdr.Address))
	r.O("recalc-entry0-magic-count", fmt.Sprintf("_FIT_    %d", len(after)),
		fmt.Sprintf("%s %d", ab[:], size24(after[0].hdr)))
	r.O("recalc-keeps-order", fmt.Sprint(kindsOf(before)), fmt.Sprint(kindsOf(after)))
}

// describable: data RecalculateHeaders can express in the header (a multiple of 16 bytes for the
// x16 types, any length for the byte-counted ones, none for FIT header / TXT; an ACM describes
// itself and needs its TYPE preset because its CustomRecalculateHeaders only clears Size)
func describable(es []ent) bool {
	for i, e := range es {
		switch {
		case i == 0 && e.kind != kFITHeader:
			return false
		case e.kind == kFITHeader || e.kind == kTXTPolicy:
			if len(e.data) != 0 && e.kind == kFITHeader {
				return false
			}
		case e.kind == kSACM:
			if uint8(e.hdr.TypeAndIsChecksumValid)&0x7f != 0x02 {
				return false
			}
			if len(e.data) > 0 {
				if sz, ok := announcedSize(e.hdr, e.data); !ok || sz != uint64(len(e.data)) {
					return false
				}
			}
		case isByteKind(e.kind):
		case isDefaultKind(e.kind) && e.kind != kUnknown:
			if len(e.data)%16 != 0 {
				return false
			}
		default:
			return false
		}
	}
	return true
}

func kindsOf(es []ent) []int {
	var ks []int
	for _, e := range es {
		ks = append(ks, e.kind)
	}
	return ks
}

func (r *runner) runInject(c core.Case) {
	img := buildImage(c.Args["img"])
	tbl := pu(c.Args["tbl"], 64)
	es := parseEnts(c.Args["entries"])
	entries := toEntries(es)
	n := uint64(len(img))
	pre := ""
	if c.Args["recalc"] == "1" {
		// the documented pipeline: RecalculateHeaders, then Inject
		cls := catch(func() error { return entries.RecalculateHeaders() })
		exp := fail(cls)
		if cls == "ok" {
			exp = "ok " + showEnts(fromEntries(entries))
		}
		r.M("recalc", "recalc "+c.Args["entries"], exp)
		if cls != "ok" {
			r.out.Class = "inject:recalc-" + cls
			return
		}
		after := fromEntries(entries)
		r.recalcOracles(es, after)
		describable := describable(es)
		es = nil
		for _, e := range after {
			es = append(es, ent{e.kind, e.hdr, append([]byte(nil), e.data...)})
		}
		pre = "recalc+"
		if describable {
			// headers recomputed from describable data describe it: the recomputed entries are
			// self-consistent, so a layout that was free of overlap stays inside the quantifier
			v, _ := layoutValid(n, tbl, es)
			if c.Kind == "inject-pipeline" {
				r.O("recalc-yields-valid-layout", "true", fmt.Sprint(v))
			}
		}
	}
	sf := newScratchFile(img)
	defer sf.close()
	res := r.injectRound(img, sf, c.Args["img"], tbl, es, "")
	vs := "invalid"
	if res.valid {
		vs = "valid"
	}
	r.out.Class = fmt.Sprintf("inject:%s%s,inject=%s,get=%s", pre, vs, res.injCls, res.getCls)
}

func (r *runner) runGet(c core.Case) {
	img := buildImage(c.Args["img"])
	orig := append([]byte(nil), img...)
	s, e, rerr := fit.GetHeadersTableRangeFrom(bytes.NewReader(img))
	tr := "err"
	if rerr == nil {
		tr = fmt.Sprintf("ok %d %d", s, e)
	}
	var got fit.Entries
	gcls := catch(func() error {
		var err error
		got, err = fit.GetEntries(img)
		return err
	})
	rd := gcls
	if gcls == "ok" {
		rd = "ok " + showREntries(got)
	}
	if gcls != "ok" {
		rd = "err"
	}
	r.M("get", "get "+c.Args["img"], tr+" "+rd)
	r.out.Class = "get:" + gcls
	// the other entrances (readers.go): the model's answer holds for each of them, and whatever
	// they report is what the image holds
	sf := newScratchFile(img)
	defer sf.close()
	for _, rb := range readFlavours(img, sf.f) {
		rd := "err"
		if rb.cls == "ok" {
			rd = "ok " + showREntries(rb.es)
			r.O("get-reports-image["+rb.name+"]", "same", holdsImage(img, rb.trng, rb.es))
		}
		r.M("get["+rb.name+"]", "get "+c.Args["img"], rb.trng+" "+rd)
	}
	r.O("get-input-untouched", "same", same(bytes.Equal(img, orig)))
	r.O("get-input-untouched[file]", fmt.Sprintf("%d same", len(orig)), fmt.Sprintf("%d %s", sf.size(), same(bytes.Equal(sf.prefix(len(orig)), orig))))
	if gcls == "ok" {
		// oracle: what is reported is what the image holds — table inside the image, headers are
		// the table bytes, every data segment is the image bytes at the address-derived offset
		ok := rerr == nil && e <= uint64(len(img)) && s <= e && int(e-s) == 16*len(got)
		r.O("get-table-inside", "true", fmt.Sprint(ok))
		if ok {
			var buf bytes.Buffer
			_, err := got.Table().WriteTo(&buf)
			must(err)
			r.O("get-headers-are-bytes", core.Hex(img[s:e]), core.Hex(buf.Bytes()))
			base := uint64(1<<32) - uint64(len(img))
			for i, x := range got {
				b := x.GetEntryBase()
				if len(b.DataSegmentBytes) > 0 {
					off := uint64(b.Headers.Address) - base
					end := off + uint64(len(b.DataSegmentBytes))
					if end < off || end > uint64(len(img)) || !bytes.Equal(img[off:end], b.DataSegmentBytes) {
						r.O("get-data-are-bytes", "image bytes at the offset", fmt.Sprintf("entry %d: differs", i))
					}
				}
				if kindOf(x) != kindOfTypeField(uint8(b.Headers.TypeAndIsChecksumValid)&0x7f) {
					r.O("get-kind", fmt.Sprint(kindOfTypeField(uint8(b.Headers.TypeAndIsChecksumValid)&0x7f)), fmt.Sprint(kindOf(x)))
				}
			}
		}
	}
}

// ---------------------------------------------------------------- Gen

func (p prop) Gen(rd *rand.Rand, tier string) []core.Case {
	g := &gen{r: rd}
	scale := 1
	if tier == "thorough" {
		scale = 25
	}
	g.genAddr(60 * scale)
	g.genRange(40 * scale)
	g.genHdr(80 * scale)
	g.genHdrWrite(40 * scale)
	g.genParseTable(30 * scale)
	g.genFromJSON(60 * scale)
	g.genRecalc(60 * scale)
	g.genInject(420 * scale)
	g.genMultiData(40 * scale)
	g.genInjectSeq(40 * scale)
	g.genGet(80 * scale)
	g.genCmd(60 * scale)
	if tier == "thorough" {
		g.genBig(80)
	} else {
		g.genBig(12)
	}
	return g.cs
}

// Shrink: drop one entry (fixing up the count of a FIT header entry 0).
func (prop) Shrink(c core.Case) []core.Case {
	var keys []string
	switch c.Op {
	case "inject", "recalc":
		keys = []string{"entries"}
	case "injectseq":
		keys = []string{"entries2", "entries"}
	default:
		return nil
	}
	var out []core.Case
	for _, key := range keys {
		es := parseEnts(c.Args[key])
		for i := len(es) - 1; i >= 1; i-- {
			var es2 []ent
			es2 = append(es2, es[:i]...)
			es2 = append(es2, es[i+1:]...)
			if int(size24(es2[0].hdr)) == len(es) {
				setSize(&es2[0].hdr, len(es2))
			}
			a := map[string]string{}
			for k, v := range c.Args {
				a[k] = v
			}
			a[key] = showEnts(es2)
			out = append(out, core.Case{Kind: c.Kind, Op: c.Op, Args: a})
		}
	}
	return out
}
