package c14

import (
	"bytes"
	"encoding/binary"
	"fmt"
	"io"
	"os"

	"github.com/linuxboot/fiano/pkg/intel/metadata/fit"

	"verif/harness/core"
)

// "Reading the FIT back" has more than one entrance.  fit.GetEntries([]byte) wraps the image into a
// *bytesextra.ReadWriteSeeker, and for that one type the package SLICES the image; every other
// io.ReadSeeker (a bytes.Reader, an os.File — what cmds/fittool uses) goes through the COPY path
// (copyBytesFrom / readBytesFromReader).  The property speaks about reading back, not about one of
// the entrances, so every inject / get case is read through all of them:
//
//	bytes        fit.GetEntries(img)                               (slice path; also sent to the model)
//	table.bytes  fit.GetTable(img) then Table.GetEntries(img)      (slice path, the Table method)
//	reader       fit.GetEntriesFrom(*bytes.Reader)                 (copy path; reader left at a non-zero position first)
//	chunked      fit.GetTableFrom + EntryHeaders.GetEntryFrom over a reader that offers nothing but
//	             Read and Seek and hands out at most 13 bytes per Read (short reads are legal for an io.Reader)
//	file         fit.GetEntriesFrom(*os.File)                      (copy path; the handle InjectTo wrote through)
//
// All flavours are read FIRST and compared afterwards, and one more read follows the last flavour:
// a result that shares storage with a later read (a reused buffer) shows only after that later read.

// plainRS offers Read and Seek only (no ReadAt / WriteTo / Len), optionally with short reads.
type plainRS struct {
	r     *bytes.Reader
	chunk int
}

func (p *plainRS) Read(b []byte) (int, error) {
	if p.chunk > 0 && len(b) > p.chunk {
		b = b[:p.chunk]
	}
	return p.r.Read(b)
}

func (p *plainRS) Seek(off int64, whence int) (int64, error) { return p.r.Seek(off, whence) }

type readBack struct {
	name  string
	cls   string // ok / err / panic of the entry read
	es    fit.Entries
	tcls  string // the same for the table read
	table fit.Table
	trng  string // "ok s e" / "err": GetHeadersTableRangeFrom through the same kind of reader
	// copies: the flavour must hand out storage of its own (there is no image slice to share)
	copies bool
}

func tableRange(rs io.ReadSeeker) string {
	var s, e uint64
	cls := catch(func() error {
		var err error
		s, e, err = fit.GetHeadersTableRangeFrom(rs)
		return err
	})
	if cls != "ok" {
		return "err"
	}
	return fmt.Sprintf("ok %d %d", s, e)
}

// readFlavours reads the FIT of img (and of the file f, if given) through every entrance but
// "bytes" (the caller has that one already), then once more to disturb the last result.
func readFlavours(img []byte, f *os.File) []readBack {
	var out []readBack
	n := int64(len(img))

	// table.bytes
	{
		rb := readBack{name: "table.bytes", cls: "err"}
		rb.tcls = catch(func() error {
			var err error
			rb.table, err = fit.GetTable(img)
			return err
		})
		if rb.tcls == "ok" {
			rb.cls = catch(func() error { rb.es = rb.table.GetEntries(img); return nil })
		}
		rb.trng = tableRange(bytes.NewReader(img))
		out = append(out, rb)
	}
	// reader: a *bytes.Reader that was used before (its position must not matter)
	{
		rb := readBack{name: "reader", copies: true}
		rs := bytes.NewReader(img)
		_, _ = rs.Seek(n/3, io.SeekStart)
		rb.cls = catch(func() error {
			var err error
			rb.es, err = fit.GetEntriesFrom(rs)
			return err
		})
		rb.tcls = catch(func() error {
			var err error
			rb.table, err = fit.GetTableFrom(rs)
			return err
		})
		rb.trng = tableRange(rs)
		out = append(out, rb)
	}
	// chunked: Read+Seek only, short reads, entry by entry
	{
		rb := readBack{name: "chunked", cls: "err", copies: true}
		rs := &plainRS{r: bytes.NewReader(img), chunk: 13}
		_, _ = rs.Seek(n-n/4, io.SeekStart)
		rb.tcls = catch(func() error {
			var err error
			rb.table, err = fit.GetTableFrom(rs)
			return err
		})
		if rb.tcls == "ok" {
			rb.cls = catch(func() error {
				for i := range rb.table {
					rb.es = append(rb.es, rb.table[i].GetEntryFrom(rs))
				}
				return nil
			})
		}
		rb.trng = tableRange(rs)
		out = append(out, rb)
	}
	// file
	if f != nil {
		rb := readBack{name: "file", copies: true}
		rb.cls = catch(func() error {
			var err error
			rb.es, err = fit.GetEntriesFrom(f)
			return err
		})
		rb.tcls = catch(func() error {
			var err error
			rb.table, err = fit.GetTableFrom(f)
			return err
		})
		rb.trng = tableRange(f)
		out = append(out, rb)
	}
	// one more read after the last flavour
	_ = catch(func() error { _, err := fit.GetEntriesFrom(&plainRS{r: bytes.NewReader(img)}); return err })
	return out
}

// diffEntries compares read-back entries with the expected ones: "same" or the first difference
// (Go type of the TYPE field, header, data bytes; in order).
func diffEntries(want []ent, got fit.Entries) string {
	if len(want) != len(got) {
		return fmt.Sprintf("%d entries instead of %d", len(got), len(want))
	}
	for i, w := range want {
		b := got[i].GetEntryBase()
		wk := kindOfTypeField(uint8(w.hdr.TypeAndIsChecksumValid) & 0x7f)
		if kindOf(got[i]) != wk {
			return fmt.Sprintf("entry %d: Go type of kind %d instead of %d", i, kindOf(got[i]), wk)
		}
		if showHdr(b.Headers) != showHdr(w.hdr) {
			return fmt.Sprintf("entry %d: header %s instead of %s", i, showHdr(b.Headers), showHdr(w.hdr))
		}
		if !bytes.Equal(b.DataSegmentBytes, w.data) {
			d := 0
			for d < len(w.data) && d < len(b.DataSegmentBytes) && w.data[d] == b.DataSegmentBytes[d] {
				d++
			}
			return fmt.Sprintf("entry %d (kind %d): data of %d bytes instead of %d, first difference at byte %d",
				i, wk, len(b.DataSegmentBytes), len(w.data), d)
		}
	}
	return "same"
}

// holdsImage: what a read reports is what the image holds — the headers are the table bytes at
// [s,e), every non-empty data segment is the image bytes at its address-derived offset, the Go
// type is the one registered for the TYPE field.  "same" or the first difference.
func holdsImage(img []byte, trng string, got fit.Entries) string {
	var s, e uint64
	if _, err := fmt.Sscanf(trng, "ok %d %d", &s, &e); err != nil {
		return "entries reported although the table range is refused"
	}
	if e > uint64(len(img)) || s > e || e-s != 16*uint64(len(got)) {
		return fmt.Sprintf("table range [%d,%d) does not hold %d entries inside %d bytes", s, e, len(got), len(img))
	}
	var buf bytes.Buffer
	if _, err := got.Table().WriteTo(&buf); err != nil {
		return "headers cannot be encoded"
	}
	if !bytes.Equal(buf.Bytes(), img[s:e]) {
		return "headers are not the table bytes"
	}
	base := uint64(1<<32) - uint64(len(img))
	for i, x := range got {
		b := x.GetEntryBase()
		if len(b.DataSegmentBytes) > 0 {
			off := uint64(b.Headers.Address) - base
			end := off + uint64(len(b.DataSegmentBytes))
			if end < off || end > uint64(len(img)) || !bytes.Equal(img[off:end], b.DataSegmentBytes) {
				return fmt.Sprintf("entry %d: %d data bytes that are not the image bytes at offset %d", i, len(b.DataSegmentBytes), off)
			}
		}
		if k := kindOfTypeField(uint8(b.Headers.TypeAndIsChecksumValid) & 0x7f); kindOf(x) != k {
			return fmt.Sprintf("entry %d: Go type of kind %d instead of %d", i, kindOf(x), k)
		}
	}
	return "same"
}

// snapshot of read-back entries (deep copy), for "a result does not change behind the caller's back"
func snapshot(es fit.Entries) []ent {
	var out []ent
	for _, e := range es {
		b := e.GetEntryBase()
		out = append(out, ent{kind: kindOf(e), hdr: b.Headers, data: append([]byte(nil), b.DataSegmentBytes...)})
	}
	return out
}

// ---------------------------------------------------------------- the image as a file

type scratchFile struct {
	f    *os.File
	path string
}

func newScratchFile(content []byte) *scratchFile {
	f, err := os.CreateTemp("", "c14-img-*.rom")
	must(err)
	_, err = f.Write(content)
	must(err)
	return &scratchFile{f: f, path: f.Name()}
}

func (s *scratchFile) close() {
	s.f.Close()
	os.Remove(s.path)
}

func (s *scratchFile) size() int64 {
	st, err := s.f.Stat()
	must(err)
	return st.Size()
}

// prefix reads the first n bytes (or fewer, if the file is shorter) without moving the handle
func (s *scratchFile) prefix(n int) []byte {
	b := make([]byte, n)
	m, err := s.f.ReadAt(b, 0)
	if err != nil && err != io.EOF {
		must(err)
	}
	return b[:m]
}

// fileFlavourApplies: a write target far past the end would make os.File create a huge sparse
// file (an os.File grows where the fixed buffer of Inject([]byte) refuses); the property says
// nothing about such layouts, so the file flavour is left out there.  Targets that do not fit an
// int64 are refused by Seek and are kept.
func fileFlavourApplies(n uint64, ranges []rng) bool {
	for _, g := range ranges {
		for _, p := range []uint64{g.lo, g.hi} {
			if p > n+65536 && p < 1<<63 {
				return false
			}
		}
	}
	return true
}

func firstOutside(before, after []byte, ranges []rng) int {
	if bytes.Equal(before, after) {
		return -1
	}
	return diffOutside(before, after, ranges...)
}

// ---------------------------------------------------------------- one inject + read-back round

type roundResult struct {
	valid   bool
	injCls  string
	getCls  string
	copied  map[string][]ent // what the copying flavours handed out (snapshot at read time)
	handed  map[string]fit.Entries
	fileLen int64
}

// injectRound injects es at tbl into img (in place, through Inject([]byte)) and into the scratch
// file (through InjectTo on the open handle), reads everything back through every flavour and
// states the property's conclusions.  imgRecipe != "" additionally sends the case to the model.
// sfx distinguishes the rounds of a sequence in the names of the checks.
func (r *runner) injectRound(img []byte, sf *scratchFile, imgRecipe string, tbl uint64, es []ent, sfx string) roundResult {
	n := uint64(len(img))
	orig := append([]byte(nil), img...)
	valid, ranges := layoutValid(n, tbl, es)
	res := roundResult{valid: valid, copied: map[string][]ent{}, handed: map[string]fit.Entries{}}
	if imgRecipe != "" {
		// the harness' judgement of "inside the quantifier" against the hypothesis of the theorems
		r.M("valid-layout"+sfx, fmt.Sprintf("valid %d %d %s", n, tbl, showEnts(es)), fmt.Sprint(valid))
	}
	entries := toEntries(es)
	err := entries.Inject(img, tbl)
	res.injCls = core.ErrClass(err)
	got, gerr := fit.GetEntries(img)
	res.getCls = core.ErrClass(gerr)
	if imgRecipe != "" {
		rd := "err"
		if gerr == nil {
			rd = "ok " + showREntries(got)
		}
		r.M("inject+get"+sfx, "inject "+imgRecipe+" "+fmt.Sprint(tbl)+" "+showEnts(es),
			fmt.Sprintf("%s %d %s", core.ErrClass(err), core.FNV(img), rd))
	}
	// the same injection through InjectTo on a file holding the same image; the handle is used as
	// it is (wherever earlier calls left its position)
	var fileImg, fileOrig []byte
	fcls := ""
	useFile := sf != nil && fileFlavourApplies(n, ranges) && sf.size() == int64(n)
	if useFile {
		fileOrig = sf.prefix(len(img))
		fe := toEntries(es)
		fcls = catch(func() error { return fe.InjectTo(sf.f, tbl) })
		res.fileLen = sf.size()
		fileImg = sf.prefix(len(img))
	}
	var rbs []readBack
	if useFile && res.fileLen == int64(n) {
		rbs = readFlavours(img, sf.f)
	} else {
		rbs = readFlavours(img, nil)
	}

	// ---- every layout, also refused / partial injections: only the pointer, the table and the
	// data ranges are modified
	r.O("inject-frame"+sfx, "-1", fmt.Sprint(firstOutside(orig, img, ranges)))
	r.O("inject-keeps-size"+sfx, fmt.Sprint(len(orig)), fmt.Sprint(len(img)))
	if useFile {
		// a file grows where the fixed buffer clips or refuses, and InjectTo places the data
		// segments relative to the size it finds at that moment: the ranges above are those of
		// the property only as long as the file keeps its size
		r.O("inject-never-shrinks[file]"+sfx, "true", fmt.Sprint(res.fileLen >= int64(n)))
		if res.fileLen == int64(n) {
			r.O("inject-frame[file]"+sfx, "-1", fmt.Sprint(firstOutside(fileOrig, fileImg, ranges)))
		}
	}
	// ---- every layout: whatever a flavour reports is what the image holds
	for _, rb := range rbs {
		if rb.cls == "ok" {
			image := img
			if rb.name == "file" {
				image = fileImg
			}
			r.O("get-reports-image["+rb.name+"]"+sfx, "same", holdsImage(image, rb.trng, rb.es))
		}
		if rb.copies && rb.cls == "ok" {
			res.handed[rb.name] = rb.es
			res.copied[rb.name] = snapshot(rb.es)
		}
	}
	if !valid {
		return res
	}
	// ---- inside the quantifier: the property's conclusions, on the implementation's output
	conclusions := func(fl string, image []byte, injCls string) {
		r.O("inject-ok"+fl+sfx, "ok", injCls)
		if uint64(len(image)) != n {
			r.O("inject-keeps-size"+fl+sfx, fmt.Sprint(n), fmt.Sprint(len(image)))
			return
		}
		// the FIT pointer 0x40 before the end designates the table
		ptr := binary.LittleEndian.Uint64(image[n-0x40:])
		r.O("pointer-designates-table"+fl+sfx, fmt.Sprint(uint64(1<<32)-n+tbl), fmt.Sprint(ptr))
		// entry 0 carries the magic and the entry count
		r.O("entry0-magic-count"+fl+sfx, fmt.Sprintf("_FIT_    %d", len(es)),
			fmt.Sprintf("%s %d", image[tbl:tbl+8], int(image[tbl+8])|int(image[tbl+9])<<8|int(image[tbl+10])<<16))
		// every data range now holds the data
		for i, x := range es {
			if len(x.data) > 0 {
				off := uint64(x.hdr.Address) - (uint64(1<<32) - n)
				if !bytes.Equal(image[off:off+uint64(len(x.data))], x.data) {
					r.O("data-stored"+fl+sfx, "entry data at its offset", fmt.Sprintf("entry %d differs at offset %d", i, off))
				}
			}
		}
	}
	conclusions("", img, core.ErrClass(err))
	r.O("get-ok"+sfx, "ok", core.ErrClass(gerr))
	s, e, rerr := fit.GetHeadersTableRangeFrom(bytes.NewReader(img))
	wantRange := fmt.Sprintf("ok %d %d", tbl, tbl+16*uint64(len(es)))
	r.O("table-range"+sfx, wantRange, fmt.Sprintf("%s %d %d", core.ErrClass(rerr), s, e))
	var hs []fit.EntryHeaders
	for _, x := range es {
		hs = append(hs, x.hdr)
	}
	// same headers, same order, same data bytes, the Go type of the TYPE field
	if gerr == nil {
		var want, have []string
		// (data in full, or as length:digest when the image is large)
		data := func(d []byte) string {
			if n > 1<<17 {
				return fmt.Sprintf("%d:%d", len(d), core.FNV(d))
			}
			return core.Hex(d)
		}
		for _, x := range es {
			want = append(want, fmt.Sprintf("%d,%s,%s", kindOfTypeField(uint8(x.hdr.TypeAndIsChecksumValid)&0x7f), showHdr(x.hdr), data(x.data)))
		}
		for _, x := range got {
			b := x.GetEntryBase()
			have = append(have, fmt.Sprintf("%d,%s,%s", kindOf(x), showHdr(b.Headers), data(b.DataSegmentBytes)))
		}
		r.O("inject-get"+sfx, joinSemi(want), joinSemi(have))
	}
	// GetTable gives the same headers
	t, terr := fit.GetTable(img)
	r.O("get-table"+sfx, "ok "+showHdrs(hs), core.ErrClass(terr)+" "+showHdrs(t))
	if useFile {
		conclusions("[file]", fileImg, fcls)
		r.O("inject-keeps-size[file]"+sfx, fmt.Sprint(n), fmt.Sprint(res.fileLen))
	}
	// … and the same through every other entrance
	for _, rb := range rbs {
		fl := "[" + rb.name + "]"
		r.O("get-ok"+fl+sfx, "ok", rb.cls)
		if rb.cls == "ok" {
			r.O("inject-get"+fl+sfx, "same", diffEntries(es, rb.es))
		}
		r.O("get-table"+fl+sfx, "ok "+showHdrs(hs), rb.tcls+" "+showHdrs(rb.table))
		r.O("table-range"+fl+sfx, wantRange, rb.trng)
	}
	return res
}

func joinSemi(ss []string) string {
	out := ""
	for i, s := range ss {
		if i > 0 {
			out += ";"
		}
		out += s
	}
	return out
}

// stillHolds: entries a copying flavour handed out earlier still are what they were when they
// were handed out (nothing the caller did since touches them: they are not slices of the caller's
// buffer)
func (r *runner) stillHolds(res roundResult, sfx string) {
	for _, name := range []string{"reader", "chunked", "file"} {
		es, ok := res.handed[name]
		if !ok {
			continue
		}
		r.O("handed-out-entries-stay["+name+"]"+sfx, "same", diffSnap(res.copied[name], es))
	}
}

func diffSnap(want []ent, got fit.Entries) string {
	if len(want) != len(got) {
		return fmt.Sprintf("%d entries instead of %d", len(got), len(want))
	}
	for i, w := range want {
		b := got[i].GetEntryBase()
		if showHdr(b.Headers) != showHdr(w.hdr) {
			return fmt.Sprintf("entry %d: header changed", i)
		}
		if !bytes.Equal(b.DataSegmentBytes, w.data) {
			return fmt.Sprintf("entry %d: data changed", i)
		}
	}
	return "same"
}

// ---------------------------------------------------------------- sequences

// injectseq: two injections, one after the other, into the same buffer and through the same open
// file handle; the image the second one finds is whatever the first one left (old pointer, old
// table — possibly longer than the new one —, old data).  Each round has to satisfy the property
// on its own (the quantifier is over all images), and what the copying flavours handed out in
// round 1 must not change when the image is rewritten in round 2.
func (r *runner) runInjectSeq(c core.Case) {
	img := buildImage(c.Args["img"])
	sf := newScratchFile(img)
	defer sf.close()
	res1 := r.injectRound(img, sf, c.Args["img"], pu(c.Args["tbl"], 64), parseEnts(c.Args["entries"]), "#1")
	recipe2 := "x:" + core.Hex(img)
	if c.Args["img2"] != "" {
		// … or, second variant, into another image of another size (nothing learnt about the
		// first image may be applied to the second)
		recipe2 = c.Args["img2"]
		img = buildImage(recipe2)
		sf2 := newScratchFile(img)
		defer sf2.close()
		sf = sf2
	}
	res2 := r.injectRound(img, sf, recipe2, pu(c.Args["tbl2"], 64), parseEnts(c.Args["entries2"]), "#2")
	r.stillHolds(res1, "#1")
	vs := func(v bool) string {
		if v {
			return "valid"
		}
		return "invalid"
	}
	r.out.Class = fmt.Sprintf("injectseq:%s,%s,%s,inject=%s,get=%s", c.Kind, vs(res1.valid), vs(res2.valid), res2.injCls, res2.getCls)
}
