// Package props links every property harness into the binary.
package props

import (
	_ "verif/harness/props/c01"
	_ "verif/harness/props/c02"
	_ "verif/harness/props/c03"
	_ "verif/harness/props/c04"
	_ "verif/harness/props/c05"
	_ "verif/harness/props/c06"
	_ "verif/harness/props/c07"
	_ "verif/harness/props/c08"
	_ "verif/harness/props/c09"
	_ "verif/harness/props/c10"
	_ "verif/harness/props/c11"
	_ "verif/harness/props/c12"
	_ "verif/harness/props/c13"
	_ "verif/harness/props/c14"
	_ "verif/harness/props/c15"
	_ "verif/harness/props/c16"
	_ "verif/harness/props/c17"
	_ "verif/harness/props/c18"
	_ "verif/harness/props/c19"
	_ "verif/harness/props/c20"
)
