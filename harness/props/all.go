// Package props links every property harness into the binary.
package props

import (
	_ "verif/harness/props/c13"
)
