// harness with every property linked in (convenience; the checks use cmd/cxx, one property each).
package main

import (
	"verif/harness/core"
	_ "verif/harness/props"
)

func main() { core.Main() }
