package main

import (
	"encoding/json"
	"fmt"
	"math/rand"
	"os"
	"path/filepath"

	"verif/harness/core"
	c06 "verif/harness/props/c06"
)

// dumpCase prints details of case i of seed s (debugging aid).
func dumpCase(seed int64, idx int) {
	p := core.Lookup("C06")
	cs := p.Gen(rand.New(rand.NewSource(seed)), "quick")
	c := cs[idx]
	fmt.Println("kind", c.Kind, "note", c.Args["note"], "cfg", c.Args["cfg"], "ops", c.Args["ops"])
	fmt.Println(c06.Debug(c))
	os.Exit(0)
}

// writeCorpus regenerates corpus/C06/*.json from c06.CorpusCases().
func writeCorpus(dir string) {
	os.MkdirAll(dir, 0o755)
	for name, c := range c06.CorpusCases() {
		b, _ := json.MarshalIndent(c, "", " ")
		if err := os.WriteFile(filepath.Join(dir, name+".json"), append(b, '\n'), 0o644); err != nil {
			panic(err)
		}
		fmt.Println("wrote", name, len(c.Args["hex"])/2, "bytes")
	}
}
