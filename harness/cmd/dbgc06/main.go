// dbgc06: helper of wp-c06 — runs generated cases without the model and prints the Go-side oracle results.
package main

import (
	"fmt"
	"math/rand"
	"os"
	"strconv"

	"verif/harness/core"
	_ "verif/harness/props/c06"
)

func main() {
	os.Setenv("C06_NOMODEL", "1")
	seed, n := int64(1), 50
	if len(os.Args) > 1 {
		s, _ := strconv.Atoi(os.Args[1])
		seed = int64(s)
	}
	if len(os.Args) > 2 {
		n, _ = strconv.Atoi(os.Args[2])
	}
	if len(os.Args) > 2 && os.Args[1] == "corpus" {
		writeCorpus(os.Args[2])
		return
	}
	if len(os.Args) > 3 && os.Args[1] == "one" {
		s, _ := strconv.Atoi(os.Args[2])
		i, _ := strconv.Atoi(os.Args[3])
		dumpCase(int64(s), i)
	}
	p := core.Lookup("C06")
	cs := p.Gen(rand.New(rand.NewSource(seed)), "quick")
	classes := map[string]int{}
	kinds := map[string]int{}
	fails := 0
	for i, c := range cs {
		if i >= n {
			break
		}
		out, stack := core.SafeRun(p, c)
		classes[out.Class]++
		kinds[c.Kind]++
		for _, ck := range out.Checks {
			if ck.Req == "" && ck.Got != ck.Exp {
				fails++
				if fails < 12 {
					e, g := ck.Exp, ck.Got
					if len(e) > 300 {
						e = e[:300]
					}
					if len(g) > 400 {
						g = g[:400]
					}
					fmt.Printf("FAIL case %d kind=%s note=%s ops=%.80s\n  %s\n  exp: %s\n  got: %s\n", i, c.Kind, c.Args["note"], c.Args["ops"], ck.What, e, g)
					if stack != "" {
						fmt.Println(stack[:min(len(stack), 1500)])
					}
				}
			}
		}
	}
	fmt.Println("classes:", classes)
	fmt.Println("kinds:", kinds)
	fmt.Println("go-side oracle failures:", fails)
}
