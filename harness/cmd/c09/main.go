// harness for property C09 only.
package main

import (
	"verif/harness/core"
	_ "verif/harness/props/c09"
)

func main() { core.Main() }
