// c09corpus: writes the hand-made cases of harness/props/c09 whose kind matches a prefix into a directory.
package main

import (
	"encoding/json"
	"fmt"
	"os"
	"path/filepath"
	"strings"

	"verif/harness/props/c09"
)

func main() {
	dir, prefixes := os.Args[1], os.Args[2:]
	for _, c := range c09.CraftedCases() {
		ok := false
		for _, p := range prefixes {
			ok = ok || strings.HasPrefix(c.Kind, p)
		}
		if !ok {
			continue
		}
		b, _ := json.MarshalIndent(map[string]interface{}{"kind": c.Kind, "op": c.Op, "args": c.Args}, "", " ")
		if err := os.WriteFile(filepath.Join(dir, c.Kind+".json"), append(b, '\n'), 0o644); err != nil {
			panic(err)
		}
		fmt.Println(c.Kind)
	}
}
