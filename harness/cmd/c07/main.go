// harness for property C07 only.
package main

import (
	"verif/harness/core"
	_ "verif/harness/props/c07"
)

func main() { core.Main() }
