package main

import (
	"encoding/json"
	"fmt"
	"math/rand"
	"os"
	"strconv"
	"strings"

	"verif/harness/core"
	hu "verif/harness/props/uefi"
	ue "verif/harness/props/uefiedit"
)

func find() {
	seed, _ := strconv.Atoi(os.Args[2])
	want := os.Args[3]
	r := rand.New(rand.NewSource(int64(seed)))
	for _, c := range ue.RandomCases(r, 400, os.Args[4] == "x") {
		if strings.HasPrefix(c.Args["ops"], want) {
			b, _ := json.Marshal(map[string]interface{}{"case": c})
			fmt.Println(string(b))
		}
	}
}

// run RECIPE OPS : evaluate one case and print what happened
func run() {
	img := hu.ParseRecipe(os.Args[2])
	in := img.Ser()
	ops := ue.ParseOps(os.Args[3])
	e := ue.Evaluate(in, ops)
	fmt.Println("class:", e.Class(), "|", e.Res.Detail, "| want", e.Want)
	for _, c := range append(e.ChecksC02(), e.ChecksC03()...) {
		if c.Req == "" {
			fmt.Printf("  %s [%s] exp=%q got=%q\n", c.Tag, c.What, c.Exp, c.Got)
		}
	}
	c := core.Case{Kind: "hand", Op: "edit", Args: map[string]string{"recipe": os.Args[2], "ops": os.Args[3]}}
	b, _ := json.MarshalIndent(map[string]interface{}{"case": c}, "", " ")
	os.WriteFile("/tmp/w-edit/last-case.json", b, 0o644)
}

// exh K OPS : run OPS on the K-th exhaustive image
func exh() {
	k, _ := strconv.Atoi(os.Args[2])
	img := ue.ExhaustiveImages()[k]
	os.Args[2] = img.Recipe()
	run()
}

// corpus DIR... : write the hand-picked cases
func corpus() {
	for _, dir := range os.Args[2:] {
		os.MkdirAll(dir, 0o755)
		for name, c := range ue.CorpusCases() {
			b, _ := json.MarshalIndent(c, "", " ")
			os.WriteFile(dir+"/"+name+".json", b, 0o644)
		}
	}
}

func main() {
	switch os.Args[1] {
	case "corpus":
		corpus()
	case "exh":
		exh()
	case "find":
		find()
	case "run":
		run()
	}
}
