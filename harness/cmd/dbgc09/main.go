// dbgc09: debugging aid — run the `seq` case of a C09 replay file and describe every volume of every save.
package main

import (
	"encoding/json"
	"fmt"
	"os"
	"strings"

	fuefi "github.com/linuxboot/fiano/pkg/uefi"

	"verif/harness/core"
	hu "verif/harness/props/uefi"
	ue "verif/harness/props/uefiedit"
)

type vis struct{ depth int }

func (v *vis) Run(f fuefi.Firmware) error { return f.Apply(v) }
func (v *vis) Visit(f fuefi.Firmware) error {
	if fv, ok := f.(*fuefi.FirmwareVolume); ok {
		b := fv.Buf()
		var sum uint16
		for i := 0; i+1 < int(fv.HeaderLen) && i+1 < len(b); i += 2 {
			sum += uint16(b[i]) | uint16(b[i+1])<<8
		}
		fmt.Printf("%sFV off=%#x len=%#x hdrlen=%d guid=%v resizable=%v files=%d hdrsum=%#x checksumfield=%#x buf[50:52]=%x\n",
			strings.Repeat("  ", v.depth), fv.FVOffset, fv.Length, fv.HeaderLen, fv.FileSystemGUID, fv.Resizable, len(fv.Files), sum, fv.Checksum, b[50:52])
		v.depth++
		err := f.ApplyChildren(v)
		v.depth--
		return err
	}
	if s, ok := f.(*fuefi.Section); ok && s.Header.Type == fuefi.SectionTypeGUIDDefined {
		fmt.Printf("%sGUIDed section compression=%v encaps=%d\n", strings.Repeat("  ", v.depth), s.TypeSpecific, len(s.Encapsulated))
	}
	return f.ApplyChildren(v)
}

func main() {
	b, _ := os.ReadFile(os.Args[1])
	var rf struct {
		Case core.Case `json:"case"`
	}
	json.Unmarshal(b, &rf)
	c := rf.Case
	in := hu.ParseRecipe(c.Args["recipe"]).Ser()
	text := c.Args["ops"]
	for k, v := range c.Args {
		if strings.HasPrefix(k, "B") {
			text = strings.ReplaceAll(text, "@"+k, core.Hex(hu.UnRLE(v)))
		}
	}
	ops := ue.ParseOps(text)
	for _, o := range ops {
		fmt.Println("op", o.Kind, string(o.Sel), len(o.Blob))
	}
	res := ue.Execute(in, ops)
	fmt.Println("stage", res.Stage, "class", res.Class, res.Detail)
	hu.ResetState()
	t0, err := fuefi.Parse(in)
	fmt.Println("== input", len(in), err)
	if err == nil {
		(&vis{}).Run(t0)
	}
	for k, s := range res.Saved() {
		hu.ResetState()
		t, err := fuefi.Parse(s)
		fmt.Println("== save", k+1, len(s), err)
		if err == nil {
			(&vis{}).Run(t)
		}
	}
}
