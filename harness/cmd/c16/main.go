// harness for property C16 only.
package main

import (
	"verif/harness/core"
	_ "verif/harness/props/c16"
)

func main() { core.Main() }
