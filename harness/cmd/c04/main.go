// harness for property C04 only.
package main

import (
	"verif/harness/core"
	_ "verif/harness/props/c04"
)

func main() { core.Main() }
