// dbgtail: debugging aid — a volume filled to its last byte whose last file is n bytes long (n = 24: header only).
package main

import (
	"bytes"
	"fmt"

	fuefi "github.com/linuxboot/fiano/pkg/uefi"
	"github.com/linuxboot/fiano/pkg/visitors"

	hu "verif/harness/props/uefi"
)

func guid(seed byte) []byte {
	g := make([]byte, 16)
	for i := range g {
		g[i] = seed + byte(i)
	}
	return g
}

func leaf(seed byte, typ uint8, body []byte) *hu.File {
	f := &hu.File{Kind: "fl", GUID: guid(seed), Type: typ, State: 0xF8, CkF: 0xAA, Body: body}
	f.CkH = hu.HeaderChecksum(f, 24+len(body))
	return f
}

func main() {
	for _, n := range []int{24, 25, 31, 32, 33} {
		for _, pad := range []bool{false, true} {
			last := leaf(9, 1, make([]byte, n-24))
			if pad {
				last = hu.PadFile(n)
			}
			first := leaf(1, 1, bytes.Repeat([]byte{0x5A}, 40))
			fv := &hu.FV{ZV: make([]byte, 16), Attrs: 0x0004FEFF, Rev: 2, Blocks: []hu.Block{{Count: 1, Size: 8}}, Files: []*hu.File{first, last}}
			if fv.Size()%8 != 0 {
				continue
			}
			fv.Blocks[0].Count = uint32(fv.Size() / 8)
			in := fv.Ser()
			hu.ResetState()
			t, err := fuefi.Parse(in)
			if err != nil {
				fmt.Println(n, pad, "parse error", err)
				continue
			}
			var v *fuefi.FirmwareVolume
			if bv, ok := t.(*fuefi.BIOSRegion); ok {
				v = bv.Elements[0].Value.(*fuefi.FirmwareVolume)
			} else {
				v = t.(*fuefi.FirmwareVolume)
			}
			fmt.Printf("last=%d pad=%v len=%#x files=%d free=%d", n, pad, len(in), len(v.Files), v.FreeSpace)
			if err := (&visitors.Assemble{}).Run(t); err != nil {
				fmt.Println(" assemble error", err)
				continue
			}
			fmt.Println(" saved==input:", bytes.Equal(t.Buf(), in))
		}
	}
}
