// harness for property C20 only.
package main

import (
	"verif/harness/core"
	_ "verif/harness/props/c20"
)

func main() { core.Main() }
