// harness for property C06 only.
package main

import (
	"verif/harness/core"
	_ "verif/harness/props/c06"
)

func main() { core.Main() }
