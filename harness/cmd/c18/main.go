// harness for property C18 only.
package main

import (
	"verif/harness/core"
	_ "verif/harness/props/c18"
)

func main() { core.Main() }
