// dbgc02c — probes of follow-up wp-c02c: create-fv under erase polarity 0.
package main

import (
	"encoding/json"
	"fmt"
	"os"

	"verif/harness/core"
	hu "verif/harness/props/uefi"
	ue "verif/harness/props/uefiedit"
)

func rep(b byte, n int) []byte {
	o := make([]byte, n)
	for i := range o {
		o[i] = b
	}
	return o
}

// a bare BIOS image: one volume of erase polarity `pol` (no gaps, no free space: the builder pads with
// FF only) followed by `tail` erased bytes
func image(pol byte, tail int) *hu.Img {
	attrs := uint32(0x4FEFF)
	state := uint8(0xF8)
	if pol == 0 {
		attrs &^= 0x800
		state = 0x07
	}
	body := []byte{1, 2, 3, 4, 5, 6, 7, 8, 9, 10, 11, 12}
	sec := &hu.Sec{Kind: "sl", Type: 0x19, Body: body}
	f := &hu.File{Kind: "fs", GUID: []byte{0x20, 0x21, 0x22, 0x23, 0x24, 0x25, 0x26, 0x27, 0x28, 0x29, 0x2a, 0x2b, 0x2c, 0x2d, 0x2e, 0x2f},
		Type: 2, Attrs: 0, State: state, Secs: []*hu.Sec{sec}}
	fv := &hu.FV{ZV: rep(0, 16), Attrs: attrs, Rev: 2, Files: []*hu.File{f}}
	n := 72 + len(f.Ser())
	fv.Blocks = []hu.Block{{Count: uint32(n / 8), Size: 8}}
	if n%8 != 0 {
		panic("size")
	}
	return &hu.Img{Bios: &hu.Bios{Items: []hu.Item{{FV: fv}}, Tail: rep(pol, tail)}}
}

// r1Image: an FFSv3 volume with one large file whose body is ONE section of the unlisted type 0x20 with
// 3-byte size FFFFFF and extended size = the whole body (valid per the PI specification); inside its payload,
// at body offset 0x1000000 (where fiano, which clamps the section to 0xFFFFFF bytes, looks for the next
// section), sits what fiano reads as a UI section without a terminating NUL, followed by a RAW section that
// ends with the body.
func r1Image(withFakes bool) *hu.Img {
	const R = 0x100
	D := 0x1000000 + 8 + R
	payload := make([]byte, D-8)
	for i := range payload {
		payload[i] = byte(0x30 + i%7)
	}
	payload[0xFFFFFF-8] = 0 // the byte fiano replaces by alignment padding
	if withFakes {
		copy(payload[0x1000000-8:], []byte{8, 0, 0, 0x15, 'A', 0, 'B', 0})
		copy(payload[0x1000008-8:], []byte{0x00, 0x01, 0x00, 0x19})
	}
	sec := &hu.Sec{Kind: "sl", Type: 0x20, Ext: true, Body: payload}
	f := &hu.File{Kind: "fs", GUID: []byte{0x20, 0x21, 0x22, 0x23, 0x24, 0x25, 0x26, 0x27, 0x28, 0x29, 0x2a, 0x2b, 0x2c, 0x2d, 0x2e, 0x2f},
		Type: 2, Attrs: 0, State: 0xF8, Secs: []*hu.Sec{sec}}
	fv := &hu.FV{ZV: rep(0, 16), V3: true, Attrs: 0x4FEFF, Rev: 2, Files: []*hu.File{f}, Free: 4096 - (72+32+D)%4096 + 4096}
	n := 72 + 32 + D + fv.Free
	fv.Blocks = []hu.Block{{Count: uint32(n / 4096), Size: 4096}}
	if n%4096 != 0 {
		panic("size")
	}
	return &hu.Img{Bios: &hu.Bios{Items: []hu.Item{{FV: fv}}}}
}

// verdict on the one large file at offset 72 of the volume, written from the PI specification
func r1Verdict(b []byte) string {
	h := b[72 : 72+32]
	if h[23]&0 != 0 {
		return "?"
	}
	if h[19]&1 == 0 {
		return "file is not large"
	}
	var size uint64
	for i := 0; i < 8; i++ {
		size |= uint64(h[24+i]) << (8 * i)
	}
	body := b[72+32 : 72+int(size)]
	var s uint8
	for i, x := range h {
		if i != 17 && i != 23 {
			s += x
		}
	}
	if s != 0 {
		return fmt.Sprintf("header checksum %#x", s)
	}
	if !(body[0] == 0xFF && body[1] == 0xFF && body[2] == 0xFF) {
		return "first section is not extended"
	}
	x := int(body[4]) | int(body[5])<<8 | int(body[6])<<16 | int(body[7])<<24
	if x > len(body) {
		return fmt.Sprintf("INVALID: first section (type %#x) has extended size %#x, the file body has %#x bytes", body[3], x, len(body))
	}
	if x < len(body) {
		rest := body[(x+3)/4*4:]
		return fmt.Sprintf("first section size %#x < body %#x: %d more bytes must be sections; next header bytes % x", x, len(body), len(rest), rest[:min(8, len(rest))])
	}
	return "ok: one section filling the body"
}

func r1() {
	for _, fakes := range []bool{false, true} {
		img := r1Image(fakes)
		in := img.Ser()
		fmt.Printf("fakes=%v image %d bytes; input verdict: %s\n", fakes, len(in), r1Verdict(in))
		for _, opsText := range []string{"count", "save"} {
			ops := ue.ParseOps(opsText)
			res := ue.Execute(in, ops)
			fmt.Printf("  ops=%s stage=%s class=%s detail=%.300q\n", opsText, res.Stage, res.Class, res.Detail)
			for i, st := range res.Steps {
				same := "-"
				if st.Saved != nil {
					same = fmt.Sprint(string(st.Saved) == string(in))
				}
				fmt.Printf("    step %d %s: %s %.200q saved=%d identical=%s\n", i, st.Op.Kind, st.Class, st.Detail, len(st.Saved), same)
				if st.Saved != nil {
					fmt.Printf("    saved verdict: %s\n", r1Verdict(st.Saved))
					if len(os.Args) > 2 {
						os.WriteFile(os.Args[2]+fmt.Sprintf("-%v.bin", fakes), st.Saved, 0o644)
						os.WriteFile(os.Args[2]+fmt.Sprintf("-%v-in.bin", fakes), in, 0o644)
					}
				}
			}
		}
	}
}

func nvsample() {
	names, imgs := ue.NvFixedImages()
	for i, im := range imgs {
		b := im.Ser()
		fmt.Println(names[i], len(b))
		if len(os.Args) > 2 && os.Args[2] == names[i] {
			e := ue.Evaluate(b, ue.ParseOps("nvcompact save"))
			fmt.Println(e.Class(), len(e.Res.Steps), string(e.Res.Saved()[0]) == string(b))
			fmt.Println(core.Hex(b))
		}
	}
}

func main() {
	if len(os.Args) > 1 && os.Args[1] == "pol0hex" {
		b := image(0, 0).Ser()
		fmt.Println(len(b), core.Hex(b))
		return
	}
	if len(os.Args) > 1 && os.Args[1] == "nvsample" {
		nvsample()
		return
	}
	if len(os.Args) > 1 && os.Args[1] == "r1" {
		r1()
		return
	}
	for _, pol := range []byte{0xFF, 0x00} {
		img := image(pol, 8192)
		in := img.Ser()
		n := len(in) - 8192
		for _, opsText := range []string{
			"save",
			fmt.Sprintf("createfv:%d:4096:505152535455565758595a5b5c5d5e5f save", n),
			fmt.Sprintf("save createfv:%d:4096:505152535455565758595a5b5c5d5e5f save", n),
			fmt.Sprintf("createfv:%d:4096:505152535455565758595a5b5c5d5e5f count save", n),
			fmt.Sprintf("createfv:%d:4096:505152535455565758595a5b5c5d5e5f createfv:%d:4096:606162636465666768696a6b6c6d6e6f save", n, n+4096),
			fmt.Sprintf("createfv:%d:4096:505152535455565758595a5b5c5d5e5f %s save", n, ue.Op{Kind: "rm", Sel: "23222120-2524-2726-2829-2A2B2C2D2E2F"}.Word()),
		} {
			ops := ue.ParseOps(opsText)
			e := ue.Evaluate(in, ops)
			fmt.Printf("pol=%02x len=%d ops=%q\n  class=%s detail=%.200q\n", pol, len(in), opsText[:min(len(opsText), 60)], e.Class(), e.Res.Detail)
			for i, st := range e.Res.Steps {
				fmt.Printf("    step %d %s: %s %.160q saved=%d left=%v\n", i, st.Op.Kind, st.Class, st.Detail, len(st.Saved), st.LeftFile)
			}
			for _, c := range e.ChecksC02() {
				if c.Req == "" {
					fmt.Printf("    O %s exp=%q got=%q\n", c.What, c.Exp, c.Got)
				}
			}
			if len(os.Args) > 1 && os.Args[1] == "case" {
				c := core.Case{Kind: "hand", Op: "edit", Args: map[string]string{"recipe": img.Recipe(), "ops": opsText}}
				b, _ := json.Marshal(c)
				fmt.Println("    CASE", string(b))
			}
		}
	}
}
