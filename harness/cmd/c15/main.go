// harness for property C15 only.
package main

import (
	"verif/harness/core"
	_ "verif/harness/props/c15"
)

func main() { core.Main() }
