// harness for property C03 only.
package main

import (
	"verif/harness/core"
	_ "verif/harness/props/c03"
)

func main() { core.Main() }
