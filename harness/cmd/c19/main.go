// harness for property C19 only.
package main

import (
	"verif/harness/core"
	_ "verif/harness/props/c19"
)

func main() { core.Main() }
