// harness for property C17 only.
package main

import (
	"verif/harness/core"
	_ "verif/harness/props/c17"
)

func main() { core.Main() }
