// harness for property C14 only.
package main

import (
	"verif/harness/core"
	_ "verif/harness/props/c14"
)

func main() { core.Main() }
