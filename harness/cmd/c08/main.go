// harness for property C08 only.
package main

import (
	"verif/harness/core"
	_ "verif/harness/props/c08"
)

func main() { core.Main() }
