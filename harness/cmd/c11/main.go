// harness for property C11 only.
package main

import (
	"verif/harness/core"
	_ "verif/harness/props/c11"
)

func main() { core.Main() }
