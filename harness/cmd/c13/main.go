// harness for property C13 only.
package main

import (
	"verif/harness/core"
	_ "verif/harness/props/c13"
)

func main() { core.Main() }
