// harness for property C02 only.
package main

import (
	"verif/harness/core"
	_ "verif/harness/props/c02"
)

func main() { core.Main() }
