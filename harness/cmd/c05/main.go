// harness for property C05 only.
package main

import (
	"verif/harness/core"
	_ "verif/harness/props/c05"
)

func main() { core.Main() }
