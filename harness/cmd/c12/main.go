// harness for property C12 only.
package main

import (
	"verif/harness/core"
	_ "verif/harness/props/c12"
)

func main() { core.Main() }
