// harness for property C01 only.
package main

import (
	"verif/harness/core"
	_ "verif/harness/props/c01"
)

func main() { core.Main() }
