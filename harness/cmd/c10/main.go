// harness for property C10 only.
package main

import (
	"verif/harness/core"
	_ "verif/harness/props/c10"
)

func main() { core.Main() }
