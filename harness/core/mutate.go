package core

import (
	"math/rand"
)

// Field locates one length / count / offset / size / type field inside a seed input.
type Field struct {
	Name string
	Off  int  // byte offset in the input
	W    int  // width in bytes (1, 2, 3, 4, 8)
	BE   bool // big endian (default little endian)
	Hdr  int  // size of the header this field belongs to (for the hdr±1 boundary values); 0 = unknown
}

// Mutant is a seed with one field replaced.
type Mutant struct {
	Field Field
	Value uint64
	Bytes []byte
}

func putField(b []byte, f Field, v uint64) {
	for i := 0; i < f.W; i++ {
		idx := f.Off + i
		if f.BE {
			idx = f.Off + f.W - 1 - i
		}
		if idx >= 0 && idx < len(b) {
			b[idx] = byte(v >> (8 * uint(i)))
		}
	}
}

// BoundaryValues are the values DESIGN.md §4.2 asks for: 0, 1, hdr−1, hdr, hdr+1, remaining−1, remaining,
// remaining+1, all-ones, plus the sign / wrap boundaries of the width.
func BoundaryValues(f Field, inputLen int) []uint64 {
	max := uint64(1)<<(8*uint(f.W)) - 1
	if f.W >= 8 {
		max = ^uint64(0)
	}
	rem := uint64(0)
	if inputLen > f.Off {
		rem = uint64(inputLen - f.Off)
	}
	vals := []uint64{0, 1, 2, 7, 8, rem - 1, rem, rem + 1, uint64(inputLen) - 1, uint64(inputLen), uint64(inputLen) + 1,
		max, max - 1, max >> 1, (max >> 1) + 1, max - 7, max - 15}
	if f.Hdr > 0 {
		h := uint64(f.Hdr)
		vals = append(vals, h-1, h, h+1, h+8)
	}
	seen := map[uint64]bool{}
	var out []uint64
	for _, v := range vals {
		v &= max
		if !seen[v] {
			seen[v] = true
			out = append(out, v)
		}
	}
	return out
}

// BoundaryMutants enumerates every field × every boundary value (exhaustive over fields, not sampled).
func BoundaryMutants(seed []byte, fields []Field) []Mutant {
	var out []Mutant
	for _, f := range fields {
		if f.Off < 0 || f.Off+f.W > len(seed) {
			continue
		}
		for _, v := range BoundaryValues(f, len(seed)) {
			b := append([]byte(nil), seed...)
			putField(b, f, v)
			out = append(out, Mutant{Field: f, Value: v, Bytes: b})
		}
	}
	return out
}

// RandomMutants: truncations, byte flips, splices — the unstructured stream.
func RandomMutants(r *rand.Rand, seed []byte, n int) [][]byte {
	var out [][]byte
	for i := 0; i < n; i++ {
		b := append([]byte(nil), seed...)
		switch r.Intn(5) {
		case 0: // truncate
			if len(b) > 0 {
				b = b[:r.Intn(len(b))]
			}
		case 1: // flip a few bytes
			for k := 0; k < 1+r.Intn(4) && len(b) > 0; k++ {
				b[r.Intn(len(b))] = byte(r.Intn(256))
			}
		case 2: // set a random aligned 4-byte word to a boundary value
			if len(b) >= 4 {
				o := r.Intn(len(b)-3) &^ 3
				v := []uint32{0, 1, 0xffffffff, 0x7fffffff, 0x80000000, uint32(len(b)), uint32(len(b)) + 1}[r.Intn(7)]
				b[o], b[o+1], b[o+2], b[o+3] = byte(v), byte(v>>8), byte(v>>16), byte(v>>24)
			}
		case 3: // duplicate a chunk
			if len(b) > 8 {
				o, l := r.Intn(len(b)-4), 1+r.Intn(64)
				if o+l > len(b) {
					l = len(b) - o
				}
				b = append(b[:o+l], b[o:]...)
			}
		case 4: // random bytes of the same length
			r.Read(b)
		}
		out = append(out, b)
	}
	return out
}
