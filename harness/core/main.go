package core

import (
	"encoding/json"
	"flag"
	"fmt"
	"os"
)

// Main is the command-line entry point shared by harness (all properties linked) and
// cmd/cxx (one property linked, so that an API change in an unrelated fiano package cannot
// break this property's check):
//
//	run    -prop C13 -tier quick -seed 1 -driver PATH -corpus DIR -out stats.json
//	replay -prop C13 -driver PATH -file replay.json
//	worker -prop C13        (isolation child)
//	list
func Main() {
	if len(os.Args) < 2 {
		fmt.Fprintln(os.Stderr, "usage: harness run|replay|list ...")
		os.Exit(2)
	}
	fs := flag.NewFlagSet(os.Args[1], flag.ExitOnError)
	prop := fs.String("prop", "", "property id")
	tier := fs.String("tier", "quick", "quick|thorough")
	seed := fs.Int64("seed", 1, "PRNG seed")
	driver := fs.String("driver", "", "path of the Lean model driver executable")
	corpus := fs.String("corpus", "", "corpus directory")
	out := fs.String("out", "", "statistics output file")
	file := fs.String("file", "", "replay file")
	maxCases := fs.Int("max", 0, "limit the number of cases")
	fs.Parse(os.Args[2:])

	switch os.Args[1] {
	case "list":
		for _, id := range IDs() {
			fmt.Println(id)
		}
	case "worker":
		p := Lookup(*prop)
		if p == nil {
			os.Exit(2)
		}
		WorkerMain(p)
	case "run":
		p := Lookup(*prop)
		if p == nil {
			fmt.Fprintln(os.Stderr, "unknown property", *prop)
			os.Exit(2)
		}
		st, err := Run(p, Options{Tier: *tier, Seed: *seed, DriverPath: *driver,
			CorpusDir: *corpus, MaxCases: *maxCases})
		if st != nil && *out != "" {
			b, _ := json.MarshalIndent(st, "", " ")
			os.WriteFile(*out, b, 0o644)
		}
		if err != nil {
			fmt.Fprintln(os.Stderr, "harness error:", err)
			os.Exit(3)
		}
		fmt.Printf("cases=%d checks=%d distinct=%d oracle_failures=%d model_failures=%d wall=%.1fs\n",
			st.Evaluations, st.ChecksRun, st.DistinctNontrivial, st.OracleFailCount, st.ModelFailCount, st.WallS)
	case "replay":
		p := Lookup(*prop)
		if p == nil {
			fmt.Fprintln(os.Stderr, "unknown property", *prop)
			os.Exit(2)
		}
		b, err := os.ReadFile(*file)
		if err != nil {
			fmt.Fprintln(os.Stderr, err)
			os.Exit(2)
		}
		var rf struct {
			Case *Case `json:"case"`
		}
		if err := json.Unmarshal(b, &rf); err != nil || rf.Case == nil {
			fmt.Println("replay file holds no concrete case (no-failing-input-found); see its 'broken' field")
			os.Exit(0)
		}
		ok, checks, err := Replay(p, *driver, *rf.Case)
		if err != nil {
			fmt.Fprintln(os.Stderr, "harness error:", err)
			os.Exit(3)
		}
		for _, ck := range checks {
			status := "pass"
			if ck.Got != ck.Exp {
				status = "FAIL"
			}
			e, g := ck.Exp, ck.Got
			if len(e) > 300 {
				e = e[:300] + "..."
			}
			if len(g) > 300 {
				g = g[:300] + "..."
			}
			fmt.Printf("%s [%s] %s\n   expected: %s\n   got:      %s\n", status, ck.Tag, ck.What, e, g)
		}
		if !ok {
			os.Exit(1)
		}
	default:
		fmt.Fprintln(os.Stderr, "unknown command")
		os.Exit(2)
	}
}
