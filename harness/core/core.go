// Package core is the correspondence / oracle framework shared by all property harnesses.
//
// A property supplies a generator of Cases and a Run function that executes the real fiano
// code on one case and returns Checks:
//
//	Tag "M"  model correspondence: Req is sent to the Lean driver, the answer must equal Exp
//	         (Exp = canonical form of what the implementation did).
//	Tag "O"  property oracle on the implementation's own output. Either Req is a spec
//	         predicate evaluated by the Lean driver on bytes the Go code produced (Exp is the
//	         required answer, usually "ok"), or Req == "" and Exp/Got were both computed in Go.
//
// An "O" failure is a concrete input on which the implementation violates the property.
// An "M" failure means model and implementation disagree (tie T2 broken).
package core

import (
	"bufio"
	"encoding/hex"
	"encoding/json"
	"fmt"
	"hash/fnv"
	"io"
	"math/rand"
	"os"
	"os/exec"
	"path/filepath"
	"runtime"
	"runtime/debug"
	"sort"
	"strings"
	"syscall"
	"time"
)

var syscallSIGQUIT = syscall.SIGQUIT

// Case is one concrete, replayable input (or operation sequence / history).
type Case struct {
	Kind string            `json:"kind"` // generator class, for the distribution histogram
	Op   string            `json:"op"`
	Args map[string]string `json:"args"` // hex strings, decimal numbers, small scripts
}

// Check is one comparison made for a case.
type Check struct {
	Tag  string `json:"tag"`  // "M" or "O"
	What string `json:"what"` // stable label of what is compared, e.g. "read", "writearea-confined"
	Req  string `json:"req,omitempty"`
	Exp  string `json:"exp"`
	Got  string `json:"got"`
	Sig  string `json:"sig,omitempty"` // stable signature of the failure class (for known findings)
}

// Outcome is what running a case on the implementation produced.
type Outcome struct {
	Checks  []Check `json:"checks"`
	Class   string  `json:"class"`   // outcome class for the histogram, e.g. "read:ok"
	Key     string  `json:"key"`     // distinctness key; "" = digest of Exp values
	Trivial bool    `json:"trivial"` // true for empty / degenerate cases
}

// Property is implemented once per property id.
type Property interface {
	ID() string
	// Gen returns the generated cases for a tier ("quick" | "thorough"); every random choice
	// must come from r.
	Gen(r *rand.Rand, tier string) []Case
	// Run executes the real code on c. It may panic: the framework recovers and records an
	// "O" failure with Sig "panic:<top fiano frame>".
	Run(c Case) Outcome
}

// Shrinker is optional: candidates strictly smaller than c.
type Shrinker interface {
	Shrink(c Case) []Case
}

// PanicOK is optional: properties for which a panic in Run is *not* itself a violation
// return true (then a panic is reported as class "panic" through an M check only).
type PanicPolicy interface {
	PanicIsViolation() bool
}

// Isolated is optional: run cases in a watchdogged child process (hang / OOM detection).
type Isolated interface {
	CaseTimeout() time.Duration
	MemLimitBytes() uint64
}

var registry = map[string]Property{}

func Register(p Property) { registry[strings.ToUpper(p.ID())] = p }
func Lookup(id string) Property {
	return registry[strings.ToUpper(id)]
}
func IDs() []string {
	var ids []string
	for k := range registry {
		ids = append(ids, k)
	}
	sort.Strings(ids)
	return ids
}

// ---------------------------------------------------------------- helpers for properties

func Hex(b []byte) string {
	if len(b) == 0 {
		return "-"
	}
	return hex.EncodeToString(b)
}

func UnHex(s string) []byte {
	if s == "-" || s == "" {
		return nil
	}
	b, err := hex.DecodeString(s)
	if err != nil {
		panic("harness: bad hex in case: " + err.Error())
	}
	return b
}

// FNV is the 64-bit FNV-1a digest used on both sides for large outputs (Driver.fnv1a).
func FNV(b []byte) uint64 {
	h := fnv.New64a()
	h.Write(b)
	return h.Sum64()
}

// ErrClass maps an error to the small enum compared with the model (texts are never compared).
func ErrClass(err error) string {
	if err == nil {
		return "ok"
	}
	return "err"
}

// MeasureAlloc runs f and returns the bytes allocated meanwhile (TotalAlloc delta).
func MeasureAlloc(f func()) uint64 {
	var a, b runtime.MemStats
	runtime.ReadMemStats(&a)
	f()
	runtime.ReadMemStats(&b)
	return b.TotalAlloc - a.TotalAlloc
}

// ---------------------------------------------------------------- driver process

type Driver struct {
	cmd *exec.Cmd
	in  *bufio.Writer
	out *bufio.Reader
	w   io.WriteCloser
}

func StartDriver(path string) (*Driver, error) {
	cmd := exec.Command(path)
	w, err := cmd.StdinPipe()
	if err != nil {
		return nil, err
	}
	r, err := cmd.StdoutPipe()
	if err != nil {
		return nil, err
	}
	cmd.Stderr = os.Stderr
	if err := cmd.Start(); err != nil {
		return nil, err
	}
	return &Driver{cmd: cmd, in: bufio.NewWriterSize(w, 1<<20), out: bufio.NewReaderSize(r, 1<<20), w: w}, nil
}

func (d *Driver) Ask(req string) (string, error) {
	if strings.ContainsAny(req, "\n\r") {
		return "", fmt.Errorf("request contains newline")
	}
	if _, err := d.in.WriteString(req + "\n"); err != nil {
		return "", err
	}
	if err := d.in.Flush(); err != nil {
		return "", err
	}
	line, err := d.out.ReadString('\n')
	if err != nil {
		return "", fmt.Errorf("driver died: %v", err)
	}
	return strings.TrimRight(line, "\r\n"), nil
}

func (d *Driver) Close() {
	d.w.Close()
	done := make(chan struct{})
	go func() { d.cmd.Wait(); close(done) }()
	select {
	case <-done:
	case <-time.After(5 * time.Second):
		d.cmd.Process.Kill()
	}
}

// ---------------------------------------------------------------- isolation (hang / crash detection)

var inWorker bool

type workerMsg struct {
	Out   Outcome `json:"out"`
	Stack string  `json:"stack"`
}

// WorkerMain is the child side: one JSON case per line in, one JSON outcome per line out.
func WorkerMain(p Property) {
	inWorker = true
	in := bufio.NewReaderSize(os.Stdin, 1<<20)
	realOut := os.Stdout
	os.Stdout = os.Stderr // fiano prints diagnostics with fmt.Printf; keep the protocol channel clean
	w := bufio.NewWriterSize(realOut, 1<<20)
	for {
		line, err := in.ReadBytes('\n')
		if len(line) > 0 {
			var c Case
			if json.Unmarshal(line, &c) == nil {
				out, stack := SafeRun(p, c)
				b, _ := json.Marshal(workerMsg{out, stack})
				w.Write(b)
				w.WriteByte('\n')
				w.Flush()
			}
		}
		if err != nil {
			return
		}
	}
}

type worker struct {
	cmd    *exec.Cmd
	in     io.WriteCloser
	out    *bufio.Reader
	stderr *tailBuf
}

type tailBuf struct{ b []byte }

func (t *tailBuf) Write(p []byte) (int, error) {
	t.b = append(t.b, p...)
	if len(t.b) > 8192 {
		t.b = t.b[len(t.b)-8192:]
	}
	return len(p), nil
}

var curWorker *worker

func startWorker(p Property) (*worker, error) {
	exe, err := os.Executable()
	if err != nil {
		return nil, err
	}
	cmd := exec.Command(exe, "worker", "-prop", p.ID())
	in, _ := cmd.StdinPipe()
	out, _ := cmd.StdoutPipe()
	tb := &tailBuf{}
	cmd.Stderr = tb
	if err := cmd.Start(); err != nil {
		return nil, err
	}
	return &worker{cmd: cmd, in: in, out: bufio.NewReaderSize(out, 1<<20), stderr: tb}, nil
}

func (w *worker) kill() {
	w.in.Close()
	w.cmd.Process.Kill()
	w.cmd.Wait()
}

// StopWorkers terminates the isolation child, if any.
func StopWorkers() {
	if curWorker != nil {
		curWorker.kill()
		curWorker = nil
	}
}

// confirmedHangs counts watchdog expiries that were confirmed by a second, longer run (see runIsolated).
var confirmedHangs int

// runIsolated runs one case in the watchdogged child. A watchdog expiry is confirmed before it is reported: on a
// starved machine (other checks running, load far above the core count) a finite case can miss the watchdog, a real
// hang misses any. The case is run again alone in a fresh child with three times the budget; only if that expires too
// is `terminates` reported. After three confirmed hangs in one run the confirmation is skipped (the code under test
// evidently does hang; each confirmation costs 3x the watchdog).
func runIsolated(p Property, iso Isolated, c Case) (Outcome, string) {
	out, st := runIsolatedT(p, iso, c, iso.CaseTimeout())
	if out.Class != "hang" || confirmedHangs >= 3 {
		return out, st
	}
	out2, st2 := runIsolatedT(p, iso, c, 3*iso.CaseTimeout())
	if out2.Class != "hang" {
		return out2, st2
	}
	confirmedHangs++
	return out, st
}

func runIsolatedT(p Property, iso Isolated, c Case, timeout time.Duration) (Outcome, string) {
	if curWorker == nil {
		w, err := startWorker(p)
		if err != nil {
			panic("cannot start worker: " + err.Error())
		}
		curWorker = w
	}
	w := curWorker
	b, _ := json.Marshal(c)
	type res struct {
		line []byte
		err  error
	}
	ch := make(chan res, 1)
	go func() {
		if _, err := w.in.Write(append(b, '\n')); err != nil {
			ch <- res{nil, err}
			return
		}
		line, err := w.out.ReadBytes('\n')
		ch <- res{line, err}
	}()
	select {
	case r := <-ch:
		if r.err != nil || len(r.line) == 0 {
			w.cmd.Wait()
			tail := string(w.stderr.b)
			curWorker = nil
			first := "process died"
			for _, l := range strings.Split(tail, "\n") {
				if strings.HasPrefix(l, "fatal error:") || strings.HasPrefix(l, "panic:") || strings.Contains(l, "Fatal") {
					first = l
					break
				}
			}
			if len(first) > 200 {
				first = first[:200]
			}
			return Outcome{Class: "crash", Checks: []Check{{Tag: "O", What: "no-crash", Exp: "process survives",
				Got: "crash: " + first, Sig: "crash:" + topFianoFrame(tail)}}}, trimStack(tail)
		}
		var m workerMsg
		if err := json.Unmarshal(r.line, &m); err != nil {
			return Outcome{Class: "crash", Checks: []Check{{Tag: "O", What: "no-crash", Exp: "process survives",
				Got: "garbled worker output", Sig: "crash:garbled"}}}, ""
		}
		return m.Out, m.Stack
	case <-time.After(timeout):
		// take a goroutine dump to name the spinning function, then kill
		w.cmd.Process.Signal(syscallSIGQUIT)
		time.Sleep(300 * time.Millisecond)
		w.kill()
		tail := string(w.stderr.b)
		curWorker = nil
		return Outcome{Class: "hang", Checks: []Check{{Tag: "O", What: "terminates", Exp: "returns within " + iso.CaseTimeout().String(),
			Got: "no result (killed)", Sig: "hang:" + topFianoFrame(tail)}}}, trimStack(tail)
	}
}

// ---------------------------------------------------------------- running

type Failure struct {
	Case  Case   `json:"case"`
	Check Check  `json:"check"`
	Index int    `json:"index"`
	Stack string `json:"stack,omitempty"`
}

type Stats struct {
	Property           string         `json:"property"`
	Tier               string         `json:"tier"`
	Seed               int64          `json:"seed"`
	Evaluations        int            `json:"evaluations"`
	ChecksRun          int            `json:"checks_run"`
	ModelChecks        int            `json:"model_checks"`
	OracleChecks       int            `json:"oracle_checks"`
	DistinctNontrivial int            `json:"distinct_nontrivial"`
	Kinds              map[string]int `json:"kinds"`
	Classes            map[string]int `json:"classes"`
	Samples            []Case         `json:"samples"`
	OracleFailures     []Failure      `json:"oracle_failures"`
	ModelFailures      []Failure      `json:"model_failures"`
	OracleFailCount    int            `json:"oracle_fail_count"`
	ModelFailCount     int            `json:"model_fail_count"`
	CorpusCases        int            `json:"corpus_cases"`
	WallS              float64        `json:"wall_s"`
	SizeHist           map[string]int `json:"size_hist"`
}

func topFianoFrame(stack string) string {
	// first frame that is inside github.com/linuxboot/fiano
	for _, l := range strings.Split(stack, "\n") {
		l = strings.TrimSpace(l)
		if strings.HasPrefix(l, "github.com/linuxboot/fiano/") {
			l = strings.TrimPrefix(l, "github.com/linuxboot/fiano/")
			if i := strings.LastIndex(l, "("); i > 0 {
				l = l[:i]
			}
			return l
		}
	}
	return "unknown"
}

// SafeRun runs p.Run(c), converting a panic into an Outcome.
func SafeRun(p Property, c Case) (out Outcome, stack string) {
	defer func() {
		if r := recover(); r != nil {
			stack = string(debug.Stack())
			frame := topFianoFrame(stack)
			msg := fmt.Sprint(r)
			if len(msg) > 200 {
				msg = msg[:200]
			}
			tag := "O"
			if pp, ok := p.(PanicPolicy); ok && !pp.PanicIsViolation() {
				tag = "M"
			}
			out = Outcome{
				Class: "panic",
				Checks: []Check{{Tag: tag, What: "no-panic", Exp: "no panic", Got: "panic: " + msg,
					Sig: "panic:" + frame}},
			}
		}
	}()
	out = p.Run(c)
	return
}

func sizeBucket(c Case) string {
	n := 0
	for _, v := range c.Args {
		n += len(v)
	}
	n /= 2
	switch {
	case n < 64:
		return "<64"
	case n < 1024:
		return "<1Ki"
	case n < 16384:
		return "<16Ki"
	case n < 262144:
		return "<256Ki"
	default:
		return ">=256Ki"
	}
}

type Options struct {
	Tier       string
	Seed       int64
	DriverPath string
	CorpusDir  string
	MaxCases   int // 0 = all
	KeepFail   int
}

// evalCase runs one case end to end and returns the failing checks.
func evalCase(p Property, d *Driver, c Case) (Outcome, []Check, []Check, string, error) {
	var out Outcome
	var stack string
	if iso, ok := p.(Isolated); ok && !inWorker {
		out, stack = runIsolated(p, iso, c)
	} else {
		out, stack = SafeRun(p, c)
	}
	var ofail, mfail []Check
	for i := range out.Checks {
		ck := &out.Checks[i]
		if ck.Req != "" {
			if d == nil {
				return out, nil, nil, stack, fmt.Errorf("check needs the model driver but none was given")
			}
			got, err := d.Ask(ck.Req)
			if err != nil {
				return out, nil, nil, stack, err
			}
			ck.Got = got
		}
		if ck.Got != ck.Exp {
			if ck.Sig == "" {
				ck.Sig = ck.What
			}
			if ck.Tag == "O" {
				ofail = append(ofail, *ck)
			} else {
				mfail = append(mfail, *ck)
			}
		}
	}
	return out, ofail, mfail, stack, nil
}

func trimCheck(ck Check) Check {
	const lim = 4000
	t := func(s string) string {
		if len(s) > lim {
			return s[:lim] + fmt.Sprintf("...(%d more)", len(s)-lim)
		}
		return s
	}
	ck.Req, ck.Exp, ck.Got = t(ck.Req), t(ck.Exp), t(ck.Got)
	return ck
}

func loadCorpus(dir string) []Case {
	var cs []Case
	files, _ := filepath.Glob(filepath.Join(dir, "*.json"))
	sort.Strings(files)
	for _, f := range files {
		b, err := os.ReadFile(f)
		if err != nil {
			continue
		}
		var c Case
		if json.Unmarshal(b, &c) == nil && c.Op != "" {
			cs = append(cs, c)
		}
	}
	return cs
}

// shrink greedily minimises c while pred(c) stays true.
func shrink(p Property, c Case, pred func(Case) bool) Case {
	s, ok := p.(Shrinker)
	if !ok {
		return c
	}
	for round := 0; round < 200; round++ {
		progressed := false
		for _, cand := range s.Shrink(c) {
			if pred(cand) {
				c = cand
				progressed = true
				break
			}
		}
		if !progressed {
			break
		}
	}
	return c
}

// Run is the main loop: corpus first, then generated cases.
func Run(p Property, opt Options) (*Stats, error) {
	t0 := time.Now()
	var d *Driver
	var err error
	if opt.DriverPath != "" {
		d, err = StartDriver(opt.DriverPath)
		if err != nil {
			return nil, err
		}
		defer d.Close()
	}
	defer StopWorkers()
	if opt.KeepFail == 0 {
		opt.KeepFail = 5
	}
	st := &Stats{Property: p.ID(), Tier: opt.Tier, Seed: opt.Seed, Kinds: map[string]int{},
		Classes: map[string]int{}, SizeHist: map[string]int{}}
	corpus := loadCorpus(opt.CorpusDir)
	st.CorpusCases = len(corpus)
	r := rand.New(rand.NewSource(opt.Seed))
	cases := append(corpus, p.Gen(r, opt.Tier)...)
	if opt.MaxCases > 0 && len(cases) > opt.MaxCases {
		cases = cases[:opt.MaxCases]
	}
	distinct := map[string]bool{}
	sampleEvery := len(cases)/4 + 1
	for i, c := range cases {
		out, ofail, mfail, stack, err := evalCase(p, d, c)
		if err != nil {
			return st, fmt.Errorf("case %d: %v", i, err)
		}
		st.Evaluations++
		st.Kinds[c.Kind]++
		st.Classes[out.Class]++
		if dc := os.Getenv("VERIF_DUMP_CLASS"); dc != "" && strings.Contains(out.Class, dc) {
			// debugging aid: print the cases of an outcome class (replayable JSON, one per line)
			b, _ := json.Marshal(map[string]interface{}{"class": out.Class, "case": c})
			fmt.Fprintln(os.Stderr, "DUMP-CLASS "+string(b))
		}
		st.SizeHist[sizeBucket(c)]++
		for _, ck := range out.Checks {
			st.ChecksRun++
			if ck.Tag == "M" {
				st.ModelChecks++
			} else {
				st.OracleChecks++
			}
		}
		if !out.Trivial {
			key := out.Key
			if key == "" {
				h := fnv.New64a()
				for _, ck := range out.Checks {
					h.Write([]byte(ck.What + "\x00" + ck.Exp + "\x00"))
				}
				key = fmt.Sprintf("%x", h.Sum64())
			}
			distinct[out.Class+"|"+key] = true
		}
		if i%sampleEvery == 0 && len(st.Samples) < 6 {
			st.Samples = append(st.Samples, trimCase(c))
		}
		record := func(list *[]Failure, count *int, fails []Check, tag string) {
			if len(fails) == 0 {
				return
			}
			*count += len(fails)
			if len(*list) >= opt.KeepFail {
				// still keep one failure per new signature
				seen := false
				for _, f := range *list {
					if f.Check.Sig == fails[0].Sig {
						seen = true
					}
				}
				if seen || len(*list) >= 40 {
					return
				}
			}
			sig := fails[0].Sig
			small := shrink(p, c, func(cc Case) bool {
				_, of, mf, _, e := evalCase(p, d, cc)
				if e != nil {
					return false
				}
				fs := of
				if tag == "M" {
					fs = mf
				}
				for _, f := range fs {
					if f.Sig == sig {
						return true
					}
				}
				return false
			})
			ck := fails[0]
			if !sameCase(small, c) {
				_, of, mf, st2, _ := evalCase(p, d, small)
				fs := of
				if tag == "M" {
					fs = mf
				}
				for _, f := range fs {
					if f.Sig == sig {
						ck = f
						stack = st2
					}
				}
			}
			*list = append(*list, Failure{Case: small, Check: trimCheck(ck), Index: i, Stack: trimStack(stack)})
		}
		record(&st.OracleFailures, &st.OracleFailCount, ofail, "O")
		record(&st.ModelFailures, &st.ModelFailCount, mfail, "M")
	}
	st.DistinctNontrivial = len(distinct)
	st.WallS = time.Since(t0).Seconds()
	return st, nil
}

func sameCase(a, b Case) bool {
	x, _ := json.Marshal(a)
	y, _ := json.Marshal(b)
	return string(x) == string(y)
}

func trimStack(s string) string {
	if len(s) > 3000 {
		return s[:3000]
	}
	return s
}

func trimCase(c Case) Case {
	out := Case{Kind: c.Kind, Op: c.Op, Args: map[string]string{}}
	for k, v := range c.Args {
		if len(v) > 600 {
			v = v[:600] + fmt.Sprintf("...(%d chars)", len(v))
		}
		out.Args[k] = v
	}
	return out
}

// Replay re-runs one stored case and reports every check.
func Replay(p Property, driverPath string, c Case) (ok bool, report []Check, err error) {
	var d *Driver
	if driverPath != "" {
		d, err = StartDriver(driverPath)
		if err != nil {
			return false, nil, err
		}
		defer d.Close()
	}
	defer StopWorkers()
	out, ofail, mfail, _, err := evalCase(p, d, c)
	if err != nil {
		return false, nil, err
	}
	return len(ofail) == 0 && len(mfail) == 0, out.Checks, nil
}
