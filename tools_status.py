#!/usr/bin/env python3
"""Print a markdown status table from checks.d, evidence and known_findings (for DESIGN.md §15)."""
import glob, json, os
root = os.path.dirname(os.path.abspath(__file__))
kf = json.load(open(os.path.join(root, "known_findings.json")))["findings"]
print("| id | theorems audited (Props + tie modules) | tie modules | quick: cases / checks / wall | unproved items | known / fixed findings |")
print("|---|---|---|---|---|---|")
for f in sorted(glob.glob(os.path.join(root, "checks.d", "*.json"))):
    c = json.load(open(f))
    i = c["id"]
    try:
        e = json.load(open(os.path.join(root, "evidence", i + ".json")))
    except Exception:
        e = {}
    cov = e.get("coverage", {})
    known = [k["id"] for k in kf if k.get("property") == i and k.get("status") == "known"]
    fixed = [k["id"] for k in kf if k.get("property") == i and k.get("status") == "fixed"]
    print("| %s | %s/%s | %d | %s / %s / %ss | %d | %s known; %d fixed |" % (
        i, cov.get("discharged", "?"), cov.get("obligations", "?"), len(c.get("tie_modules", [])),
        cov.get("evaluations", "?"), cov.get("checks_run", "?"), int(e.get("wall_s", 0)),
        len(c.get("unproved", [])), (", ".join(known) if known else "0"), len(fixed)))
