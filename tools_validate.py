#!/opt/veriftools/pyvenv/bin/python3
"""validate MANIFEST.json and every evidence file against the given schemas (python3-vt venv)"""
import glob, json, sys
import jsonschema
ok = True
def v(path, schema):
    global ok
    try:
        jsonschema.validate(json.load(open(path)), json.load(open(schema)))
        print("valid:", path)
    except Exception as e:
        ok = False
        print("INVALID:", path, str(e)[:300])
v('/verif/MANIFEST.json', '/root/.vp/MANIFEST.schema.json')
for p in sorted(glob.glob('/verif/evidence/C*.json')):
    v(p, '/root/.vp/EVIDENCE.schema.json')
sys.exit(0 if ok else 1)
