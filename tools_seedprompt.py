#!/usr/bin/env python3
"""print the prompt for a seeded-defect sub-agent: tools_seedprompt.py C07 [suffix]"""
import json, sys, os
root = os.path.dirname(os.path.abspath(__file__))
pid = sys.argv[1]
suffix = sys.argv[2] if len(sys.argv) > 2 else ""
for l in open(os.path.join(root, "properties.jsonl")):
    p = json.loads(l)
    if p["id"] == pid:
        break
else:
    sys.exit("no such property")
t = open(os.path.join(root, "reports/prompts/seeded_template.txt")).read()
a = p["anchors"]
anch = "files: " + ", ".join(a.get("files", []))
for k in ("state", "mechanism"):
    for m in a.get(k, []):
        anch += "; %s: %s (%s)" % (k, m.get("name"), m.get("where"))
if a.get("observe_at"):
    anch += "; observe at: " + " | ".join(a["observe_at"])
t = (t.replace("@ID@", pid).replace("@id@", pid.lower() + suffix).replace("@TITLE@", p["title"])
      .replace("@STATEMENT@", p["statement"]).replace("@QUANT@", p["quantifier"]["text"]).replace("@ANCHORS@", anch))
print(t)
