package main

// loopfn, part 4: one item → Lean text; registration of the kind.

import (
	"bytes"
	"fmt"
	"go/ast"
	"strings"
)

const goRtImport = "import FianoModel.CodeTie.GoRt\nset_option linter.unusedVariables false\n"

func init() {
	extraKinds["loopfn"] = emitLoopFn
}

type loopOpts struct {
	fuel     map[int]string
	in       [][2]string
	from, to string
	out      []string
}

func parseLoopOpts(arg string) (loopOpts, error) {
	o := loopOpts{fuel: map[int]string{}}
	for _, part := range strings.Split(arg, ";") {
		part = strings.TrimSpace(part)
		if part == "" {
			continue
		}
		kv := strings.SplitN(part, "=", 2)
		if len(kv) != 2 {
			return o, fmt.Errorf("option %q", part)
		}
		k, v := strings.TrimSpace(kv[0]), strings.TrimSpace(kv[1])
		switch {
		case strings.HasPrefix(k, "fuel"):
			var n int
			if _, err := fmt.Sscanf(k, "fuel%d", &n); err != nil {
				return o, fmt.Errorf("option %q", part)
			}
			o.fuel[n] = v
		case k == "in":
			for _, e := range strings.Split(v, ",") {
				i := strings.LastIndex(e, ":")
				if i < 0 {
					return o, fmt.Errorf("in= entry %q needs expr:type", e)
				}
				o.in = append(o.in, [2]string{strings.TrimSpace(e[:i]), strings.TrimSpace(e[i+1:])})
			}
		case k == "from":
			o.from = v
		case k == "to":
			o.to = v
		case k == "out":
			for _, e := range strings.Split(v, ",") {
				o.out = append(o.out, strings.TrimSpace(e))
			}
		default:
			return o, fmt.Errorf("unknown option %q", k)
		}
	}
	return o, nil
}

// translateLoopFn: the Lean text of one function (helpers first) and its signature, or an error
func translateLoopFn(p *pkgInfo, it Item, known map[string]*fnSig) (string, *fnSig, error) {
	fd, ok := p.funcs[it.Name]
	if !ok || fd.Body == nil {
		return "", nil, fmt.Errorf("function not found")
	}
	opts, err := parseLoopOpts(it.Arg)
	if err != nil {
		return "", nil, err
	}
	lname := "fn_" + leanName(it.Name)
	if it.As != "" {
		lname = it.As
	}
	c := &lctx{p: p, it: it, fname: lname, known: known, fuel: opts.fuel, ambient: map[string]*lvar{}, used: map[string]bool{}}
	c.push()
	fragment := opts.from != ""
	var params []*lvar
	addParam := func(name, typ string, ptr bool, arr int) *lvar {
		v := c.declare(name, typ)
		v.ptr, v.arrLen = ptr, arr
		params = append(params, v)
		return v
	}
	if !fragment {
		if fd.Recv != nil {
			for _, f := range fd.Recv.List {
				t, arr, ptr := c.goType(f.Type)
				if t == "" || len(f.Names) != 1 || strings.HasPrefix(t, "Struct:") {
					return "", nil, fmt.Errorf("receiver type outside the subset: %s", exprText(p.fset, f.Type))
				}
				addParam(f.Names[0].Name, t, ptr, arr)
			}
		}
		for _, f := range fd.Type.Params.List {
			t, arr, ptr := c.goType(f.Type)
			if t == "" || t == tErr {
				return "", nil, fmt.Errorf("parameter type outside the subset: %s", exprText(p.fset, f.Type))
			}
			if len(f.Names) == 0 {
				return "", nil, fmt.Errorf("unnamed parameter")
			}
			for _, n := range f.Names {
				if n.Name == "_" {
					c.tmpN++
					addParam(fmt.Sprintf("unused%d_", c.tmpN), t, ptr, arr)
					continue
				}
				addParam(n.Name, t, ptr, arr)
			}
		}
	}
	for _, in := range opts.in {
		t := parseTypeName(in[1])
		if t == "" {
			return "", nil, fmt.Errorf("in= type %q", in[1])
		}
		isIdent := !strings.ContainsAny(in[0], ".()[] ")
		if isIdent {
			addParam(in[0], t, false, 0)
			continue
		}
		c.seq++
		v := &lvar{goName: in[0], lean: leanName(strings.NewReplacer("(", "", ")", "", ",", "_").Replace(in[0])), typ: t, seq: c.seq, depth: 1}
		c.used[v.lean] = true
		c.ambient[in[0]] = v
		params = append(params, v)
	}
	// results
	var resLean []string
	if !fragment && fd.Type.Results != nil {
		for _, f := range fd.Type.Results.List {
			t, _, ptr := c.goType(f.Type)
			if t == "" || ptr {
				return "", nil, fmt.Errorf("result type outside the subset: %s", exprText(p.fset, f.Type))
			}
			k := len(f.Names)
			if k == 0 {
				k = 1
			}
			for i := 0; i < k; i++ {
				c.resTys = append(c.resTys, t)
				resLean = append(resLean, leanTy(t))
			}
		}
	}
	c.noRes = len(c.resTys) == 0
	body := fd.Body.List
	if fragment {
		lo, hi := -1, -1
		for i, s := range body {
			txt := exprText(p.fset, s)
			if lo < 0 && strings.HasPrefix(txt, opts.from) {
				lo = i
			}
			if lo >= 0 && hi < 0 && i >= lo && (opts.to == "" || strings.HasPrefix(txt, opts.to)) && (opts.to != "" || i == lo) {
				hi = i
			}
		}
		if lo < 0 || hi < 0 {
			// search one level deeper (the fragment may sit inside an if-block)
			var found []ast.Stmt
			ast.Inspect(fd.Body, func(n ast.Node) bool {
				bl, ok := n.(*ast.BlockStmt)
				if !ok || found != nil {
					return found == nil
				}
				l2, h2 := -1, -1
				for i, s := range bl.List {
					txt := exprText(p.fset, s)
					if l2 < 0 && strings.HasPrefix(txt, opts.from) {
						l2 = i
					}
					if l2 >= 0 && h2 < 0 && (opts.to == "" && i == l2 || opts.to != "" && strings.HasPrefix(txt, opts.to)) {
						h2 = i
					}
				}
				if l2 >= 0 && h2 >= 0 {
					found = bl.List[l2 : h2+1]
				}
				return true
			})
			if found == nil {
				return "", nil, fmt.Errorf("fragment from=%q to=%q not found", opts.from, opts.to)
			}
			body = found
		} else {
			body = body[lo : hi+1]
		}
	}
	// extra outputs: pointer parameters and []byte parameters written by the body
	bodyBlock := &ast.BlockStmt{List: body}
	assigned, _ := c.assignedAndRead(bodyBlock)
	isAssigned := map[*lvar]bool{}
	for _, v := range assigned {
		isAssigned[v] = true
	}
	if !fragment {
		for _, v := range params {
			if v.typ == tBytes && isAssigned[v] || v.ptr {
				c.outs = append(c.outs, v)
				resLean = append(resLean, leanTy(v.typ))
			}
		}
		// aliasing: element writes are only translated when no second slice can share the memory
		nslices := 0
		for _, v := range params {
			if v.typ == tBytes {
				nslices++
			}
		}
		for _, v := range c.outs {
			if v.typ == tBytes && nslices > 1 {
				return "", nil, fmt.Errorf("writes %s while another []byte parameter may alias it", v.goName)
			}
		}
	} else {
		for _, o := range opts.out {
			c.outs = append(c.outs, &lvar{goName: o, lean: o})
		}
	}
	// named results
	if !fragment && fd.Type.Results != nil {
		i := 0
		for _, f := range fd.Type.Results.List {
			for _, n := range f.Names {
				v := c.declare(n.Name, c.resTys[i])
				c.named = append(c.named, v)
				i++
			}
		}
	}
	c.opt = c.effectful(bodyBlock)
	c.push()
	var pre []string
	for _, v := range c.named {
		pre = append(pre, c.letLine(v, c.zero(v.typ)))
	}
	// fragment outputs get their types when the fragment ends
	var fragTypes []string
	end := c.fnEnd
	if fragment {
		end = func() []string {
			var vs []string
			fragTypes = nil
			for _, o := range c.outs {
				v := c.lookup(o.goName)
				if v == nil {
					c.fail("fragment output %s is not a variable at the end of the fragment", o.goName)
					return []string{"()"}
				}
				vs = append(vs, v.lean)
				fragTypes = append(fragTypes, leanTy(v.typ))
			}
			t := "(" + strings.Join(vs, ", ") + ")"
			if len(vs) == 1 {
				t = vs[0]
			}
			return []string{c.pure(t)}
		}
		// the result type is needed by helpers with `return`: fragments may not contain one
		if r, _, _ := mayJump(bodyBlock); r {
			return "", nil, fmt.Errorf("a fragment may not contain return")
		}
	}
	switch len(resLean) {
	case 0:
		c.retTy = "Unit"
	case 1:
		c.retTy = resLean[0]
	default:
		c.retTy = strings.Join(resLean, " × ")
	}
	lines := c.stmts(body, end)
	if c.err != "" {
		return "", nil, fmt.Errorf("outside the translatable subset: %s", c.err)
	}
	if fragment {
		if len(fragTypes) == 0 {
			return "", nil, fmt.Errorf("fragment without out=")
		}
		c.retTy = strings.Join(fragTypes, " × ")
	}
	var b bytes.Buffer
	for _, h := range c.helpers {
		b.WriteString(h + "\n")
	}
	what := "`func " + it.Name + "`"
	if fragment {
		what = fmt.Sprintf("a fragment of `func %s` (statements from `%s`)", it.Name, opts.from)
	}
	pos := p.fset.Position(fd.Pos())
	doc := fmt.Sprintf("translated from %s (%s/%s)", what, p.dir, pos.Filename[strings.LastIndex(pos.Filename, "/")+1:])
	var outNames []string
	for _, o := range c.outs {
		if o.ptr {
			outNames = append(outNames, "*"+o.goName+" afterwards")
		} else if !fragment {
			outNames = append(outNames, o.goName+" afterwards")
		} else {
			outNames = append(outNames, o.goName)
		}
	}
	if len(outNames) > 0 {
		if fragment {
			doc += "; yields (" + strings.Join(outNames, ", ") + ")"
		} else if len(c.resTys) > 0 {
			doc += "; yields (results…, " + strings.Join(outNames, ", ") + ")"
		} else {
			doc += "; yields " + strings.Join(outNames, ", ")
		}
	}
	if c.opt {
		doc += "; `none` = run-time panic or a loop out of fuel"
	}
	usesInt := strings.Contains(c.retTy, "Int") && !strings.Contains(c.retTy, "UInt")
	for _, l := range append(append([]string{}, lines...), c.helpers...) {
		if strings.Contains(l, ": Int)") || strings.Contains(l, ": Int :=") || strings.Contains(l, "→ Int") {
			usesInt = true
		}
	}
	for _, v := range params {
		if v.typ == tInt {
			usesInt = true
		}
	}
	if usesInt {
		doc += "; Go `int` is unbounded `Int` here (exact while no value leaves the int64 range)"
	}
	ret := c.retTy
	doKw := ""
	if c.opt {
		ret = "Option (" + ret + ")"
		doKw = " do"
	}
	fmt.Fprintf(&b, "/-- %s -/\ndef %s : %s :=%s\n", doc, defHead(lname, params), ret, doKw)
	for _, ln := range ind(append(pre, lines...), 2) {
		b.WriteString(ln + "\n")
	}
	sig := &fnSig{lean: lname, opt: c.opt, results: c.resTys, extra: len(c.outs)}
	for _, v := range params {
		sig.params = append(sig.params, v.typ)
	}
	if fd.Recv != nil {
		sig.params = sig.params[1:] // calls use method syntax, not supported as callee anyway
	}
	return b.String(), sig, nil
}

var loopKnown = map[*emitter]map[string]*fnSig{}

func emitLoopFn(em *emitter, p *pkgInfo, it Item) {
	known := loopKnown[em]
	if known == nil {
		known = map[string]*fnSig{}
		loopKnown[em] = known
	}
	// make sure the generated file imports the run-time support (the header is written by main.go)
	if s := em.b.String(); !strings.Contains(s, goRtImport) {
		i := strings.Index(s, "\n") + 1
		em.b.Reset()
		em.b.WriteString(s[:i] + goRtImport + s[i:])
	}
	text, sig, err := translateLoopFn(p, it, known)
	name := "fn_" + leanName(it.Name)
	if it.As != "" {
		name = it.As
	}
	if err != nil {
		em.failed = append(em.failed, it.Kind+":"+it.Name+" ("+err.Error()+")")
		fmt.Fprintf(&em.b, "-- EXTRACTION FAILED: %s\ndef %s : Nat := 0\n\n", strings.ReplaceAll(err.Error(), "\n", " "), name)
		return
	}
	em.b.WriteString(text + "\n")
	key := it.Name
	known[key] = sig
}
