package main

// exprfn: translate a *pure integer function* of the Go source into a Lean definition over the
// fixed-width types UInt8 … UInt64 (wrap-around arithmetic identical to Go's), so that the model's
// arithmetic can be tied to the code by a theorem `∀ x, model x = Gen.fn_F x` instead of by
// constants only.  Supported subset (anything else = extraction failure, reported):
//   params / result : uint8 | uint16 | uint32 | uint64 | bool        (result may also be a named
//                     type whose underlying type is one of these)
//   statements      : x := e | var x T = e | if c { return e } [else { return e }] | return e
//   expressions     : identifiers, integer literals, package constants (incl. pkg.Const of another
//                     fiano package), + - * / % & | ^ &^ << >> (shift by a literal < width only),
//                     unary ^ -, comparisons, && || !, conversions T(e), calls of other
//                     translated functions of the same area.

import (
	"fmt"
	"go/ast"
	"go/token"
	"strconv"
	"strings"
)

var leanInt = map[string]string{"uint8": "UInt8", "byte": "UInt8", "uint16": "UInt16", "uint32": "UInt32", "uint64": "UInt64"}
var intBits = map[string]int{"UInt8": 8, "UInt16": 16, "UInt32": 32, "UInt64": 64}

type fnCtx struct {
	p      *pkgInfo
	vars   map[string]string // local name -> Lean type
	known  map[string]string // translated function name -> result Lean type
	params map[string][]string
	err    string
}

func (c *fnCtx) fail(format string, a ...interface{}) string {
	if c.err == "" {
		c.err = fmt.Sprintf(format, a...)
	}
	return "0"
}

func (c *fnCtx) leanType(e ast.Expr) string {
	switch t := e.(type) {
	case *ast.Ident:
		if l, ok := leanInt[t.Name]; ok {
			return l
		}
		if t.Name == "bool" {
			return "Bool"
		}
		if u, ok := c.p.types[t.Name]; ok {
			return c.leanType(u)
		}
	}
	return ""
}

// constValue resolves an identifier or pkg.Ident to a folded constant.
func (c *fnCtx) constValue(e ast.Expr) (int64, bool) {
	switch x := e.(type) {
	case *ast.Ident:
		if c.p.constOK[x.Name] {
			return c.p.consts[x.Name], true
		}
	case *ast.SelectorExpr:
		if id, ok := x.X.(*ast.Ident); ok {
			for _, f := range c.p.files {
				if dir := c.p.importDir(f, id.Name); dir != "" {
					q, err := loadPkg(dir)
					if err == nil && q.constOK[x.Sel.Name] {
						return q.consts[x.Sel.Name], true
					}
				}
			}
		}
	}
	return 0, false
}

func lit(v uint64, ty string) string {
	if ty == "" || ty == "Bool" {
		ty = "UInt64"
	}
	return fmt.Sprintf("(%d : %s)", v, ty)
}

// typeOf returns the Lean type of e, or "" for an untyped constant.
func (c *fnCtx) typeOf(e ast.Expr) string {
	switch x := e.(type) {
	case *ast.BasicLit:
		return ""
	case *ast.Ident:
		if t, ok := c.vars[x.Name]; ok {
			return t
		}
		if x.Name == "true" || x.Name == "false" {
			return "Bool"
		}
		return ""
	case *ast.SelectorExpr:
		return ""
	case *ast.ParenExpr:
		return c.typeOf(x.X)
	case *ast.UnaryExpr:
		if x.Op == token.NOT {
			return "Bool"
		}
		return c.typeOf(x.X)
	case *ast.BinaryExpr:
		switch x.Op {
		case token.EQL, token.NEQ, token.LSS, token.LEQ, token.GTR, token.GEQ, token.LAND, token.LOR:
			return "Bool"
		case token.SHL, token.SHR:
			return c.typeOf(x.X)
		}
		if t := c.typeOf(x.X); t != "" {
			return t
		}
		return c.typeOf(x.Y)
	case *ast.CallExpr:
		if t := c.leanType(x.Fun); t != "" {
			return t
		}
		if id, ok := x.Fun.(*ast.Ident); ok {
			if t, ok := c.known[id.Name]; ok {
				return t
			}
		}
	}
	return ""
}

// expr renders e at Lean type want ("" = whatever typeOf says; for untyped constants UInt64).
func (c *fnCtx) expr(e ast.Expr, want string) string {
	switch x := e.(type) {
	case *ast.BasicLit:
		v, ok := c.p.eval(x, 0)
		if !ok {
			return c.fail("literal %s", x.Value)
		}
		return lit(uint64(v), want)
	case *ast.Ident:
		if _, ok := c.vars[x.Name]; ok {
			return x.Name
		}
		if x.Name == "true" || x.Name == "false" {
			return x.Name
		}
		if v, ok := c.constValue(x); ok {
			return lit(uint64(v), want)
		}
		return c.fail("unknown identifier %s", x.Name)
	case *ast.SelectorExpr:
		if v, ok := c.constValue(x); ok {
			return lit(uint64(v), want)
		}
		return c.fail("unsupported selector %s", exprText(c.p.fset, x))
	case *ast.ParenExpr:
		return "(" + c.expr(x.X, want) + ")"
	case *ast.UnaryExpr:
		switch x.Op {
		case token.XOR:
			return "(~~~" + c.expr(x.X, want) + ")"
		case token.SUB:
			t := c.typeOf(x.X)
			if t == "" {
				t = want
			}
			return "(" + lit(0, t) + " - " + c.expr(x.X, t) + ")"
		case token.NOT:
			return "(!" + c.expr(x.X, "Bool") + ")"
		}
		return c.fail("unary %s", x.Op)
	case *ast.BinaryExpr:
		t := c.typeOf(x.X)
		if t == "" || t == "Bool" && x.Op != token.LAND && x.Op != token.LOR {
			if t2 := c.typeOf(x.Y); t2 != "" {
				t = t2
			}
		}
		if t == "" {
			t = want
		}
		ops := map[token.Token]string{token.ADD: "+", token.SUB: "-", token.MUL: "*", token.QUO: "/", token.REM: "%",
			token.AND: "&&&", token.OR: "|||", token.XOR: "^^^"}
		switch x.Op {
		case token.ADD, token.SUB, token.MUL, token.QUO, token.REM, token.AND, token.OR, token.XOR:
			return "(" + c.expr(x.X, t) + " " + ops[x.Op] + " " + c.expr(x.Y, t) + ")"
		case token.AND_NOT:
			return "(" + c.expr(x.X, t) + " &&& ~~~" + c.expr(x.Y, t) + ")"
		case token.SHL, token.SHR:
			lt := c.typeOf(x.X)
			if lt == "" {
				lt = want
			}
			n, ok := c.p.eval(x.Y, 0)
			if !ok || n < 0 || int(n) >= intBits[lt] {
				return c.fail("shift amount is not a literal below the operand width in %s", exprText(c.p.fset, x))
			}
			op := "<<<"
			if x.Op == token.SHR {
				op = ">>>"
			}
			return "(" + c.expr(x.X, lt) + " " + op + " " + lit(uint64(n), lt) + ")"
		case token.EQL, token.NEQ, token.LSS, token.LEQ, token.GTR, token.GEQ:
			cmp := map[token.Token]string{token.EQL: "==", token.NEQ: "!=", token.LSS: "<", token.LEQ: "≤", token.GTR: ">", token.GEQ: "≥"}
			ot := c.typeOf(x.X)
			if ot == "" {
				ot = c.typeOf(x.Y)
			}
			if ot == "" {
				ot = "UInt64"
			}
			if x.Op == token.EQL || x.Op == token.NEQ {
				return "(" + c.expr(x.X, ot) + " " + cmp[x.Op] + " " + c.expr(x.Y, ot) + ")"
			}
			return "(decide (" + c.expr(x.X, ot) + " " + cmp[x.Op] + " " + c.expr(x.Y, ot) + "))"
		case token.LAND:
			return "(" + c.expr(x.X, "Bool") + " && " + c.expr(x.Y, "Bool") + ")"
		case token.LOR:
			return "(" + c.expr(x.X, "Bool") + " || " + c.expr(x.Y, "Bool") + ")"
		}
		return c.fail("binary %s", x.Op)
	case *ast.CallExpr:
		if t := c.leanType(x.Fun); t != "" && len(x.Args) == 1 { // conversion
			at := c.typeOf(x.Args[0])
			if at == "" {
				return c.expr(x.Args[0], t)
			}
			if at == t {
				return c.expr(x.Args[0], t)
			}
			return "(" + c.expr(x.Args[0], at) + ").to" + t
		}
		if id, ok := x.Fun.(*ast.Ident); ok {
			if _, ok := c.known[id.Name]; ok {
				ps := c.params[id.Name]
				if len(ps) != len(x.Args) {
					return c.fail("arity of %s", id.Name)
				}
				var as []string
				for i, a := range x.Args {
					as = append(as, c.expr(a, ps[i]))
				}
				return "(fn_" + id.Name + " " + strings.Join(as, " ") + ")"
			}
		}
		return c.fail("unsupported call %s", exprText(c.p.fset, x))
	}
	return c.fail("unsupported expression %s", exprText(c.p.fset, e))
}

// stmts renders a statement list that must end by returning on every path.
func (c *fnCtx) stmts(list []ast.Stmt, ret string, indent string) string {
	if len(list) == 0 {
		return c.fail("function may fall off the end")
	}
	s := list[0]
	rest := list[1:]
	switch x := s.(type) {
	case *ast.ReturnStmt:
		if len(x.Results) != 1 {
			return c.fail("return with %d results", len(x.Results))
		}
		return indent + c.expr(x.Results[0], ret)
	case *ast.AssignStmt:
		if x.Tok != token.DEFINE || len(x.Lhs) != 1 || len(x.Rhs) != 1 {
			return c.fail("unsupported assignment %s", exprText(c.p.fset, x))
		}
		id, ok := x.Lhs[0].(*ast.Ident)
		if !ok {
			return c.fail("unsupported assignment target")
		}
		t := c.typeOf(x.Rhs[0])
		if t == "" {
			t = "UInt64"
		}
		rhs := c.expr(x.Rhs[0], t)
		c.vars[id.Name] = t
		return indent + "let " + id.Name + " : " + t + " := " + rhs + "\n" + c.stmts(rest, ret, indent)
	case *ast.IfStmt:
		if x.Init != nil {
			return c.fail("if with init statement")
		}
		cond := c.expr(x.Cond, "Bool")
		thenS := c.stmts(x.Body.List, ret, indent+"  ")
		var elseS string
		if x.Else != nil {
			eb, ok := x.Else.(*ast.BlockStmt)
			if !ok {
				return c.fail("else-if chains are not supported")
			}
			if len(rest) != 0 {
				return c.fail("statements after if/else")
			}
			elseS = c.stmts(eb.List, ret, indent+"  ")
		} else {
			elseS = c.stmts(rest, ret, indent+"  ")
		}
		return indent + "if " + cond + " then\n" + thenS + "\n" + indent + "else\n" + elseS
	}
	return c.fail("unsupported statement %s", strings.SplitN(exprText(c.p.fset, s), "\n", 2)[0])
}

// emitExprFn translates function it.Name; `known` carries the functions already translated in this area.
func (em *emitter) emitExprFn(p *pkgInfo, it Item, known map[string]string, params map[string][]string) {
	fd, ok := p.funcs[it.Name]
	if !ok || fd.Body == nil {
		em.fail(it, "Nat", "0", "function not found")
		return
	}
	c := &fnCtx{p: p, vars: map[string]string{}, known: known, params: params}
	var sig []string
	var ptypes []string
	for _, f := range fd.Type.Params.List {
		t := c.leanType(f.Type)
		if t == "" {
			em.fail(it, "Nat", "0", "parameter type not a fixed-width unsigned integer: "+exprText(p.fset, f.Type))
			return
		}
		for _, n := range f.Names {
			c.vars[n.Name] = t
			sig = append(sig, "("+n.Name+" : "+t+")")
			ptypes = append(ptypes, t)
		}
	}
	if fd.Type.Results == nil || len(fd.Type.Results.List) != 1 {
		em.fail(it, "Nat", "0", "needs exactly one result")
		return
	}
	ret := c.leanType(fd.Type.Results.List[0].Type)
	if ret == "" {
		em.fail(it, "Nat", "0", "result type not a fixed-width unsigned integer or bool")
		return
	}
	body := c.stmts(fd.Body.List, ret, "  ")
	if c.err != "" {
		em.fail(it, "Nat", "0", "outside the translatable subset: "+c.err)
		return
	}
	name := "fn_" + leanName(it.Name)
	fmt.Fprintf(&em.b, "/-- translated from `func %s` -/\ndef %s %s : %s :=\n%s\n\n", it.Name, name, strings.Join(sig, " "), ret, body)
	known[it.Name] = ret
	params[it.Name] = ptypes
	_ = strconv.Itoa
}
