package main

// Kind `nvlistfn` (C10, wp-c10c): translate *as code* a method of a struct that holds a byte buffer
// and a list of 16-byte GUIDs and reads GUIDs from the buffer through a bytes.Reader — the shape of
// `(*NVarStore).getGUIDFromStore` — into a Lean definition (Gen/CodeNvram.lean).  `loopfn` cannot
// take it (struct receiver, []guid.GUID, binary.Read into a slice element, Seek, append).
//
// Nothing is matched as text: the emitter walks the AST, every expression of the output (guards,
// make length, Seek offset, loop start / condition / step, element index, returns) is translated
// from the corresponding Go expression, and anything outside the subset below is an extraction
// failure (Gen/report.json → T1 broken).  Run-time support: lean/FianoModel/Nvram/GuidRt.lean.
//
//   types        uint8 → UInt8 (wraps as Go); int, int64 → Int (unbounded: assumption A-int of
//                reports/T1X.md); guid.GUID → List UInt8; []guid.GUID → List (List UInt8); []byte →
//                List UInt8; *bytes.Reader → GuidRt.Rd (buffer, position)
//   receiver     pointer to a struct: the fields that are read become parameters, the final value
//                of every field that is assigned becomes an extra result
//   statements   var x T (unused value); x := e; f.x = e; if c { … } (no else); if with an init that is
//                `_, err := r.Seek(e, io.SeekEnd)` or `err := binary.Read(r, binary.LittleEndian, &a[e])`
//                and the condition `err != nil`; for x := e; x >= c; x-- { … } / x < c; x++; break; return e
//   expressions  identifiers, integer literals, + - * on equal types, unary -, < <= > >= == !=, len(x),
//                int(e), int64(e), binary.Size(v) of a fixed-size value, f.x[e] (an Option: none = panic),
//                *V for a package variable V = guid.MustParse("00000000-0000-…") (the zero GUID), make([]guid.GUID, e),
//                append(x, a...), bytes.NewReader(b)
//   result       Option (result × assigned fields…): none = Go panics or a loop ran out of fuel

import (
	"fmt"
	"go/ast"
	"go/token"
	"strings"
)

const guidRtImport = "import FianoModel.Nvram.GuidRt\nset_option linter.unusedVariables false\n"

const (
	ltU8    = "UInt8"
	ltInt   = "Int"
	ltBool  = "Bool"
	ltGuid  = "Guid"
	ltGuids = "Guids"
	ltBytes = "Bytes"
	ltRd    = "Rd"
)

func lfLean(t string) string {
	switch t {
	case ltGuid, ltBytes:
		return "List UInt8"
	case ltGuids:
		return "List (List UInt8)"
	case ltRd:
		return "GuidRt.Rd"
	}
	return t
}

type lfCtx struct {
	p      *pkgInfo
	recv   string            // receiver name
	fields map[string]string // field -> type
	used   []string          // fields in order of first use (parameters)
	asg    []string          // assigned fields (extra results)
	vars   map[string]string // local / parameter -> type
	fixed  map[string]int    // local of fixed size -> bytes (binary.Size)
	resTy  string
	loops  []string // emitted helper definitions
	fname  string
	nloop  int
}

type lfErr struct{ s string }

func (c *lfCtx) fail(format string, a ...interface{}) { panic(lfErr{fmt.Sprintf(format, a...)}) }

func (c *lfCtx) typeOf(e ast.Expr) string {
	switch exprText(c.p.fset, e) {
	case "uint8", "byte":
		return ltU8
	case "int", "int64":
		return ltInt
	case "guid.GUID":
		return ltGuid
	case "[]guid.GUID":
		return ltGuids
	case "[]byte":
		return ltBytes
	case "bool":
		return ltBool
	}
	c.fail("type outside the subset: %s", exprText(c.p.fset, e))
	return ""
}

func (c *lfCtx) field(name string) string {
	t, ok := c.fields[name]
	if !ok {
		c.fail("unknown receiver field %s", name)
	}
	for _, u := range c.used {
		if u == name {
			return t
		}
	}
	c.used = append(c.used, name)
	return t
}

func (c *lfCtx) fieldVar(name string) string { return c.recv + "_" + name }

// expression → (Lean text, type); `want` types an untyped integer literal
func (c *lfCtx) ex(e ast.Expr, want string) (string, string) {
	switch x := e.(type) {
	case *ast.ParenExpr:
		return c.ex(x.X, want)
	case *ast.BasicLit:
		if x.Kind != token.INT {
			c.fail("literal %s", x.Value)
		}
		if want != ltU8 && want != ltInt {
			c.fail("integer literal %s without a numeric context", x.Value)
		}
		return fmt.Sprintf("(%s : %s)", x.Value, want), want
	case *ast.Ident:
		if t, ok := c.vars[x.Name]; ok {
			return x.Name, t
		}
		c.fail("unknown identifier %s", x.Name)
	case *ast.SelectorExpr:
		if id, ok := x.X.(*ast.Ident); ok && id.Name == c.recv {
			t := c.field(x.Sel.Name)
			return c.fieldVar(x.Sel.Name), t
		}
		c.fail("selector %s", exprText(c.p.fset, x))
	case *ast.StarExpr:
		if id, ok := x.X.(*ast.Ident); ok {
			if init, ok := c.p.vars[id.Name]; ok {
				// a package variable initialised with the all-zero GUID text (any byte order of zeros is zeros)
				t := exprText(c.p.fset, init)
				if strings.HasPrefix(t, `guid.MustParse("`) && strings.HasSuffix(t, `")`) {
					lit := strings.TrimSuffix(strings.TrimPrefix(t, `guid.MustParse("`), `")`)
					if len(lit) == 36 && strings.Trim(lit, "0-") == "" {
						return "GuidRt.zeroGuid", ltGuid
					}
				}
			}
		}
		c.fail("dereference %s", exprText(c.p.fset, x))
	case *ast.UnaryExpr:
		if x.Op == token.SUB {
			s, t := c.ex(x.X, want)
			if t != ltInt {
				c.fail("unary minus on %s", t)
			}
			return "(-" + s + ")", ltInt
		}
		c.fail("unary %s", x.Op)
	case *ast.BinaryExpr:
		_, litL := x.X.(*ast.BasicLit)
		var ls, lt, rs, rt string
		if litL {
			rs, rt = c.ex(x.Y, want)
			ls, lt = c.ex(x.X, rt)
		} else {
			ls, lt = c.ex(x.X, want)
			rs, rt = c.ex(x.Y, lt)
		}
		if lt != rt || (lt != ltU8 && lt != ltInt) {
			c.fail("operands of %s: %s, %s", x.Op, lt, rt)
		}
		switch x.Op {
		case token.ADD, token.SUB, token.MUL:
			return fmt.Sprintf("(%s %s %s)", ls, x.Op, rs), lt
		case token.LSS, token.LEQ, token.GTR, token.GEQ:
			op := map[token.Token]string{token.LSS: "<", token.LEQ: "≤", token.GTR: ">", token.GEQ: "≥"}[x.Op]
			return fmt.Sprintf("(decide (%s %s %s))", ls, op, rs), ltBool
		case token.EQL:
			return fmt.Sprintf("(%s == %s)", ls, rs), ltBool
		case token.NEQ:
			return fmt.Sprintf("(%s != %s)", ls, rs), ltBool
		}
		c.fail("operator %s", x.Op)
	case *ast.CallExpr:
		fn := exprText(c.p.fset, x.Fun)
		switch fn {
		case "len":
			s, t := c.ex(x.Args[0], "")
			if t != ltGuids && t != ltBytes && t != ltGuid {
				c.fail("len of %s", t)
			}
			return fmt.Sprintf("((%s).length : Int)", s), ltInt
		case "int", "int64":
			s, t := c.ex(x.Args[0], ltInt)
			switch t {
			case ltU8:
				return fmt.Sprintf("((%s).toNat : Int)", s), ltInt
			case ltInt:
				return s, ltInt
			}
			c.fail("conversion %s of %s", fn, t)
		case "binary.Size":
			if id, ok := x.Args[0].(*ast.Ident); ok {
				if n, ok := c.fixed[id.Name]; ok {
					return fmt.Sprintf("(%d : Int)", n), ltInt
				}
			}
			c.fail("binary.Size of %s", exprText(c.p.fset, x.Args[0]))
		case "make":
			if len(x.Args) == 2 && c.typeOf(x.Args[0]) == ltGuids {
				n, t := c.ex(x.Args[1], ltInt)
				if t != ltInt {
					c.fail("make length of type %s", t)
				}
				return "GuidRt.mkGuids " + n, "Option:" + ltGuids
			}
			c.fail("make %s", exprText(c.p.fset, x))
		case "append":
			if len(x.Args) == 2 && x.Ellipsis.IsValid() {
				a, ta := c.ex(x.Args[0], "")
				b, tb := c.ex(x.Args[1], "")
				if ta == ltGuids && tb == ltGuids {
					return fmt.Sprintf("(%s ++ %s)", a, b), ltGuids
				}
			}
			c.fail("append %s", exprText(c.p.fset, x))
		case "bytes.NewReader":
			b, t := c.ex(x.Args[0], "")
			if t != ltBytes {
				c.fail("bytes.NewReader of %s", t)
			}
			return "GuidRt.newReader " + b, ltRd
		}
		c.fail("call %s", fn)
	case *ast.IndexExpr:
		l, tl := c.ex(x.X, "")
		i, ti := c.ex(x.Index, ltInt)
		if tl != ltGuids {
			c.fail("index into %s", tl)
		}
		switch ti {
		case ltU8:
			i = fmt.Sprintf("((%s).toNat : Int)", i)
		case ltInt:
		default:
			c.fail("index of type %s", ti)
		}
		return fmt.Sprintf("GuidRt.getAt %s %s", l, i), "Option:" + ltGuid
	}
	c.fail("expression outside the subset: %s", exprText(c.p.fset, e))
	return "", ""
}

// the value returned by `return e` / at a loop exit
type lfK struct {
	ret  func(val string, opt bool, ind string) string // function return
	brk  func(ind string) string                       // `break` (nil outside loops)
	next func(ind string) string                       // end of the statement list
}

func (c *lfCtx) retTuple(val string) string {
	parts := []string{val}
	for _, f := range c.asg {
		parts = append(parts, c.fieldVar(f))
	}
	return "(" + strings.Join(parts, ", ") + ")"
}

func isErrNotNil(c *lfCtx, e ast.Expr) bool { return exprText(c.p.fset, e) == "err != nil" }

// statements → Lean (a `do` block body in the Option monad)
func (c *lfCtx) stmts(list []ast.Stmt, k lfK, ind string) string {
	if len(list) == 0 {
		return k.next(ind)
	}
	s, rest := list[0], list[1:]
	src := "-- " + exprTextShort(c.p.fset, s) + "\n" + ind
	switch x := s.(type) {
	case *ast.DeclStmt:
		gd, ok := x.Decl.(*ast.GenDecl)
		if !ok || gd.Tok != token.VAR || len(gd.Specs) != 1 {
			c.fail("declaration %s", exprText(c.p.fset, x))
		}
		vs := gd.Specs[0].(*ast.ValueSpec)
		if len(vs.Names) != 1 || len(vs.Values) != 0 || c.typeOf(vs.Type) != ltGuid {
			c.fail("declaration %s", exprText(c.p.fset, x))
		}
		n := c.p.sizeOfGuid(vs.Type)
		if n <= 0 {
			c.fail("size of %s unknown", exprText(c.p.fset, vs.Type))
		}
		c.fixed[vs.Names[0].Name] = n // only its size is used (binary.Size)
		return c.stmts(rest, k, ind)
	case *ast.AssignStmt:
		if len(x.Lhs) != 1 || len(x.Rhs) != 1 {
			c.fail("assignment %s", exprText(c.p.fset, x))
		}
		var name string
		switch l := x.Lhs[0].(type) {
		case *ast.Ident:
			if x.Tok != token.DEFINE {
				c.fail("assignment to %s", l.Name)
			}
			name = l.Name
		case *ast.SelectorExpr:
			id, ok := l.X.(*ast.Ident)
			if !ok || id.Name != c.recv || x.Tok != token.ASSIGN {
				c.fail("assignment %s", exprText(c.p.fset, x))
			}
			c.field(l.Sel.Name)
			name = c.fieldVar(l.Sel.Name)
		default:
			c.fail("assignment %s", exprText(c.p.fset, x))
		}
		v, t := c.ex(x.Rhs[0], "")
		bind := ":="
		if strings.HasPrefix(t, "Option:") {
			bind, t = "←", strings.TrimPrefix(t, "Option:")
		}
		if _, isSel := x.Lhs[0].(*ast.SelectorExpr); !isSel {
			c.vars[name] = t
		}
		return src + fmt.Sprintf("let %s : %s %s %s\n%s", name, lfLean(t), bind, v, ind) + c.stmts(rest, k, ind)
	case *ast.ReturnStmt:
		if len(x.Results) != 1 {
			c.fail("return %s", exprText(c.p.fset, x))
		}
		v, t := c.ex(x.Results[0], c.resTy)
		opt := strings.HasPrefix(t, "Option:")
		if strings.TrimPrefix(t, "Option:") != c.resTy {
			c.fail("return of type %s", t)
		}
		return src + k.ret(v, opt, ind)
	case *ast.BranchStmt:
		if x.Tok == token.BREAK && x.Label == nil && k.brk != nil {
			return src + k.brk(ind)
		}
		c.fail("branch %s", exprText(c.p.fset, x))
	case *ast.IfStmt:
		if x.Else != nil {
			c.fail("if with else")
		}
		in2 := ind + "  "
		saved := c.saveVars()
		if x.Init == nil {
			cond, t := c.ex(x.Cond, "")
			if t != ltBool {
				c.fail("condition of type %s", t)
			}
			thenS := c.stmts(append(append([]ast.Stmt{}, x.Body.List...), rest...), k, in2)
			c.restoreVars(saved)
			elseS := c.stmts(rest, k, in2)
			return src + fmt.Sprintf("if %s then do\n%s%s\n%selse do\n%s%s", cond, in2, thenS, ind, in2, elseS)
		}
		as, ok := x.Init.(*ast.AssignStmt)
		if !ok || as.Tok != token.DEFINE || len(as.Rhs) != 1 || !isErrNotNil(c, x.Cond) {
			c.fail("if statement %s", exprTextShort(c.p.fset, x))
		}
		call, ok := as.Rhs[0].(*ast.CallExpr)
		if !ok {
			c.fail("if init %s", exprText(c.p.fset, as))
		}
		fn := exprText(c.p.fset, call.Fun)
		lhs := exprText(c.p.fset, as.Lhs[0])
		if len(as.Lhs) == 2 {
			lhs += ", " + exprText(c.p.fset, as.Lhs[1])
		}
		// `_, err := r.Seek(e, io.SeekEnd)`
		if sel, ok := call.Fun.(*ast.SelectorExpr); ok && sel.Sel.Name == "Seek" && lhs == "_, err" && len(call.Args) == 2 &&
			exprText(c.p.fset, call.Args[1]) == "io.SeekEnd" {
			r, tr := c.ex(sel.X, "")
			off, to := c.ex(call.Args[0], ltInt)
			if tr != ltRd || to != ltInt {
				c.fail("Seek on %s with offset %s", tr, to)
			}
			errS := c.stmts(append(append([]ast.Stmt{}, x.Body.List...), rest...), k, in2)
			c.restoreVars(saved)
			okS := c.stmts(rest, k, in2)
			return src + fmt.Sprintf("match GuidRt.seekEnd %s %s with\n%s| none => do\n%s%s\n%s| some %s => do\n%s%s", r, off, ind, in2, errS, ind, r, in2, okS)
		}
		// `err := binary.Read(r, binary.LittleEndian, &a[e])`
		if fn == "binary.Read" && lhs == "err" && len(call.Args) == 3 && exprText(c.p.fset, call.Args[1]) == "binary.LittleEndian" {
			r, tr := c.ex(call.Args[0], "")
			u, ok := call.Args[2].(*ast.UnaryExpr)
			if !ok || u.Op != token.AND || tr != ltRd {
				c.fail("binary.Read target %s", exprText(c.p.fset, call.Args[2]))
			}
			ix, ok := u.X.(*ast.IndexExpr)
			if !ok {
				c.fail("binary.Read target %s", exprText(c.p.fset, u.X))
			}
			a, ta := c.ex(ix.X, "")
			j, tj := c.ex(ix.Index, ltInt)
			if ta != ltGuids || tj != ltInt {
				c.fail("binary.Read into %s[%s]", ta, tj)
			}
			errS := c.stmts(append(append([]ast.Stmt{}, x.Body.List...), rest...), k, in2)
			c.restoreVars(saved)
			okS := c.stmts(rest, k, in2)
			// Go evaluates &a[j] (a possible index panic) before the read
			return src + fmt.Sprintf("let _ ← GuidRt.getAt %s %s\n%smatch GuidRt.readGuid %s with\n%s| none => do\n%s%s\n%s| some (g_, %s) => do\n%slet %s ← GuidRt.setAt %s %s g_\n%s%s",
				a, j, ind, r, ind, in2, errS, ind, r, in2, a, a, j, in2, okS)
		}
		c.fail("if init %s", exprText(c.p.fset, as))
	case *ast.ForStmt:
		return src + c.forStmt(x, rest, k, ind)
	}
	c.fail("statement outside the subset: %s", exprTextShort(c.p.fset, s))
	return ""
}

func (c *lfCtx) saveVars() map[string]string {
	m := map[string]string{}
	for k, v := range c.vars {
		m[k] = v
	}
	return m
}
func (c *lfCtx) restoreVars(m map[string]string) { c.vars = m }

// assigned variables of a loop body (declared outside it): targets of binary.Read and its reader
func (c *lfCtx) loopState(body *ast.BlockStmt, loopVar string) []string {
	seen := map[string]bool{}
	var out []string
	add := func(n string) {
		if _, ok := c.vars[n]; ok && !seen[n] && n != loopVar {
			seen[n] = true
			out = append(out, n)
		}
	}
	ast.Inspect(body, func(n ast.Node) bool {
		switch x := n.(type) {
		case *ast.CallExpr:
			if exprText(c.p.fset, x.Fun) == "binary.Read" && len(x.Args) == 3 {
				if u, ok := x.Args[2].(*ast.UnaryExpr); ok {
					if ix, ok := u.X.(*ast.IndexExpr); ok {
						if id, ok := ix.X.(*ast.Ident); ok {
							add(id.Name)
						}
					}
				}
				if id, ok := x.Args[0].(*ast.Ident); ok {
					add(id.Name)
				}
			}
		case *ast.AssignStmt:
			for _, l := range x.Lhs {
				if id, ok := l.(*ast.Ident); ok && x.Tok != token.DEFINE {
					add(id.Name)
				}
			}
			for _, l := range x.Lhs {
				if _, ok := l.(*ast.SelectorExpr); ok {
					c.fail("assignment to a field inside a loop")
				}
			}
		case *ast.IncDecStmt:
			if id, ok := x.X.(*ast.Ident); ok {
				add(id.Name)
			}
		}
		return true
	})
	return out
}

func (c *lfCtx) forStmt(x *ast.ForStmt, rest []ast.Stmt, k lfK, ind string) string {
	init, ok := x.Init.(*ast.AssignStmt)
	if !ok || init.Tok != token.DEFINE || len(init.Lhs) != 1 || len(init.Rhs) != 1 {
		c.fail("loop init %s", exprTextShort(c.p.fset, x))
	}
	lv := init.Lhs[0].(*ast.Ident).Name
	start, ts := c.ex(init.Rhs[0], ltInt)
	if ts != ltInt {
		c.fail("loop variable of type %s", ts)
	}
	post, ok := x.Post.(*ast.IncDecStmt)
	if !ok || exprText(c.p.fset, post.X) != lv {
		c.fail("loop step %s", exprTextShort(c.p.fset, x))
	}
	cond, ok := x.Cond.(*ast.BinaryExpr)
	if !ok || exprText(c.p.fset, cond.X) != lv {
		c.fail("loop condition %s", exprText(c.p.fset, x.Cond))
	}
	saved := c.saveVars()
	c.vars[lv] = ltInt
	bound, tb := c.ex(cond.Y, ltInt)
	if tb != ltInt {
		c.fail("loop bound of type %s", tb)
	}
	condS, _ := c.ex(x.Cond, "")
	var fuel, step string
	switch {
	case post.Tok == token.DEC && (cond.Op == token.GEQ || cond.Op == token.GTR):
		fuel = fmt.Sprintf("((%s - %s).toNat + 2)", start, bound)
		step = fmt.Sprintf("(%s - (1 : Int))", lv)
	case post.Tok == token.INC && (cond.Op == token.LSS || cond.Op == token.LEQ):
		fuel = fmt.Sprintf("((%s - %s).toNat + 2)", bound, start)
		step = fmt.Sprintf("(%s + (1 : Int))", lv)
	default:
		c.fail("loop %s: no fuel rule", exprTextShort(c.p.fset, x))
	}
	state := append(c.loopState(x.Body, lv), lv)
	// free variables of the helper: every other variable in scope (parameters of the helper)
	var free []string
	for _, f := range c.used {
		free = append(free, c.fieldVar(f))
	}
	var locals []string
	for n := range c.vars {
		isState := false
		for _, s := range state {
			if s == n {
				isState = true
			}
		}
		if !isState {
			locals = append(locals, n)
		}
	}
	sortStringsLF(locals)
	c.nloop++
	hname := fmt.Sprintf("%s.loop%d", c.fname, c.nloop)
	tuple := "(" + strings.Join(state, ", ") + ")"
	var stTys, params []string
	for _, s := range state {
		stTys = append(stTys, lfLean(c.vars[s]))
	}
	for _, f := range c.used {
		params = append(params, fmt.Sprintf("(%s : %s)", c.fieldVar(f), lfLean(c.fields[f])))
	}
	for _, n := range locals {
		params = append(params, fmt.Sprintf("(%s : %s)", n, lfLean(c.vars[n])))
	}
	callArgs := strings.Join(append(append([]string{}, free...), locals...), " ")
	bodyK := lfK{
		ret: func(val string, opt bool, i string) string { c.fail("return inside a loop"); return "" },
		brk: func(i string) string { return "pure " + tuple },
		next: func(i string) string {
			args := append([]string{}, state[:len(state)-1]...)
			args = append(args, step)
			return fmt.Sprintf("%s %s fuel_ %s", hname, callArgs, strings.Join(args, " "))
		},
	}
	nUsed := len(c.used)
	body := c.stmts(x.Body.List, bodyK, "      ")
	if len(c.used) != nUsed {
		c.fail("a receiver field is first used inside a loop")
	}
	zero := strings.Repeat(", _", len(state))
	helper := fmt.Sprintf("/-- loop %d of `func %s` (%s): `%s`; state %s; `none` = out of fuel or a run-time panic -/\ndef %s %s : Nat → %s → Option (%s)\n  | 0%s => none\n  | fuel_ + 1, %s => do\n    if %s then do\n      %s\n    else\n      pure %s\n",
		c.nloop, c.fname, "nvram.go", exprTextShort(c.p.fset, x), tuple, hname, strings.Join(params, " "),
		strings.Join(stTys, " → "), strings.Join(stTys, " × "), zero, strings.Join(state, ", "), condS, body, tuple)
	c.loops = append(c.loops, helper)
	c.vars = saved
	for _, s := range state[:len(state)-1] {
		c.vars[s] = saved[s]
	}
	// Go's loop variable is not visible behind the loop: bound to `_`
	outT := "(" + strings.Join(append(append([]string{}, state[:len(state)-1]...), "_"), ", ") + ")"
	return fmt.Sprintf("let %s ← %s %s %s %s %s\n%s", outT, hname, callArgs, fuel, strings.Join(state[:len(state)-1], " "), start, ind) +
		c.stmts(rest, k, ind)
}

func sortStringsLF(s []string) {
	for i := range s {
		for j := i + 1; j < len(s); j++ {
			if s[j] < s[i] {
				s[i], s[j] = s[j], s[i]
			}
		}
	}
}

func exprTextShort(fset *token.FileSet, n ast.Node) string {
	switch x := n.(type) {
	case *ast.IfStmt:
		s := "if "
		if x.Init != nil {
			s += exprText(fset, x.Init) + "; "
		}
		return s + exprText(fset, x.Cond)
	case *ast.ForStmt:
		return "for " + exprText(fset, x.Init) + "; " + exprText(fset, x.Cond) + "; " + exprText(fset, x.Post)
	}
	return exprText(fset, n)
}

// size of guid.GUID ([16]byte in pkg/guid)
func (p *pkgInfo) sizeOfGuid(t ast.Expr) int {
	sel, ok := t.(*ast.SelectorExpr)
	if !ok {
		return 0
	}
	alias, ok := sel.X.(*ast.Ident)
	if !ok {
		return 0
	}
	q := p.otherPkg(alias.Name)
	if q == nil {
		return 0
	}
	u, ok := q.types[sel.Sel.Name]
	if !ok {
		return 0
	}
	return q.sizeOf(u, 0)
}

func translateListFn(p *pkgInfo, it Item) (text string, err error) {
	defer func() {
		if r := recover(); r != nil {
			if e, ok := r.(lfErr); ok {
				err = fmt.Errorf("outside the nvlistfn subset: %s", e.s)
				return
			}
			panic(r)
		}
	}()
	fd, ok := p.funcs[it.Name]
	if !ok || fd.Body == nil {
		return "", fmt.Errorf("function not found")
	}
	c := &lfCtx{p: p, fields: map[string]string{}, vars: map[string]string{}, fixed: map[string]int{}, fname: "fn_" + leanName(it.Name)}
	if fd.Recv == nil || len(fd.Recv.List) != 1 || len(fd.Recv.List[0].Names) != 1 {
		c.fail("no receiver")
	}
	c.recv = fd.Recv.List[0].Names[0].Name
	st, ok := fd.Recv.List[0].Type.(*ast.StarExpr)
	if !ok {
		c.fail("receiver is not a pointer")
	}
	sty, ok := p.types[exprText(p.fset, st.X)].(*ast.StructType)
	if !ok {
		c.fail("receiver type %s is not a struct", exprText(p.fset, st.X))
	}
	for _, f := range sty.Fields.List {
		switch exprText(p.fset, f.Type) {
		case "[]byte":
			for _, n := range f.Names {
				c.fields[n.Name] = ltBytes
			}
		case "[]guid.GUID":
			for _, n := range f.Names {
				c.fields[n.Name] = ltGuids
			}
		}
	}
	var params []string
	for _, f := range fd.Type.Params.List {
		t := c.typeOf(f.Type)
		for _, n := range f.Names {
			c.vars[n.Name] = t
			params = append(params, fmt.Sprintf("(%s : %s)", n.Name, lfLean(t)))
		}
	}
	if fd.Type.Results == nil || len(fd.Type.Results.List) != 1 || len(fd.Type.Results.List[0].Names) != 0 {
		c.fail("results")
	}
	c.resTy = c.typeOf(fd.Type.Results.List[0].Type)
	// assigned fields (extra results), in source order
	ast.Inspect(fd.Body, func(n ast.Node) bool {
		if a, ok := n.(*ast.AssignStmt); ok {
			for _, l := range a.Lhs {
				if sel, ok := l.(*ast.SelectorExpr); ok {
					if id, ok := sel.X.(*ast.Ident); ok && id.Name == c.recv {
						dup := false
						for _, g := range c.asg {
							dup = dup || g == sel.Sel.Name
						}
						if !dup {
							c.asg = append(c.asg, sel.Sel.Name)
						}
					}
				}
			}
		}
		return true
	})
	// parameters for the fields are fixed up front (all fields the body mentions, in source order)
	ast.Inspect(fd.Body, func(n ast.Node) bool {
		if sel, ok := n.(*ast.SelectorExpr); ok {
			if id, ok := sel.X.(*ast.Ident); ok && id.Name == c.recv {
				if _, ok := c.fields[sel.Sel.Name]; ok {
					c.field(sel.Sel.Name)
				}
			}
		}
		return true
	})
	k := lfK{
		ret: func(val string, opt bool, ind string) string {
			if opt {
				return fmt.Sprintf("let ret_ ← %s\n%spure %s", val, ind, c.retTuple("ret_"))
			}
			return "pure " + c.retTuple(val)
		},
		next: func(ind string) string { c.fail("function body ends without return"); return "" },
	}
	body := c.stmts(fd.Body.List, k, "  ")
	var fparams []string
	for _, f := range c.used {
		fparams = append(fparams, fmt.Sprintf("(%s : %s)", c.fieldVar(f), lfLean(c.fields[f])))
	}
	resTys := []string{lfLean(c.resTy)}
	var resNames []string
	for _, f := range c.asg {
		resTys = append(resTys, lfLean(c.fields[f]))
		resNames = append(resNames, "final "+c.recv+"."+f)
	}
	var b strings.Builder
	for _, h := range c.loops {
		b.WriteString(h + "\n")
	}
	fmt.Fprintf(&b, "/-- translated from `func (%s *%s) %s` (pkg/uefi/nvram.go); the receiver fields it uses are parameters, the result is (return value, %s); `none` = run-time panic or a loop out of fuel; Go `int` is unbounded `Int` here (exact while no value leaves the int64 range) -/\ndef %s %s %s : Option (%s) := do\n  %s\n",
		c.recv, exprText(p.fset, st.X), fd.Name.Name, strings.Join(resNames, ", "), c.fname,
		strings.Join(fparams, " "), strings.Join(params, " "), strings.Join(resTys, " × "), body)
	return b.String(), nil
}

func init() {
	extraKinds["nvlistfn"] = func(em *emitter, p *pkgInfo, it Item) {
		if s := em.b.String(); !strings.Contains(s, guidRtImport) {
			i := strings.Index(s, "\n") + 1
			em.b.Reset()
			em.b.WriteString(s[:i] + guidRtImport + s[i:])
		}
		text, err := translateListFn(p, it)
		if err != nil {
			em.failed = append(em.failed, it.Kind+":"+it.Name+" ("+err.Error()+")")
			fmt.Fprintf(&em.b, "-- EXTRACTION FAILED: %s\ndef fn_%s : Nat := 0\n\n", strings.ReplaceAll(err.Error(), "\n", " "), leanName(it.Name))
			return
		}
		em.b.WriteString(text + "\n")
	}
	specs = append(specs, Spec{Area: "CodeNvram", Pkg: "pkg/uefi", Items: []Item{
		{Kind: "nvlistfn", Name: "NVarStore.getGUIDFromStore"},
	}})
}
