package main

// Facts regenerated for the C05 totality models (lean/FianoModel/Uefi/Total*.lean): for every Go
// function that the Go-semantics models mirror, the inventory of its fault sites — every slice
// expression, every index expression and every make(…) — in source order.
//
// Kind added here:
//   gosites   func F: the text of each slice / index / make expression with *local* identifiers
//             (parameters, receivers, variables declared inside F) replaced by `_`, so that renaming a
//             local variable is not an alarm, while a new, removed or changed site — in particular a new
//             unguarded `b[x:y]`, `b[i]` or `make(n)` — changes the list and breaks the named Tie theorem
//             `TotalTie.sites_F`.  Field names, constants, package-level names and literals are kept.

import (
	"fmt"
	"go/ast"
)

func init() {
	extraKinds["gosites"] = func(em *emitter, p *pkgInfo, it Item) {
		fd, ok := p.funcs[it.Name]
		if !ok || fd.Body == nil {
			em.fail(it, "List String", "[]", "function not found")
			return
		}
		local := func(id *ast.Ident) bool {
			if id.Obj == nil || id.Obj.Kind != ast.Var {
				return false
			}
			pos := id.Obj.Pos()
			return pos >= fd.Pos() && pos <= fd.End()
		}
		norm := func(e ast.Expr) string {
			var touched []*ast.Ident
			var old []string
			ast.Inspect(e, func(n ast.Node) bool {
				if id, ok := n.(*ast.Ident); ok && local(id) {
					touched = append(touched, id)
					old = append(old, id.Name)
					id.Name = "_"
				}
				return true
			})
			s := exprText(p.fset, e)
			for i, id := range touched {
				id.Name = old[i]
			}
			return s
		}
		var out []string
		ast.Inspect(fd.Body, func(n ast.Node) bool {
			switch x := n.(type) {
			case *ast.CallExpr:
				if id, ok := x.Fun.(*ast.Ident); ok && id.Name == "make" {
					out = append(out, norm(x))
				}
			case *ast.SliceExpr:
				out = append(out, norm(x))
			case *ast.IndexExpr:
				out = append(out, norm(x))
			}
			return true
		})
		fmt.Fprintf(&em.b, "def %s : List String := %s\n\n", "sites_"+leanName(it.Name), strList(out))
	}

	// goguards: the condition of every `if` and `for` of F (same normalisation): the bounds checks and
	// progress guards the totality proofs rest on.  Removing or weakening one breaks `TotalTie.guards_F`.
	extraKinds["goguards"] = func(em *emitter, p *pkgInfo, it Item) {
		fd, ok := p.funcs[it.Name]
		if !ok || fd.Body == nil {
			em.fail(it, "List String", "[]", "function not found")
			return
		}
		local := func(id *ast.Ident) bool {
			if id.Obj == nil || id.Obj.Kind != ast.Var {
				return false
			}
			pos := id.Obj.Pos()
			return pos >= fd.Pos() && pos <= fd.End()
		}
		norm := func(e ast.Expr) string {
			var touched []*ast.Ident
			var old []string
			ast.Inspect(e, func(n ast.Node) bool {
				if id, ok := n.(*ast.Ident); ok && local(id) {
					touched = append(touched, id)
					old = append(old, id.Name)
					id.Name = "_"
				}
				return true
			})
			s := exprText(p.fset, e)
			for i, id := range touched {
				id.Name = old[i]
			}
			return s
		}
		var out []string
		ast.Inspect(fd.Body, func(n ast.Node) bool {
			switch x := n.(type) {
			case *ast.IfStmt:
				out = append(out, "if "+norm(x.Cond))
			case *ast.ForStmt:
				if x.Cond != nil {
					out = append(out, "for "+norm(x.Cond))
				} else {
					out = append(out, "for")
				}
			}
			return true
		})
		fmt.Fprintf(&em.b, "def %s : List String := %s\n\n", "guards_"+leanName(it.Name), strList(out))
	}

	g := func(names ...string) []Item {
		var its []Item
		for _, n := range names {
			its = append(its, Item{Kind: "gosites", Name: n})
		}
		return its
	}
	gg := func(names ...string) []Item {
		var its []Item
		for _, n := range names {
			its = append(its, Item{Kind: "goguards", Name: n})
		}
		return its
	}
	consts := []Item{
		{Kind: "const", Name: "NVarEntrySignature"},
		{Kind: "const", Name: "NVarEntryASCIIName"}, {Kind: "const", Name: "NVarEntryGUID"}, {Kind: "const", Name: "NVarEntryDataOnly"},
		{Kind: "const", Name: "NVarEntryExtHeader"}, {Kind: "const", Name: "NVarEntryAuthWrite"}, {Kind: "const", Name: "NVarEntryValid"},
		{Kind: "const", Name: "NVarEntryExtChecksum"},
		{Kind: "const", Name: "InvalidNVarEntry"}, {Kind: "const", Name: "InvalidLinkNVarEntry"}, {Kind: "const", Name: "LinkNVarEntry"},
		{Kind: "const", Name: "DataNVarEntry"}, {Kind: "const", Name: "FullNVarEntry"},
		{Kind: "layout", Name: "NVarHeader"},
		{Kind: "bytesvar", Name: "MEFPTSignature"},
		{Kind: "const", Name: "MEPartitionDescriptorMinLength"}, {Kind: "const", Name: "MEPartitionTableEntryLength"},
		{Kind: "layout", Name: "MEPartitionEntry"},
	}
	specs = append(specs, Spec{Area: "UefiTotalConst", Pkg: "pkg/uefi", Items: consts})
	specs = append(specs, Spec{Area: "UefiTotal", Pkg: "pkg/uefi", Items: g(
		"Parse", "Checksum8", "Checksum16", "Read3Size", "IsErased",
		"FindFirmwareVolumeOffset", "NewFirmwareVolume", "NewFile", "NewSection", "parseDepEx", "NewBIOSRegion",
		"NewBIOSPadding", "File.ChecksumHeader", "fileAttr.GetAlignment",
		"FindSignature", "FlashDescriptor.ParseFlashDescriptor", "NewFlashDescriptorMap", "NewFlashRegionSection",
		"NewFlashMasterSection", "NewFlashImage", "FlashImage.fillRegionGaps", "NewRawRegion",
		"FindMEDescriptor", "NewMEFPT", "MEFPT.parsePartitions", "NewMERegion",
		"NewNVarStore", "newNVar", "NVar.parseHeader", "NVar.parseNext", "NVar.parseExtendedHeader",
		"NVar.parseDataOnly", "NVar.parseGUID", "NVarStore.getGUIDFromStore", "NVar.parseName", "NVar.parseContent",
	)})
	specs = append(specs, Spec{Area: "UefiTotalGuards", Pkg: "pkg/uefi", Items: gg(
		"FindFirmwareVolumeOffset", "NewFirmwareVolume", "NewFile", "NewSection", "NewBIOSRegion", "File.ChecksumHeader",
		"FindSignature", "FlashDescriptor.ParseFlashDescriptor", "NewFlashRegionSection", "NewFlashMasterSection",
		"NewFlashImage", "FlashImage.fillRegionGaps", "FlashRegion.Valid", "NewMEFPT",
		"NewNVarStore", "newNVar", "NVar.parseHeader", "NVar.parseExtendedHeader", "NVarStore.getGUIDFromStore", "NVar.parseName",
	)})
	specs = append(specs, Spec{Area: "UefiTotalUnicode", Pkg: "pkg/unicode", Items: append(g("UCS2ToUTF8"), gg("UCS2ToUTF8")...)})
	specs = append(specs, Spec{Area: "UefiTotalCodec", Pkg: "pkg/compression", Items: append(g(
		"CompressorFromGUID", "SystemBROTLI.Decode", "SystemLZMA.Decode", "LZMA.Decode", "LZMAX86.Decode", "ZLIB.Decode"), gg("SystemBROTLI.Decode")...)})
	specs = append(specs, Spec{Area: "UefiTotalVisitors", Pkg: "pkg/visitors", Items: g(
		"Validate.Visit", "Extract.Visit", "Extract.extractBinary", "JSON.Visit", "Table.Visit", "Table.printFirmware",
		"printRowLayout", "printRowStd", "Cat.Visit", "Assemble.Visit")})
	// follow-up wp-c05b: the Go-semantics model of Assemble (TotalAsm.lean) and of the walkers over NVAR nodes and
	// the ME partition table (TotalNvarWalk.lean); `blockMapEnd` of validate.go (TotalWalk.lean)
	specs = append(specs, Spec{Area: "UefiTotalAsm", Pkg: "pkg/uefi", Items: append(g(
		"Section.GenSecHeader", "SectionGUIDDefined.GetBinHeaderLen", "File.SetSize", "File.ChecksumAndAssemble", "File.HeaderLen",
		"CreatePadFile", "FirmwareVolume.InsertFile", "FirmwareVolume.GetErasePolarity", "BIOSRegion.FirstFV",
		"Write3Size", "Align", "Erase", "SetErasePolarity",
		"NVar.Assemble", "NVar.IsValid", "NVarStore.GetGUIDStoreBuf",
		"FirmwareVolume.ApplyChildren", "File.ApplyChildren", "Section.ApplyChildren", "BIOSRegion.ApplyChildren",
		"FlashImage.ApplyChildren", "NVar.ApplyChildren", "NVarStore.ApplyChildren",
		"MEFPT.Apply", "MEFPT.ApplyChildren", "MERegion.Apply", "MERegion.ApplyChildren",
	), gg(
		"Section.GenSecHeader", "File.SetSize", "File.ChecksumAndAssemble", "CreatePadFile", "FirmwareVolume.InsertFile",
		"BIOSRegion.FirstFV", "Write3Size", "SetErasePolarity", "NVar.Assemble", "NVarStore.GetGUIDStoreBuf",
		"MERegion.ApplyChildren", "File.ApplyChildren", "NVar.ApplyChildren",
	)...)})
	specs = append(specs, Spec{Area: "UefiTotalAsmVisitors", Pkg: "pkg/visitors", Items: append(g("blockMapEnd"),
		gg("Assemble.Visit", "Extract.Visit", "blockMapEnd", "Validate.Visit")...)})
}
