package main

// Boot Guard / CBnT manifests (property C15): one item regenerates, for every structure that has a
// checked-in generated codec, what the generated methods do and what the declaration prescribes
// (see codegen.go).  The generated file contains data of the types of FianoModel/Manifest/Syntax.lean.
func init() {
	specs = append(specs, Spec{Area: "Manifest", Pkg: "pkg/intel/metadata",
		Items: []Item{
			{Kind: "manifestcodecs", Name: "all"},
		}})
}
