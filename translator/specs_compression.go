package main

import (
	"fmt"
	"go/ast"
	"go/token"
	"sort"
	"strings"
)

// pkg/compression (property C08).  x86.go has no tables: the state machine of x86Convert is
// tied by the exhaustive correspondence run (T2); T1 adds the set of integer literals of the
// routine (insensitive to renaming / reordering, sensitive to a changed constant), the shape of
// the two call sites (ip = 0, fresh state, direction flag) and the framing constants.
//
// Three extraction kinds of this area are registered through extraKinds:
//
//	intvar     package-level  var X = <foldable non-negative integer expression>   -> Nat
//	intlits    the set (sorted, no duplicates) of the integer literals of a function body
//	           -> List Nat
//	callshape  like "calls" (Arg = callee text), but identifiers declared inside the function
//	           (receiver, parameters, results, := / var / range variables) are printed as `_`,
//	           and calls broken over several lines are normalised           -> List String
func init() {
	extraKinds["intvar"] = func(em *emitter, p *pkgInfo, it Item) {
		e, ok := p.vars[it.Name]
		if !ok {
			em.fail(it, "Nat", "0", "variable not found")
			return
		}
		v, ok := p.eval(e, 0)
		if !ok || v < 0 {
			em.fail(it, "Nat", "0", "initialiser is not a foldable non-negative integer")
			return
		}
		fmt.Fprintf(&em.b, "def %s : Nat := %d\n\n", em.name(it), v)
	}
	extraKinds["intlits"] = func(em *emitter, p *pkgInfo, it Item) {
		fd, ok := p.funcs[it.Name]
		if !ok || fd.Body == nil {
			em.fail(it, "List Nat", "[]", "function not found")
			return
		}
		seen := map[int64]bool{}
		var vals []int64
		bad := false
		ast.Inspect(fd.Body, func(n ast.Node) bool {
			if lit, ok := n.(*ast.BasicLit); ok && lit.Kind == token.INT {
				v, ok := p.eval(lit, 0)
				if !ok || v < 0 {
					bad = true
				} else if !seen[v] {
					seen[v] = true
					vals = append(vals, v)
				}
			}
			return true
		})
		if bad {
			em.fail(it, "List Nat", "[]", "integer literal out of range")
			return
		}
		sort.Slice(vals, func(i, j int) bool { return vals[i] < vals[j] })
		fmt.Fprintf(&em.b, "def %s : List Nat := %s\n\n", em.name(it), natList(vals))
	}
	extraKinds["callshape"] = func(em *emitter, p *pkgInfo, it Item) {
		fd, ok := p.funcs[it.Name]
		if !ok || fd.Body == nil {
			em.fail(it, "List String", "[]", "function not found")
			return
		}
		locals := map[string]bool{}
		addFields := func(fl *ast.FieldList) {
			if fl == nil {
				return
			}
			for _, f := range fl.List {
				for _, n := range f.Names {
					locals[n.Name] = true
				}
			}
		}
		addFields(fd.Recv)
		addFields(fd.Type.Params)
		addFields(fd.Type.Results)
		ast.Inspect(fd.Body, func(n ast.Node) bool {
			switch x := n.(type) {
			case *ast.AssignStmt:
				if x.Tok == token.DEFINE {
					for _, l := range x.Lhs {
						if id, ok := l.(*ast.Ident); ok {
							locals[id.Name] = true
						}
					}
				}
			case *ast.ValueSpec:
				for _, n := range x.Names {
					locals[n.Name] = true
				}
			case *ast.RangeStmt:
				if x.Tok == token.DEFINE {
					for _, e := range []ast.Expr{x.Key, x.Value} {
						if id, ok := e.(*ast.Ident); ok {
							locals[id.Name] = true
						}
					}
				}
			}
			return true
		})
		var out []string
		ast.Inspect(fd.Body, func(n ast.Node) bool {
			c, ok := n.(*ast.CallExpr)
			if !ok || exprText(p.fset, c.Fun) != it.Arg {
				return true
			}
			// blank the local identifiers, print, restore (the parsed package is shared)
			type saved struct {
				id   *ast.Ident
				name string
			}
			var sv []saved
			for _, a := range c.Args {
				ast.Inspect(a, func(m ast.Node) bool {
					switch y := m.(type) {
					case *ast.SelectorExpr:
						if id, ok := y.X.(*ast.Ident); ok {
							if locals[id.Name] {
								sv = append(sv, saved{id, id.Name})
								id.Name = "_"
							}
							return false // never touch the selected field / method name
						}
						return true
					case *ast.Ident:
						if locals[y.Name] {
							sv = append(sv, saved{y, y.Name})
							y.Name = "_"
						}
					}
					return true
				})
			}
			txt := exprText(p.fset, c)
			txt = strings.ReplaceAll(strings.ReplaceAll(txt, "( ", "("), ", )", ")")
			out = append(out, txt)
			for _, x := range sv {
				x.id.Name = x.name
			}
			return true
		})
		fmt.Fprintf(&em.b, "def %s : List String := %s\n\n", em.name(it), strList(out))
	}

	lits := func(fn string) Item {
		return Item{Kind: "intlits", Name: fn, As: "intlits_" + leanName(fn)}
	}
	shape := func(fn, callee string) Item {
		return Item{Kind: "callshape", Name: fn, Arg: callee, As: "callshape_" + leanName(fn) + "_" + leanName(callee)}
	}
	specs = append(specs, Spec{Area: "Compression", Pkg: "pkg/compression", Items: []Item{
		// zlib.go
		{Kind: "const", Name: "zlibCompressionLevel"},
		{Kind: "const", Name: "zlibSectionHeaderSize"},
		{Kind: "const", Name: "zlibSizeOffset"},
		lits("ZLIB.Decode"),
		lits("ZLIB.Encode"),
		shape("ZLIB.Decode", "binary.LittleEndian.Uint32"),
		shape("ZLIB.Encode", "binary.LittleEndian.PutUint32"),
		shape("ZLIB.Encode", "append"),
		// lzma.go / systemlzma.go
		{Kind: "inttable", Name: "lzmaDictCapExps"},
		{Kind: "intvar", Name: "compressionLevel"},
		lits("LZMA.Encode"),
		lits("SystemLZMA.Encode"),
		shape("SystemLZMA.Encode", "exec.Command"),
		shape("SystemLZMA.Encode", "binary.Write"),
		shape("SystemLZMA.Encode", "copy"),
		shape("LZMA.Encode", "binary.LittleEndian.PutUint64"),
		// x86.go
		lits("x86Convert"),
		lits("test86MSByte"),
		shape("LZMAX86.Encode", "x86Convert"),
		shape("LZMAX86.Decode", "x86Convert"),
	}})
}
