package main

// Pure integer functions translated *as code* (kind exprfn) — theorems in
// lean/FianoModel/Base/ArithTie.lean are stated directly about these regenerated definitions.
func init() {
	specs = append(specs, Spec{Area: "ArithUefi", Pkg: "pkg/uefi", Items: []Item{
		{Kind: "exprfn", Name: "Align"},
		{Kind: "exprfn", Name: "Align4"},
		{Kind: "exprfn", Name: "Align8"},
	}}, Spec{Area: "ArithFit", Pkg: "pkg/intel/metadata/fit", Items: []Item{
		{Kind: "exprfn", Name: "CalculatePhysAddrFromOffset"},
		{Kind: "exprfn", Name: "CalculateOffsetFromPhysAddr"},
		{Kind: "exprfn", Name: "CalculateTailOffsetFromPhysAddr"},
	}})
}
