package main

import (
	"fmt"
	"go/ast"
)

// C20 (totality of the non-UEFI parsers): per anchored function the inventory of every make /
// slice / index expression (kind "sites"), the packed sizes of the records the GoM models read
// with binaryReadG, and the constants the guards compare with.  One Gen area per Go package;
// the expectations are in lean/FianoModel/Total/Tie.lean.
// kind "guards": the conditions of every `if` of a function in source order, each prefixed with the
// statement kinds that enclose it ("for/if: cond" = an `if` nested in an `if` inside a loop).  Used
// for the loops whose termination depends on a check being made for *every* element: moving such a
// check into a branch changes its path and breaks the Tie theorem.
func init() {
	extraKinds["guards"] = func(em *emitter, p *pkgInfo, it Item) {
		fd, ok := p.funcs[it.Name]
		if !ok || fd.Body == nil {
			em.fail(it, "List String", "[]", "function not found")
			return
		}
		var out []string
		var walk func(n ast.Node, path string)
		walkList := func(l []ast.Stmt, path string) {
			for _, s := range l {
				walk(s, path)
			}
		}
		walk = func(n ast.Node, path string) {
			switch x := n.(type) {
			case *ast.BlockStmt:
				walkList(x.List, path)
			case *ast.IfStmt:
				out = append(out, path+"if: "+exprText(p.fset, x.Cond))
				walk(x.Body, path+"if/")
				if x.Else != nil {
					walk(x.Else, path+"else/")
				}
			case *ast.ForStmt:
				c := ""
				if x.Cond != nil {
					c = exprText(p.fset, x.Cond)
				}
				out = append(out, path+"for: "+c)
				walk(x.Body, path+"for/")
			case *ast.RangeStmt:
				out = append(out, path+"range: "+exprText(p.fset, x.X))
				walk(x.Body, path+"for/")
			case *ast.SwitchStmt:
				walk(x.Body, path+"switch/")
			case *ast.CaseClause:
				walkList(x.Body, path)
			}
		}
		walk(fd.Body, "")
		fmt.Fprintf(&em.b, "def guards_%s : List String := %s\n\n", leanName(it.Name), strList(out))
	}
}

func init() {
	specs = append(specs,
		Spec{Area: "C20Fmap", Pkg: "pkg/fmap", Items: []Item{
			{Kind: "sites", Name: "Read"},
			{Kind: "sites", Name: "FMap.ReadArea"},
			{Kind: "sites", Name: "FMap.WriteArea"},
			{Kind: "sites", Name: "Write"},
			{Kind: "sites", Name: "readField"},
			{Kind: "layout", Name: "Header"},
			{Kind: "layout", Name: "Area"},
		}},
		Spec{Area: "C20Microcode", Pkg: "pkg/intel/microcode", Items: []Item{
			{Kind: "sites", Name: "ParseIntelMicrocode"},
			{Kind: "calls", Name: "ParseIntelMicrocode", Arg: "io.ReadAll"},
			{Kind: "const", Name: "DefaultDatasize"},
			{Kind: "const", Name: "DefaultTotalSize"},
			{Kind: "layout", Name: "Header"},
			{Kind: "layout", Name: "ExtendedSigTable"},
			{Kind: "layout", Name: "ExtendedSignature"},
		}},
		Spec{Area: "C20Me", Pkg: "pkg/intel/me", Items: []Item{
			{Kind: "sites", Name: "ParseIntelME"},
			{Kind: "sites", Name: "parseEntry"},
			{Kind: "sites", Name: "parseFlashPartitionTableHeader"},
			{Kind: "sites", Name: "parseLegacyFlashPartitionTableHeader"},
			{Kind: "calls", Name: "parseFlashPartitionTableHeader", Arg: "binary.Read"},
			{Kind: "calls", Name: "parseLegacyFlashPartitionTableHeader", Arg: "binary.Read"},
			{Kind: "bytesvar", Name: "Signature"},
			{Kind: "layout", Name: "FlashPartitionTableEntry"},
			{Kind: "layout", Name: "FlashPartitionTableHeader"},
			{Kind: "layout", Name: "LegacyFlashPartitionTableHeader"},
		}},
		Spec{Area: "C20Fsp", Pkg: "pkg/fsp", Items: []Item{
			{Kind: "sites", Name: "NewInfoHeader"},
			{Kind: "bytesvar", Name: "Signature"},
			{Kind: "const", Name: "FixedInfoHeaderLength"},
			{Kind: "const", Name: "HeaderV3Length"},
			{Kind: "const", Name: "HeaderV4Length"},
			{Kind: "const", Name: "HeaderV5Length"},
			{Kind: "const", Name: "HeaderV6Length"},
			{Kind: "const", Name: "HeaderMinRevision"},
			{Kind: "layout", Name: "FixedInfoHeader"},
			{Kind: "layout", Name: "InfoHeaderRev3"},
			{Kind: "layout", Name: "InfoHeaderRev5"},
			{Kind: "layout", Name: "InfoHeaderRev6"},
		}},
		Spec{Area: "C20Fit", Pkg: "pkg/intel/metadata/fit", Items: []Item{
			{Kind: "sites", Name: "GetHeadersTableRangeFrom"},
			{Kind: "sites", Name: "GetTableFrom"},
			{Kind: "sites", Name: "ParseTable"},
			{Kind: "sites", Name: "sliceOrCopyBytesFrom"},
			{Kind: "sites", Name: "copyBytesFrom"},
			{Kind: "sites", Name: "readBytesFromReader"},
			{Kind: "sites", Name: "entryInitDataSegmentBytes"},
			{Kind: "sites", Name: "NewEntry"},
			{Kind: "sites", Name: "EntrySACMParseSizeFrom"},
			{Kind: "sites", Name: "ParseSACMData"},
			{Kind: "sites", Name: "EntrySACM.ParseData"},
			{Kind: "sites", Name: "Table.GetEntriesFrom"},
			// the modifying path (RecalculateHeaders + Inject): no GoM model, inventory only
			{Kind: "sites", Name: "Entries.InjectTo"},
			{Kind: "sites", Name: "EntryBase.injectDataSectionTo"},
			{Kind: "sites", Name: "Entries.Table"},
			{Kind: "sites", Name: "Table.WriteTo"},
			{Kind: "sites", Name: "EntryHeaders.WriteTo"},
			{Kind: "sites", Name: "Entries.RecalculateHeaders"},
			{Kind: "sites", Name: "EntryRecalculateHeaders"},
			{Kind: "sites", Name: "mostCommonRecalculateHeadersOfEntry"},
			{Kind: "calls", Name: "EntryRecalculateHeaders", Arg: "entryTypeOf"},
			{Kind: "calls", Name: "readBytesFromReader", Arg: "io.ReadAll"},
			{Kind: "layout", Name: "EntryHeaders"},
			{Kind: "layout", Name: "EntrySACMDataCommon"},
			{Kind: "layout", Name: "EntrySACMData0"},
			{Kind: "layout", Name: "EntrySACMData3"},
			{Kind: "layout", Name: "EntrySACMData4"},
			{Kind: "const", Name: "EntryTypeFITHeaderEntry"},
			{Kind: "const", Name: "EntryTypeStartupACModuleEntry"},
			{Kind: "const", Name: "EntryTypeDiagnosticACModuleEntry"},
			{Kind: "const", Name: "EntryTypeTPMPolicyRecord"},
			{Kind: "const", Name: "EntryTypeBIOSPolicyRecord"},
			{Kind: "const", Name: "EntryTypeTXTPolicyRecord"},
			{Kind: "const", Name: "EntryTypeKeyManifestRecord"},
			{Kind: "const", Name: "EntryTypeBootPolicyManifest"},
			{Kind: "const", Name: "ACHeaderVersion0"},
			{Kind: "const", Name: "ACHeaderVersion3"},
			{Kind: "const", Name: "ACHeaderVersion4"},
		}},
		Spec{Area: "C20FitCheck", Pkg: "pkg/intel/metadata/fit/check", Items: []Item{
			{Kind: "sites", Name: "bounds"},
		}},
		Spec{Area: "C20FitConsts", Pkg: "pkg/intel/metadata/fit/consts", Items: []Item{
			{Kind: "const", Name: "BasePhysAddr"},
			{Kind: "const", Name: "FITPointerOffset"},
			{Kind: "const", Name: "FITPointerSize"},
		}},
		Spec{Area: "C20Psb", Pkg: "pkg/amd/psb", Items: []Item{
			{Kind: "sites", Name: "readExponent"},
			{Kind: "sites", Name: "readModulus"},
			{Kind: "sites", Name: "newTokenOrRootKey"},
			{Kind: "sites", Name: "NewRootKey"},
			{Kind: "sites", Name: "NewTokenKey"},
			{Kind: "sites", Name: "NewKeyFromDatabase"},
			{Kind: "sites", Name: "parseKeyDatabase"},
			{Kind: "sites", Name: "newPSPBinary"},
			{Kind: "sites", Name: "newPspHeader"},
			{Kind: "sites", Name: "PSPBinary.getSignedBlob"},
			{Kind: "sites", Name: "checkBoundaries"},
			{Kind: "sites", Name: "GetRangeBytes"},
			{Kind: "sites", Name: "ValidatePSPEntry"},
			{Kind: "const", Name: "pspHeaderSize"},
			{Kind: "const", Name: "signedDataStart"},
			{Kind: "layout", Name: "PSPHeaderData"},
			{Kind: "layout", Name: "keyDBHeader"},
		}},
		Spec{Area: "C20Apcb", Pkg: "pkg/amd/apcb", Items: []Item{
			{Kind: "sites", Name: "ParseAPCBBinaryTokens"},
			{Kind: "sites", Name: "parseAPCBHeader"},
			{Kind: "sites", Name: "iterateTokenGroups"},
			{Kind: "sites", Name: "iterateTypes"},
			{Kind: "sites", Name: "iterateTokens"},
			{Kind: "guards", Name: "iterateTokenGroups"},
			{Kind: "guards", Name: "iterateTypes"},
			{Kind: "guards", Name: "iterateTokens"},
			{Kind: "layout", Name: "headerV3"},
			{Kind: "layout", Name: "groupHeader"},
			{Kind: "layout", Name: "typeHeaderV3"},
			{Kind: "layout", Name: "tokenPair"},
			{Kind: "const", Name: "tokensGroupID"},
			{Kind: "const", Name: "headerV2Signature"},
			{Kind: "const", Name: "headerV3Signature"},
			{Kind: "const", Name: "headerV3EndingSignature"},
		}},
		Spec{Area: "C20Cbfs", Pkg: "pkg/cbfs", Items: []Item{
			{Kind: "sites", Name: "NewImage"},
			{Kind: "sites", Name: "NewFile"},
			{Kind: "sites", Name: "ReadName"},
			{Kind: "sites", Name: "ReadAttributes"},
			{Kind: "sites", Name: "ReadData"},
			{Kind: "sites", Name: "File.FindAttribute"},
			{Kind: "sites", Name: "LegacyStageRecord.Read"},
			{Kind: "sites", Name: "PayloadRecord.Read"},
			{Kind: "sites", Name: "MasterRecord.Read"},
			{Kind: "guards", Name: "NewImage"},
			{Kind: "guards", Name: "NewFile"},
			{Kind: "guards", Name: "File.FindAttribute"},
			{Kind: "guards", Name: "LegacyStageRecord.Read"},
			{Kind: "const", Name: "FileSize"},
			{Kind: "layout", Name: "FileHeader"},
			{Kind: "layout", Name: "StageHeader"},
			{Kind: "layout", Name: "PayloadHeader"},
			{Kind: "const", Name: "TypeLegacyStage"},
			{Kind: "const", Name: "TypeSELF"},
			{Kind: "const", Name: "SegEntry"},
		}},
		Spec{Area: "C20Compression", Pkg: "pkg/compression", Items: []Item{
			{Kind: "sites", Name: "ZLIB.Decode"},
			{Kind: "sites", Name: "SystemBROTLI.Decode"},
			{Kind: "sites", Name: "LZMA.Decode"},
			{Kind: "sites", Name: "SystemLZMA.Decode"},
			{Kind: "sites", Name: "LZ4.Decode"},
			{Kind: "sites", Name: "LZMAX86.Decode"},
			{Kind: "const", Name: "zlibSectionHeaderSize"},
			{Kind: "const", Name: "zlibSizeOffset"},
		}},
	)
}

// Follow-up wp-c20b: manifest helpers, AMD firmware / directory / entry functions, FIT modifying path.
func init() {
	specs = append(specs,
		// hand-written functions the generated manifest readers call (the readers themselves are
		// statement-matched into Gen/Manifest.lean), and the hand-written readers next to them
		Spec{Area: "C20MfCbnt", Pkg: "pkg/intel/metadata/cbnt", Items: []Item{
			{Kind: "sites", Name: "Key.keyDataSize"},
			{Kind: "sites", Name: "BitSize.InBytes"},
			{Kind: "sites", Name: "StructureID.String"},
			{Kind: "sites", Name: "ParseChipsetACModuleInformation"},
			{Kind: "guards", Name: "ParseChipsetACModuleInformation"},
			{Kind: "bytesvar", Name: "chipsetACModuleInformationSignature"},
			{Kind: "sites", Name: "HashList.ReadFrom"},
			{Kind: "sites", Name: "TPMInfoList.ReadFrom"},
		}},
		Spec{Area: "C20MfBg", Pkg: "pkg/intel/metadata/bg", Items: []Item{
			{Kind: "sites", Name: "Key.keyDataSize"},
			{Kind: "sites", Name: "BitSize.InBytes"},
			{Kind: "sites", Name: "StructureID.String"},
			{Kind: "sites", Name: "HashStructureFill.hashSize"},
			{Kind: "sites", Name: "Algorithm.size"},
			{Kind: "sites", Name: "Algorithm.IsNull"},
		}},
		Spec{Area: "C20MfBgHeader", Pkg: "pkg/intel/metadata/common/bgheader", Items: []Item{
			{Kind: "sites", Name: "DetectBGV"},
			{Kind: "guards", Name: "DetectBGV"},
			{Kind: "layout", Name: "structInfo"},
		}},
		Spec{Area: "C20MfCbntBpm", Pkg: "pkg/intel/metadata/cbnt/cbntbootpolicy", Items: []Item{
			{Kind: "sites", Name: "Manifest.ReadFrom"},
			{Kind: "sites", Name: "Manifest.fieldIndexByStructID"},
			{Kind: "sites", Name: "SE.ReadDataFrom"},
		}},
		Spec{Area: "C20MfBgBpm", Pkg: "pkg/intel/metadata/bg/bgbootpolicy", Items: []Item{
			{Kind: "sites", Name: "Manifest.ReadFrom"},
			{Kind: "sites", Name: "Manifest.fieldIndexByStructID"},
			{Kind: "sites", Name: "SE.ReadDataFrom"},
		}},
		Spec{Area: "C20Amd", Pkg: "pkg/amd/manifest", Items: []Item{
			{Kind: "sites", Name: "FindEmbeddedFirmwareStructure"},
			{Kind: "guards", Name: "FindEmbeddedFirmwareStructure"},
			{Kind: "sites", Name: "ParseEmbeddedFirmwareStructure"},
			{Kind: "guards", Name: "ParseEmbeddedFirmwareStructure"},
			{Kind: "sites", Name: "FindPSPDirectoryTable"},
			{Kind: "guards", Name: "FindPSPDirectoryTable"},
			{Kind: "sites", Name: "ParsePSPDirectoryTable"},
			{Kind: "guards", Name: "ParsePSPDirectoryTable"},
			{Kind: "sites", Name: "ParsePSPDirectoryTableEntry"},
			{Kind: "sites", Name: "FindBIOSDirectoryTable"},
			{Kind: "guards", Name: "FindBIOSDirectoryTable"},
			{Kind: "sites", Name: "ParseBIOSDirectoryTable"},
			{Kind: "guards", Name: "ParseBIOSDirectoryTable"},
			{Kind: "sites", Name: "ParseBIOSDirectoryTableEntry"},
			{Kind: "sites", Name: "parsePSPFirmware"},
			{Kind: "guards", Name: "parsePSPFirmware"},
			{Kind: "sites", Name: "FirmwareImage.PhysAddrToOffset"},
			{Kind: "sites", Name: "readAndCountSize"},
			{Kind: "const", Name: "BIOSDirectoryTableEntrySize"},
			{Kind: "const", Name: "PSPDirectoryTableEntrySize"},
		}},
		Spec{Area: "C20AmdPsb", Pkg: "pkg/amd/psb", Items: []Item{
			{Kind: "sites", Name: "GetPSPEntries"},
			{Kind: "sites", Name: "GetPSPEntry"},
			{Kind: "guards", Name: "GetPSPEntry"},
			{Kind: "sites", Name: "GetBIOSEntries"},
			{Kind: "sites", Name: "GetBIOSEntry"},
			{Kind: "sites", Name: "GetEntries"},
			{Kind: "sites", Name: "ExtractPSPEntry"},
			{Kind: "sites", Name: "ExtractBIOSEntry"},
			{Kind: "sites", Name: "PatchPSPEntry"},
			{Kind: "sites", Name: "PatchBIOSEntry"},
			{Kind: "sites", Name: "patchEntry"},
			{Kind: "guards", Name: "patchEntry"},
			{Kind: "guards", Name: "GetRangeBytes"},
			{Kind: "guards", Name: "checkBoundaries"},
			{Kind: "sites", Name: "getPSPTable"},
			{Kind: "sites", Name: "getBIOSTable"},
			{Kind: "sites", Name: "GetKeys"},
			{Kind: "guards", Name: "GetKeys"},
			{Kind: "sites", Name: "getKeysFromDatabase"},
			{Kind: "guards", Name: "getKeysFromDatabase"},
			{Kind: "guards", Name: "parseKeyDatabase"},
			{Kind: "sites", Name: "KeySet.AddKey"},
			{Kind: "guards", Name: "KeySet.AddKey"},
			{Kind: "guards", Name: "NewTokenKey"},
		}},
		Spec{Area: "C20FitInject", Pkg: "pkg/intel/metadata/fit", Items: []Item{
			{Kind: "calls", Name: "sliceOrCopyBytesFrom", Arg: "append"},
			{Kind: "calls", Name: "sliceOrCopyBytesFrom", Arg: "copy"},
			{Kind: "calls", Name: "entryInitDataSegmentBytes", Arg: "append"},
			{Kind: "calls", Name: "NewEntry", Arg: "append"},
			{Kind: "guards", Name: "Entries.RecalculateHeaders"},
			{Kind: "guards", Name: "EntryRecalculateHeaders"},
			{Kind: "guards", Name: "mostCommonRecalculateHeadersOfEntry"},
			{Kind: "sites", Name: "Uint24.SetUint32"},
			{Kind: "guards", Name: "Uint24.SetUint32"},
			{Kind: "calls", Name: "mostCommonRecalculateHeadersOfEntry", Arg: "hdr.Size.SetUint32"},
			{Kind: "calls", Name: "Entries.RecalculateHeaders", Arg: "beginEntry.GetEntryBase().Headers.Size.SetUint32", As: "calls_Entries_RecalculateHeaders_SetUint32"},
			{Kind: "calls", Name: "EntryKeyManifestRecord.CustomRecalculateHeaders", Arg: "entry.Headers.Size.SetUint32"},
			{Kind: "calls", Name: "EntryBootPolicyManifestRecord.CustomRecalculateHeaders", Arg: "entry.Headers.Size.SetUint32"},
			{Kind: "calls", Name: "EntryBIOSPolicyRecord.CustomRecalculateHeaders", Arg: "entry.Headers.Size.SetUint32"},
			{Kind: "calls", Name: "EntrySACM.CustomRecalculateHeaders", Arg: "entry.Headers.Size.SetUint32"},
			{Kind: "calls", Name: "EntryTXTPolicyRecord.CustomRecalculateHeaders", Arg: "hdr.Size.SetUint32"},
			{Kind: "sites", Name: "EntryFITHeaderEntry.CustomRecalculateHeaders"},
			{Kind: "guards", Name: "Entries.InjectTo"},
			{Kind: "guards", Name: "EntryBase.injectDataSectionTo"},
			{Kind: "guards", Name: "Table.WriteTo"},
			{Kind: "sites", Name: "EntryKeyManifestRecord.ParseData"},
			{Kind: "guards", Name: "EntryKeyManifestRecord.ParseData"},
			{Kind: "sites", Name: "EntryBootPolicyManifestRecord.ParseData"},
			{Kind: "guards", Name: "EntryBootPolicyManifestRecord.ParseData"},
		}},
	)
}
