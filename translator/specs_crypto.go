package main

// C16 — integrity verdicts (pkg/intel/metadata/{cbnt,bg}, pkg/amd/psb): algorithm identifiers,
// entry types, the packed PSP header / key database header layouts, and — per routine the model
// lean/FianoModel/Crypto follows — the calls to package-level primitives and helpers
// (rsa.VerifyPSS, NewSignedBlob, checkBoundaries, append …).  Only callees that are not methods
// of local variables are inventoried, and Crypto/Tie.lean compares their *number*, so renaming a
// local variable or rewording a message does not disturb the tie.
func init() {
	algs := []string{"AlgUnknown", "AlgRSA", "AlgSHA1", "AlgSHA256", "AlgSHA384", "AlgSHA512", "AlgNull", "AlgSM3",
		"AlgRSASSA", "AlgRSAPSS", "AlgECDSA", "AlgSM2", "AlgECC"}
	var cb []Item
	for _, a := range algs {
		cb = append(cb, Item{Kind: "const", Name: a})
	}
	cb = append(cb,
		Item{Kind: "calls", Name: "SignatureRSAPSS.Verify", Arg: "rsa.VerifyPSS"},
		Item{Kind: "calls", Name: "SignatureRSAASA.Verify", Arg: "rsa.VerifyPKCS1v15"},
		Item{Kind: "calls", Name: "Signature.SetSignature", Arg: "NewSignatureDataWithHash"},
		Item{Kind: "calls", Name: "NewSignatureDataWithHash", Arg: "sm2.Sm2Sign"},
		Item{Kind: "calls", Name: "NewSignatureDataWithHash", Arg: "rsaDigest"},
	)
	specs = append(specs, Spec{Area: "CryptoCbnt", Pkg: "pkg/intel/metadata/cbnt", Items: cb})

	specs = append(specs, Spec{Area: "CryptoCbntKey", Pkg: "pkg/intel/metadata/cbnt/cbntkey", Items: []Item{
		{Kind: "const", Name: "UsageBPMSigningPKD"},
		{Kind: "calls", Name: "Manifest.ValidateBPMKey", Arg: "bytes.Equal"},
	}})

	bpm := []Item{
		{Kind: "calls", Name: "Manifest.ValidateIBB", Arg: "bytes.Equal"},
		{Kind: "calls", Name: "Manifest.IBBDataRanges", Arg: "calculateOffsetFromPhysAddr"},
	}
	specs = append(specs, Spec{Area: "CryptoCbntBpm", Pkg: "pkg/intel/metadata/cbnt/cbntbootpolicy", Items: bpm})
	specs = append(specs, Spec{Area: "CryptoBgBpm", Pkg: "pkg/intel/metadata/bg/bgbootpolicy", Items: bpm})

	specs = append(specs, Spec{Area: "CryptoBg", Pkg: "pkg/intel/metadata/bg", Items: []Item{
		{Kind: "const", Name: "AlgRSA"}, {Kind: "const", Name: "AlgSHA1"}, {Kind: "const", Name: "AlgSHA256"},
		{Kind: "const", Name: "AlgNull"}, {Kind: "const", Name: "AlgRSASSA"},
		{Kind: "calls", Name: "SignatureRSAASA.Verify", Arg: "rsa.VerifyPKCS1v15"},
		{Kind: "calls", Name: "NewSignatureData", Arg: "rsa.SignPKCS1v15"},
	}})

	specs = append(specs, Spec{Area: "CryptoPsb", Pkg: "pkg/amd/psb", Items: []Item{
		{Kind: "const", Name: "pspHeaderSize"},
		{Kind: "const", Name: "signedDataStart"},
		{Kind: "const", Name: "PSBSignBIOS"},
		{Kind: "const", Name: "KeyDatabaseEntry"},
		{Kind: "const", Name: "ABLPublicKey"},
		{Kind: "const", Name: "AMDPublicKeyEntry"},
		{Kind: "const", Name: "OEMSigningKeyEntry"},
		{Kind: "const", Name: "BIOSRTMSignatureEntry"},
		{Kind: "layout", Name: "PSPHeaderData"},
		{Kind: "layout", Name: "keyDBHeader"},
		{Kind: "calls", Name: "NewSignedBlob", Arg: "rsa.VerifyPSS"},
		{Kind: "calls", Name: "NewTokenKey", Arg: "NewSignedBlob"},
		{Kind: "calls", Name: "PSPBinary.getSignedBlob", Arg: "checkBoundaries"},
		{Kind: "calls", Name: "PSPBinary.getSignedBlob", Arg: "NewSignedBlob"},
		{Kind: "calls", Name: "ValidateRTM", Arg: "NewSignedBlob"},
		{Kind: "calls", Name: "ValidateRTM", Arg: "append"},
		{Kind: "calls", Name: "ValidateRTM", Arg: "checkBoundaries"},
		{Kind: "calls", Name: "getKeysFromDatabase", Arg: "parseKeyDatabase"},
		// the key chain as a whole (follow-up wp-c16b): one root key, one key database, two tokens
		{Kind: "calls", Name: "getKeysFromDatabase", Arg: "NewRootKey"},
		{Kind: "calls", Name: "getKeysFromDatabase", Arg: "newPSPBinary"},
		{Kind: "calls", Name: "GetKeys", Arg: "getKeysFromDatabase"},
		{Kind: "calls", Name: "GetKeys", Arg: "NewTokenKey"},
		{Kind: "calls", Name: "GetPSBSignBIOSKey", Arg: "GetKeys"},
		{Kind: "calls", Name: "ValidateRTM", Arg: "GetPSBSignBIOSKey"},
	}})
}
