package main

// Facts regenerated for property C04, part "parsing never modifies the caller's buffer / the tree does
// not depend on uefi.ReadOnly" (lean/FianoModel/Uefi/TieC04.lean, theorems tie_writes_*): the inventory
// of every WRITE TO A BYTE SLICE inside the parser of pkg/uefi.  In read-only mode the node buffers
// alias the caller's input, so the only writes the parser may contain are writes into a buffer it has
// just allocated itself.  The inventory makes that a checked fact of the source: a new write that is
// not of this kind changes a regenerated list and breaks a named theorem, even when no generated input
// reaches it.
//
//   bytewrites          func F            the writes inside F, one record each, sorted
//   bytewrites_closure  func F            the same over F and everything reachable from F inside the
//                                         package (calls by name, methods by selector name, functions
//                                         referenced through package-level tables such as
//                                         regionConstructors), WITHOUT function names: a renamed or
//                                         newly split-out helper is not an alarm, a new write is
//
// One record = "<kind> <dst> <fresh|alias> <guard>":
//   kind   copy      copy(dst, …)
//          index     dst[i] = … / dst[i] op= … / dst[i]++
//          append    append(dst, …) where dst is not a literal / nil / conversion (may write into the
//                    spare capacity of dst's backing array)
//          put       binary.<order>.PutUintNN(dst, …) / <order>.PutUintNN(dst, …)
//          erase     Erase(dst, …)
//          readinto  X.Read(dst) / io.ReadFull(r, dst) / io.ReadAtLeast(r, dst, …) / X.ReadAt(dst, …)
//   dst    field | param | local | other     root of the destination expression (x.f… / a parameter of F /
//                                            a local of F / anything else); destinations that are
//                                            provably not byte slices (a struct field or a local whose
//                                            declared / made element type is not byte) are not listed
//   fresh  the very same destination expression was assigned `make(…)`, a composite literal or
//          `append([]T{}, …)` earlier in F, in a block enclosing the write — the write goes to a buffer F
//          allocated itself; `alias` otherwise
//   guard  notro | ro | mixed | none         the write sits in the else-branch of `if ReadOnly` (or under
//                                            `if !ReadOnly`) | in the ReadOnly branch | under a compound
//                                            condition mentioning ReadOnly | under no such condition
// Identifier-free and sorted, like the other kinds of this area.

import (
	"fmt"
	"go/ast"
	"go/token"
	"sort"
	"strings"
)

// ---- is an expression (possibly) a byte slice?  go/ast only: decided from declarations we can see,
// "unknown" counts as yes (over-inclusion only makes the inventory longer, never unsound)

func uwIsByteElem(e ast.Expr) (byteish, known bool) {
	switch t := e.(type) {
	case *ast.Ident:
		if t.Name == "byte" || t.Name == "uint8" {
			return true, true
		}
		return false, true
	case *ast.SelectorExpr, *ast.StarExpr, *ast.ArrayType, *ast.MapType, *ast.StructType, *ast.InterfaceType, *ast.FuncType:
		return false, true
	}
	return true, false
}

// typeIsBytes: []byte / [N]byte / named alias unknown
func (p *pkgInfo) typeIsBytes(t ast.Expr, depth int) (byteish, known bool) {
	switch t := t.(type) {
	case *ast.ArrayType:
		return uwIsByteElem(t.Elt)
	case *ast.Ident:
		if depth < 4 {
			if u, ok := p.types[t.Name]; ok {
				return p.typeIsBytes(u, depth+1)
			}
		}
		switch t.Name {
		case "string", "int", "uint", "uint8", "uint16", "uint32", "uint64", "int8", "int16", "int32", "int64", "bool", "byte", "error":
			return false, true
		}
		return true, false
	case *ast.StarExpr, *ast.MapType, *ast.StructType, *ast.InterfaceType, *ast.FuncType, *ast.ChanType:
		return false, true
	}
	return true, false
}

// fieldIsBytes: does any struct of the package have a field of that name whose type is a byte slice /
// array?  (known=false when no struct declares the field)
func (p *pkgInfo) fieldIsBytes(name string) (byteish, known bool) {
	found := false
	for _, t := range p.types {
		st, ok := t.(*ast.StructType)
		if !ok {
			continue
		}
		for _, f := range st.Fields.List {
			for _, n := range f.Names {
				if n.Name == name {
					found = true
					if b, _ := p.typeIsBytes(f.Type, 0); b {
						return true, true
					}
				}
			}
		}
	}
	if found {
		return false, true
	}
	return true, false
}

type uwScope struct {
	p      *pkgInfo
	fd     *ast.FuncDecl
	params map[string]ast.Expr // name -> declared type
	locals map[string]ast.Expr // name -> first initialiser (nil = declared without one) ; typed decls in ltypes
	ltypes map[string]ast.Expr
}

func uwNewScope(p *pkgInfo, fd *ast.FuncDecl) *uwScope {
	s := &uwScope{p: p, fd: fd, params: map[string]ast.Expr{}, locals: map[string]ast.Expr{}, ltypes: map[string]ast.Expr{}}
	add := func(fl *ast.FieldList) {
		if fl == nil {
			return
		}
		for _, f := range fl.List {
			for _, n := range f.Names {
				s.params[n.Name] = f.Type
			}
		}
	}
	add(fd.Recv)
	add(fd.Type.Params)
	add(fd.Type.Results)
	ast.Inspect(fd.Body, func(n ast.Node) bool {
		switch x := n.(type) {
		case *ast.AssignStmt:
			if x.Tok == token.DEFINE {
				for i, l := range x.Lhs {
					if id, ok := l.(*ast.Ident); ok {
						if _, seen := s.locals[id.Name]; !seen {
							if len(x.Rhs) == len(x.Lhs) {
								s.locals[id.Name] = x.Rhs[i]
							} else {
								s.locals[id.Name] = nil
							}
						}
					}
				}
			}
		case *ast.DeclStmt:
			if gd, ok := x.Decl.(*ast.GenDecl); ok && gd.Tok == token.VAR {
				for _, sp := range gd.Specs {
					vs := sp.(*ast.ValueSpec)
					for i, n := range vs.Names {
						if vs.Type != nil {
							s.ltypes[n.Name] = vs.Type
						}
						if _, seen := s.locals[n.Name]; !seen {
							if i < len(vs.Values) {
								s.locals[n.Name] = vs.Values[i]
							} else {
								s.locals[n.Name] = nil
							}
						}
					}
				}
			}
		case *ast.RangeStmt:
			for _, l := range []ast.Expr{x.Key, x.Value} {
				if id, ok := l.(*ast.Ident); ok && x.Tok == token.DEFINE {
					if _, seen := s.locals[id.Name]; !seen {
						s.locals[id.Name] = nil
						s.ltypes[id.Name] = &ast.Ident{Name: "int"} // index / element: never a destination we track
					}
				}
			}
		}
		return true
	})
	return s
}

func (s *uwScope) bytesExpr(e ast.Expr, depth int) bool {
	if depth > 6 {
		return true
	}
	switch x := e.(type) {
	case *ast.ParenExpr:
		return s.bytesExpr(x.X, depth+1)
	case *ast.SliceExpr:
		return s.bytesExpr(x.X, depth+1)
	case *ast.SelectorExpr:
		b, _ := s.p.fieldIsBytes(x.Sel.Name)
		return b
	case *ast.Ident:
		if t, ok := s.params[x.Name]; ok {
			b, _ := s.p.typeIsBytes(t, 0)
			return b
		}
		if t, ok := s.ltypes[x.Name]; ok {
			b, _ := s.p.typeIsBytes(t, 0)
			return b
		}
		if init, ok := s.locals[x.Name]; ok {
			if init == nil {
				return true
			}
			return s.bytesValue(init, depth+1)
		}
		if init, ok := s.p.vars[x.Name]; ok {
			return s.bytesValue(init, depth+1)
		}
		return true
	case *ast.IndexExpr:
		return false // an element, not a slice of bytes we track as a destination
	case *ast.CallExpr:
		return s.bytesValue(x, depth+1)
	}
	return true
}

// bytesValue: can the VALUE of e be a byte slice?
func (s *uwScope) bytesValue(e ast.Expr, depth int) bool {
	switch x := e.(type) {
	case *ast.CallExpr:
		if id, ok := x.Fun.(*ast.Ident); ok {
			switch id.Name {
			case "make", "new":
				if len(x.Args) > 0 {
					b, _ := s.p.typeIsBytes(x.Args[0], 0)
					return b
				}
			case "append":
				if len(x.Args) > 0 {
					return s.bytesExpr(x.Args[0], depth+1)
				}
			case "len", "cap", "int", "uint64", "uint32", "uint16", "uint8", "string":
				return false
			}
		}
		if at, ok := x.Fun.(*ast.ArrayType); ok { // conversion []byte(x)
			b, _ := uwIsByteElem(at.Elt)
			return b
		}
		return true
	case *ast.CompositeLit:
		if x.Type != nil {
			b, _ := s.p.typeIsBytes(x.Type, 0)
			return b
		}
		return true
	case *ast.BasicLit:
		return false
	case *ast.UnaryExpr:
		return false
	case *ast.BinaryExpr:
		return false
	}
	return s.bytesExpr(e, depth+1)
}

// root of a destination expression, through slicing / parentheses
func uwDestRoot(e ast.Expr) ast.Expr {
	for {
		switch x := e.(type) {
		case *ast.SliceExpr:
			e = x.X
		case *ast.ParenExpr:
			e = x.X
		default:
			return e
		}
	}
}

func (s *uwScope) dstClass(root ast.Expr) string {
	switch x := root.(type) {
	case *ast.SelectorExpr:
		return "field"
	case *ast.Ident:
		if _, ok := s.params[x.Name]; ok {
			return "param"
		}
		if _, ok := s.locals[x.Name]; ok {
			return "local"
		}
		if _, ok := s.ltypes[x.Name]; ok {
			return "local"
		}
	}
	return "other"
}

func uwIsFreshValue(e ast.Expr) bool {
	switch x := e.(type) {
	case *ast.CallExpr:
		if id, ok := x.Fun.(*ast.Ident); ok {
			if id.Name == "make" {
				return true
			}
			if id.Name == "append" && len(x.Args) > 0 {
				if _, ok := x.Args[0].(*ast.CompositeLit); ok {
					return true
				}
			}
		}
	case *ast.CompositeLit:
		return true
	}
	return false
}

func uwMentionsReadOnly(e ast.Expr) bool {
	found := false
	ast.Inspect(e, func(n ast.Node) bool {
		if id, ok := n.(*ast.Ident); ok && id.Name == "ReadOnly" {
			found = true
		}
		return true
	})
	return found
}

// uwGuardOf one enclosing condition: +1 = ReadOnly true here, -1 = false here, 2 = mixed, 0 = unrelated
func uwGuardOf(cond ast.Expr, inElse bool) int {
	if !uwMentionsReadOnly(cond) {
		return 0
	}
	v := 0
	switch x := cond.(type) {
	case *ast.Ident:
		if x.Name == "ReadOnly" {
			v = 1
		}
	case *ast.SelectorExpr:
		if x.Sel.Name == "ReadOnly" {
			v = 1
		}
	case *ast.UnaryExpr:
		if x.Op == token.NOT {
			switch y := x.X.(type) {
			case *ast.Ident:
				if y.Name == "ReadOnly" {
					v = -1
				}
			case *ast.SelectorExpr:
				if y.Sel.Name == "ReadOnly" {
					v = -1
				}
			}
		}
	}
	if v == 0 {
		return 2
	}
	if inElse {
		v = -v
	}
	return v
}

func uwCollect(p *pkgInfo, fd *ast.FuncDecl) []string {
	if fd.Body == nil {
		return nil
	}
	s := uwNewScope(p, fd)
	var out []string
	// every "dst = fresh value" assignment with its position and the block it sits in
	type freshAsg struct {
		text  string
		pos   token.Pos
		block *ast.BlockStmt
	}
	var fresh []freshAsg
	var blocks []*ast.BlockStmt
	var scanFresh func(n ast.Node)
	scanFresh = func(n ast.Node) {
		ast.Inspect(n, func(m ast.Node) bool {
			switch x := m.(type) {
			case *ast.BlockStmt:
				blocks = append(blocks, x)
				for _, st := range x.List {
					if as, ok := st.(*ast.AssignStmt); ok && len(as.Lhs) == len(as.Rhs) {
						for i := range as.Lhs {
							if uwIsFreshValue(as.Rhs[i]) {
								fresh = append(fresh, freshAsg{exprText(p.fset, as.Lhs[i]), as.Pos(), x})
							}
						}
					}
					if ds, ok := st.(*ast.DeclStmt); ok {
						if gd, ok := ds.Decl.(*ast.GenDecl); ok && gd.Tok == token.VAR {
							for _, sp := range gd.Specs {
								vs := sp.(*ast.ValueSpec)
								for i, n := range vs.Names {
									if i < len(vs.Values) && uwIsFreshValue(vs.Values[i]) {
										fresh = append(fresh, freshAsg{n.Name, ds.Pos(), x})
									}
								}
							}
						}
					}
				}
			}
			return true
		})
	}
	scanFresh(fd.Body)
	encloses := func(b *ast.BlockStmt, pos token.Pos) bool { return b.Pos() <= pos && pos < b.End() }
	isFresh := func(dst ast.Expr, at token.Pos) bool {
		txt := exprText(p.fset, uwDestRoot(dst))
		for _, f := range fresh {
			if f.text == txt && f.pos < at && encloses(f.block, at) {
				return true
			}
		}
		return false
	}
	record := func(kind string, dst ast.Expr, at token.Pos, guard int) {
		root := uwDestRoot(dst)
		if !s.bytesExpr(root, 0) {
			return
		}
		fr := "alias"
		if isFresh(dst, at) {
			fr = "fresh"
		}
		g := map[int]string{0: "none", 1: "ro", -1: "notro", 2: "mixed"}[guard]
		out = append(out, fmt.Sprintf("%s %s %s %s", kind, s.dstClass(root), fr, g))
	}
	combine := func(a, b int) int {
		switch {
		case a == 0:
			return b
		case b == 0:
			return a
		case a == b:
			return a
		}
		return 2
	}
	var walk func(n ast.Node, guard int)
	walk = func(n ast.Node, guard int) {
		if n == nil {
			return
		}
		switch x := n.(type) {
		case *ast.IfStmt:
			if x.Init != nil {
				walk(x.Init, guard)
			}
			walk(x.Cond, guard)
			walk(x.Body, combine(guard, uwGuardOf(x.Cond, false)))
			if x.Else != nil {
				walk(x.Else, combine(guard, uwGuardOf(x.Cond, true)))
			}
			return
		case *ast.FuncLit:
			walk(x.Body, guard)
			return
		case *ast.AssignStmt:
			for _, l := range x.Lhs {
				if ix, ok := l.(*ast.IndexExpr); ok {
					record("index", ix.X, x.Pos(), guard)
				}
			}
		case *ast.IncDecStmt:
			if ix, ok := x.X.(*ast.IndexExpr); ok {
				record("index", ix.X, x.Pos(), guard)
			}
		case *ast.CallExpr:
			name, recvPkg := "", ""
			switch f := x.Fun.(type) {
			case *ast.Ident:
				name = f.Name
			case *ast.SelectorExpr:
				name = f.Sel.Name
				if id, ok := f.X.(*ast.Ident); ok {
					recvPkg = id.Name
				}
			}
			switch {
			case name == "copy" && recvPkg == "" && len(x.Args) == 2:
				record("copy", x.Args[0], x.Pos(), guard)
			case name == "append" && recvPkg == "" && len(x.Args) >= 1:
				switch a := x.Args[0].(type) {
				case *ast.CompositeLit:
				case *ast.CallExpr: // conversion or fresh value
					_ = a
				default:
					if id, ok := x.Args[0].(*ast.Ident); !ok || id.Name != "nil" {
						record("append", x.Args[0], x.Pos(), guard)
					}
				}
			case strings.HasPrefix(name, "PutUint") || strings.HasPrefix(name, "PutVarint") || strings.HasPrefix(name, "PutUvarint"):
				if len(x.Args) >= 1 {
					record("put", x.Args[0], x.Pos(), guard)
				}
			case name == "Erase" && len(x.Args) >= 1:
				record("erase", x.Args[0], x.Pos(), guard)
			case name == "ReadFull" || name == "ReadAtLeast":
				if len(x.Args) >= 2 {
					record("readinto", x.Args[1], x.Pos(), guard)
				}
			case (name == "Read" || name == "ReadAt") && recvPkg != "binary":
				if len(x.Args) >= 1 {
					if _, isAddr := x.Args[0].(*ast.UnaryExpr); !isAddr {
						record("readinto", x.Args[0], x.Pos(), guard)
					}
				}
			}
		}
		// generic descent
		ast.Inspect(n, func(m ast.Node) bool {
			if m == n || m == nil {
				return true
			}
			walk(m, guard)
			return false
		})
	}
	walk(fd.Body, 0)
	sort.Strings(out)
	return out
}

// closure of functions reachable from root inside the package
func uwClosure(p *pkgInfo, root string) []string {
	seen := map[string]bool{}
	var order []string
	methodsByName := map[string][]string{}
	for k := range p.funcs {
		if i := strings.Index(k, "."); i >= 0 {
			methodsByName[k[i+1:]] = append(methodsByName[k[i+1:]], k)
		}
	}
	var visit func(name string)
	var scan func(n ast.Node)
	seenVar := map[string]bool{}
	scan = func(n ast.Node) {
		ast.Inspect(n, func(m ast.Node) bool {
			switch x := m.(type) {
			case *ast.SelectorExpr:
				if id, ok := x.X.(*ast.Ident); ok {
					// pkg.Func of another package: not ours (unless the "package" is a local value)
					_ = id
				}
				for _, k := range methodsByName[x.Sel.Name] {
					visit(k)
				}
			case *ast.Ident:
				if _, ok := p.funcs[x.Name]; ok {
					visit(x.Name)
				}
				if init, ok := p.vars[x.Name]; ok && !seenVar[x.Name] {
					seenVar[x.Name] = true
					scan(init)
				}
			}
			return true
		})
	}
	visit = func(name string) {
		if seen[name] {
			return
		}
		fd, ok := p.funcs[name]
		if !ok {
			return
		}
		seen[name] = true
		order = append(order, name)
		if fd.Body != nil {
			scan(fd.Body)
		}
	}
	visit(root)
	sort.Strings(order)
	return order
}

func init() {
	extraKinds["bytewrites"] = func(em *emitter, p *pkgInfo, it Item) {
		fd, ok := p.funcs[it.Name]
		if !ok || fd.Body == nil {
			em.fail(it, "List String", "[]", "function not found")
			return
		}
		fmt.Fprintf(&em.b, "def bytewrites_%s : List String := %s\n\n", leanName(it.Name), strList(uwCollect(p, fd)))
	}
	extraKinds["bytewrites_closure"] = func(em *emitter, p *pkgInfo, it Item) {
		if _, ok := p.funcs[it.Name]; !ok {
			em.fail(it, "List String", "[]", "function not found")
			return
		}
		fns := uwClosure(p, it.Name)
		var all []string
		fmt.Fprintf(&em.b, "/- functions reachable from %s inside the package (%d):\n", it.Name, len(fns))
		for _, f := range fns {
			ws := uwCollect(p, p.funcs[f])
			all = append(all, ws...)
			if len(ws) > 0 {
				fmt.Fprintf(&em.b, "     %s: %s\n", f, strings.Join(ws, "; "))
			}
		}
		fmt.Fprintf(&em.b, "   without writes: ")
		for _, f := range fns {
			if len(uwCollect(p, p.funcs[f])) == 0 {
				fmt.Fprintf(&em.b, "%s ", f)
			}
		}
		fmt.Fprintf(&em.b, "\n-/\n")
		sort.Strings(all)
		fmt.Fprintf(&em.b, "def bytewrites_closure_%s : List String := %s\n\n", leanName(it.Name), strList(all))
	}

	var items []Item
	for _, f := range []string{"NewFlashImage", "NewBIOSRegion", "NewBIOSPadding", "NewMERegion", "NewMEFPT", "NewRawRegion",
		"NewFirmwareVolume", "NewFile", "NewSection", "NewNVarStore", "newNVar", "NVar.parseExtendedHeader",
		"NVarStore.getGUIDFromStore", "FlashDescriptor.ParseFlashDescriptor"} {
		items = append(items, Item{Kind: "bytewrites", Name: f})
	}
	items = append(items, Item{Kind: "bytewrites_closure", Name: "Parse"})
	specs = append(specs, Spec{Area: "UefiWrites", Pkg: "pkg/uefi", Items: items})
}
