package main

// Facts regenerated for the model of visitors.Validate (lean/FianoModel/Uefi/Validate.lean, property C09):
// the constants and the GUID table validate.go compares with, and two inventories of Validate.Visit.
//
// Extraction kinds added here (both insensitive to renaming of locals, to re-wording of messages and
// to the order of independent statements inside a case):
//   errsites  func F with one type switch: for every case clause the type text and the number of
//             `append(<x>.Errors, …)` calls in it            -> List (String × Nat), in source order of the cases
//   cmpset    func F: every comparison with an integer literal -> List (String × Nat) = (operator, literal), sorted
//   masklits  func F: every integer literal operand of `&`      -> List Nat, sorted

import (
	"fmt"
	"go/ast"
	"go/token"
	"sort"
	"strings"
)

func init() {
	extraKinds["errsites"] = func(em *emitter, p *pkgInfo, it Item) {
		fd, ok := p.funcs[it.Name]
		if !ok || fd.Body == nil {
			em.fail(it, "List (String × Nat)", "[]", "function not found")
			return
		}
		var sw *ast.TypeSwitchStmt
		n := 0
		ast.Inspect(fd.Body, func(x ast.Node) bool {
			if s, ok := x.(*ast.TypeSwitchStmt); ok {
				if sw == nil {
					sw = s
				}
				n++
			}
			return true
		})
		if sw == nil || n != 1 {
			em.fail(it, "List (String × Nat)", "[]", "expected exactly one type switch")
			return
		}
		var ss []string
		for _, st := range sw.Body.List {
			cc, ok := st.(*ast.CaseClause)
			if !ok {
				continue
			}
			var tys []string
			for _, e := range cc.List {
				tys = append(tys, exprText(p.fset, e))
			}
			name := strings.Join(tys, ",")
			if cc.List == nil {
				name = "default"
			}
			cnt := 0
			for _, b := range cc.Body {
				ast.Inspect(b, func(x ast.Node) bool {
					c, ok := x.(*ast.CallExpr)
					if !ok || len(c.Args) < 1 {
						return true
					}
					if id, ok := c.Fun.(*ast.Ident); ok && id.Name == "append" {
						if sel, ok := c.Args[0].(*ast.SelectorExpr); ok && sel.Sel.Name == "Errors" {
							cnt++
						}
					}
					return true
				})
			}
			ss = append(ss, fmt.Sprintf("(%s, %d)", leanStr(name), cnt))
		}
		fmt.Fprintf(&em.b, "def errsites_%s : List (String × Nat) := [%s]\n\n", leanName(it.Name), strings.Join(ss, ", "))
	}
	extraKinds["cmpset"] = func(em *emitter, p *pkgInfo, it Item) {
		fd, ok := p.funcs[it.Name]
		if !ok || fd.Body == nil {
			em.fail(it, "List (String × Nat)", "[]", "function not found")
			return
		}
		type ol struct {
			op  string
			lit int64
		}
		var xs []ol
		ast.Inspect(fd.Body, func(n ast.Node) bool {
			b, ok := n.(*ast.BinaryExpr)
			if !ok {
				return true
			}
			switch b.Op {
			case token.LSS, token.LEQ, token.GTR, token.GEQ, token.EQL, token.NEQ:
			default:
				return true
			}
			if lit, ok := b.Y.(*ast.BasicLit); ok && lit.Kind == token.INT {
				if v, ok := p.eval(lit, 0); ok {
					xs = append(xs, ol{b.Op.String(), v})
				}
			}
			return true
		})
		sort.Slice(xs, func(i, j int) bool {
			if xs[i].lit != xs[j].lit {
				return xs[i].lit < xs[j].lit
			}
			return xs[i].op < xs[j].op
		})
		var ss []string
		for _, x := range xs {
			ss = append(ss, fmt.Sprintf("(%s, %d)", leanStr(x.op), x.lit))
		}
		fmt.Fprintf(&em.b, "def cmpset_%s : List (String × Nat) := [%s]\n\n", leanName(it.Name), strings.Join(ss, ", "))
	}

	extraKinds["masklits"] = func(em *emitter, p *pkgInfo, it Item) {
		fd, ok := p.funcs[it.Name]
		if !ok || fd.Body == nil {
			em.fail(it, "List Nat", "[]", "function not found")
			return
		}
		var xs []int64
		ast.Inspect(fd.Body, func(n ast.Node) bool {
			b, ok := n.(*ast.BinaryExpr)
			if !ok || b.Op != token.AND {
				return true
			}
			for _, e := range []ast.Expr{b.X, b.Y} {
				if lit, ok := e.(*ast.BasicLit); ok && lit.Kind == token.INT {
					if v, ok := p.eval(lit, 0); ok {
						xs = append(xs, v)
					}
				}
			}
			return true
		})
		sort.Slice(xs, func(i, j int) bool { return xs[i] < xs[j] })
		fmt.Fprintf(&em.b, "def masklits_%s : List Nat := %s\n\n", leanName(it.Name), natList(xs))
	}

	specs = append(specs, Spec{Area: "UefiValidate", Pkg: "pkg/uefi", Items: []Item{
		{Kind: "const", Name: "FlashDescriptorMapMaxBase"},
		{Kind: "const", Name: "FirmwareVolumeMinSize"},
		{Kind: "const", Name: "FirmwareVolumeFixedHeaderSize"},
		{Kind: "const", Name: "FileHeaderMinLength"},
		{Kind: "const", Name: "FileHeaderExtMinLength"},
		{Kind: "const", Name: "SectionExtMinLength"},
		{Kind: "const", Name: "EmptyBodyChecksum"},
		{Kind: "guidkeys", Name: "FVGUIDs"},
		{Kind: "guidvar", Name: "FFS1"},
		{Kind: "guidvar", Name: "FFS2"},
		{Kind: "guidvar", Name: "FFS3"},
		{Kind: "guidvar", Name: "EVSA"},
		{Kind: "guidvar", Name: "NVAR"},
		{Kind: "guidvar", Name: "EVSA2"},
		{Kind: "guidvar", Name: "AppleBoot"},
		{Kind: "guidvar", Name: "PFH1"},
		{Kind: "guidvar", Name: "PFH2"},
		{Kind: "layout", Name: "FlashDescriptorMap"},
		{Kind: "masklits", Name: "fileAttr.IsLarge"},
		{Kind: "masklits", Name: "fileAttr.HasChecksum"},
		{Kind: "masklits", Name: "FirmwareVolume.GetErasePolarity"},
	}})
	specs = append(specs, Spec{Area: "UefiValidateV", Pkg: "pkg/visitors", Items: []Item{
		{Kind: "errsites", Name: "Validate.Visit"},
		{Kind: "cmpset", Name: "Validate.Visit"},
		{Kind: "cmpset", Name: "blockMapEnd"},
	}})
}
