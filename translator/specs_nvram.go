package main

import (
	"fmt"
	"go/ast"
	"go/token"
	"sort"
	"strings"
)

// C10: AMI NVAR stores (pkg/uefi/nvram.go, pkg/visitors/nvramcompact.go + assemble.go, pkg/unicode)
func init() {
	specs = append(specs, Spec{Area: "Nvram", Pkg: "pkg/uefi", Items: []Item{
		{Kind: "const", Name: "NVarEntryRuntime"},
		{Kind: "const", Name: "NVarEntryASCIIName"},
		{Kind: "const", Name: "NVarEntryGUID"},
		{Kind: "const", Name: "NVarEntryDataOnly"},
		{Kind: "const", Name: "NVarEntryExtHeader"},
		{Kind: "const", Name: "NVarEntryHWErrorRecord"},
		{Kind: "const", Name: "NVarEntryAuthWrite"},
		{Kind: "const", Name: "NVarEntryValid"},
		{Kind: "const", Name: "NVarEntrySignature"},
		{Kind: "const", Name: "InvalidNVarEntry"},
		{Kind: "const", Name: "InvalidLinkNVarEntry"},
		{Kind: "const", Name: "LinkNVarEntry"},
		{Kind: "const", Name: "DataNVarEntry"},
		{Kind: "const", Name: "FullNVarEntry"},
		{Kind: "const", Name: "NVarEntryExtChecksum"},
		{Kind: "layout", Name: "NVarHeader"},
		// byte order of every binary.Read / binary.Write in the NVAR code
		{Kind: "calls", Name: "NVar.parseHeader", Arg: "binary.Read"},
		{Kind: "calls", Name: "NVar.parseGUID", Arg: "binary.Read"},
		{Kind: "calls", Name: "NVar.parseExtendedHeader", Arg: "binary.Read"},
		{Kind: "calls", Name: "NVarStore.getGUIDFromStore", Arg: "binary.Read"},
		{Kind: "calls", Name: "NVar.Assemble", Arg: "binary.Write"},
		{Kind: "calls", Name: "NVarStore.GetGUIDStoreBuf", Arg: "binary.Write"},
		// the three helpers the model spells out
		{Kind: "calls", Name: "NVar.parseNext", Arg: "Read3Size"},
		{Kind: "calls", Name: "NVar.Assemble", Arg: "Write3Size"},
		{Kind: "calls", Name: "newNVar", Arg: "IsErased"},
	}})
	specs = append(specs, Spec{Area: "NvramVisitors", Pkg: "pkg/visitors", Items: []Item{
		// what compaction copies from the head (h) and from the kept entry (k)
		{Kind: "calls", Name: "compactNVarStore", Arg: "v.Assemble"},
		{Kind: "assigns", Name: "compactNVarStore"},
		{Kind: "assigns", Name: "NVarInvalidate.Visit"},
	}})
	specs = append(specs, Spec{Area: "NvramUnicode", Pkg: "pkg/unicode", Items: []Item{
		{Kind: "calls", Name: "UCS2ToUTF8", Arg: "unicode.UTF16"},
		{Kind: "calls", Name: "UTF8ToUCS2", Arg: "unicode.UTF16"},
	}})
}

// ---- logic ties of C10 (follow-up wp-c10b): lean/FianoModel/Nvram/TieLogic.lean ----------------
//
// The facts above tie constants, the header layout and call counts.  The facts below tie the
// ARITHMETIC and the DECISIONS of the pure helpers of the NVAR code that the model spells out in
// Lean: which bit decides validity, which entry types count as valid, the uint8 arithmetic of the
// lazy GUID-table lookup, the byte ranges of the extended-header checksum, the size / data-offset
// checks of Assemble, the attribute merge of compaction.  Kinds used:
//
//   goguards F (existing kind, specs_uefitotal.go): the condition of every `if` / `for` of F in source
//             order, local identifiers replaced by `_`
//   gosites  F (existing kind): every slice / index / make expression of F, same normalisation
//   nvstmts  F, Arg = "k1|k2|…": the assignments, ++/--, `return e`, `case a, b:` lists, `if` conditions
//             ("if c") and local const/var declarations of F whose normalised text contains one of the
//             keys (empty Arg = all), SORTED (so that reordering independent statements is not an
//             alarm); statements holding a string literal (error texts, names) or a function literal
//             are left out.  Arg starting with "#" = numbered mode (compaction): every plain or
//             operator assignment (`=`, `+=`, …) and every `if` condition is kept, `:=` statements only
//             when they match a key, ++/-- never — loop scaffolding (`for i := …`, `k := list[i]`,
//             `i++`) is not part of the fact, so rewriting a `range` loop as an index loop is silent —
//             and the local identifiers that occur in the kept statements are numbered v0, v1, … in
//             the order of their declarations, so that WHICH variable is used where stays visible.
//   nvsig    F: parameter and result types (the widths decide where Go arithmetic wraps)
//
// A renamed local, a reworded error or a reordered pair of independent statements leaves every
// list unchanged; a changed operator, operand, constant, width or a dropped check changes a list and
// breaks the named theorem of TieLogic.lean that quotes it next to the model's function.
func init() {
	localOf := func(fd *ast.FuncDecl) func(id *ast.Ident) bool {
		return func(id *ast.Ident) bool {
			if id.Obj == nil || id.Obj.Kind != ast.Var {
				return false
			}
			pos := id.Obj.Pos()
			return pos >= fd.Pos() && pos <= fd.End()
		}
	}
	// numbering (Arg starts with "#"): local identifiers become v0, v1, … in the order of their
	// declarations, so that WHICH variable is used where stays visible (compaction: head vs kept entry)
	var numbering map[*ast.Object]int
	normWith := func(p *pkgInfo, local func(*ast.Ident) bool, n ast.Node) string {
		var touched []*ast.Ident
		var old []string
		ast.Inspect(n, func(x ast.Node) bool {
			if id, ok := x.(*ast.Ident); ok && local(id) {
				touched = append(touched, id)
				old = append(old, id.Name)
				if numbering != nil {
					id.Name = fmt.Sprintf("v%d", numbering[id.Obj])
				} else {
					id.Name = "_"
				}
			}
			return true
		})
		s := exprText(p.fset, n)
		for i, id := range touched {
			id.Name = old[i]
		}
		return s
	}
	hasLit := func(n ast.Node) bool {
		bad := false
		ast.Inspect(n, func(x ast.Node) bool {
			switch y := x.(type) {
			case *ast.BasicLit:
				if y.Kind == token.STRING {
					bad = true
				}
			case *ast.FuncLit:
				bad = true
			}
			return !bad
		})
		return bad
	}
	extraKinds["nvstmts"] = func(em *emitter, p *pkgInfo, it Item) {
		name := "stmts_" + leanName(it.Name)
		if it.As != "" {
			name = it.As
		}
		fd, ok := p.funcs[it.Name]
		if !ok || fd.Body == nil {
			em.failed = append(em.failed, it.Kind+":"+it.Name+" (function not found)")
			fmt.Fprintf(&em.b, "-- EXTRACTION FAILED: function not found\ndef %s : List String := []\n\n", name)
			return
		}
		local := localOf(fd)
		arg := it.Arg
		numbered := strings.HasPrefix(arg, "#")
		if numbered {
			arg = arg[1:]
		}
		numbering = nil
		defer func() { numbering = nil }()
		var keys []string
		if arg != "" {
			keys = strings.Split(arg, "|")
		}
		match := func(s string) bool {
			if len(keys) == 0 {
				return true
			}
			for _, k := range keys {
				if strings.Contains(s, k) {
					return true
				}
			}
			return false
		}
		// first pass: which nodes are kept (decided on the `_` normalisation)
		type kept struct {
			n      ast.Node
			prefix string
			list   []ast.Expr // case clause
		}
		var keep []kept
		consider := func(n ast.Node, prefix string, always bool) {
			if hasLit(n) {
				return
			}
			if always || match(prefix+normWith(p, local, n)) {
				keep = append(keep, kept{n: n, prefix: prefix})
			}
		}
		ast.Inspect(fd.Body, func(n ast.Node) bool {
			switch x := n.(type) {
			case *ast.AssignStmt:
				consider(x, "", numbered && x.Tok != token.DEFINE)
			case *ast.IncDecStmt:
				if !numbered {
					consider(x, "", false)
				}
			case *ast.ReturnStmt:
				if len(x.Results) > 0 {
					consider(x, "", false)
				}
			case *ast.IfStmt:
				if numbered || len(keys) > 0 { // un-keyed lists leave the conditions to goguards
					consider(x.Cond, "if ", numbered)
				}
			case *ast.CaseClause:
				if len(x.List) > 0 {
					lit := false
					var ss []string
					for _, e := range x.List {
						if hasLit(e) {
							lit = true
						}
						ss = append(ss, normWith(p, local, e))
					}
					if !lit && match("case "+strings.Join(ss, ", ")) {
						keep = append(keep, kept{prefix: "case ", list: x.List})
					}
				}
			case *ast.DeclStmt:
				if gd, ok := x.Decl.(*ast.GenDecl); ok && (gd.Tok == token.CONST || gd.Tok == token.VAR) {
					for _, sp := range gd.Specs {
						if vs, ok := sp.(*ast.ValueSpec); ok {
							doc, cm := vs.Doc, vs.Comment
							vs.Doc, vs.Comment = nil, nil
							consider(vs, gd.Tok.String()+" ", numbered && gd.Tok == token.CONST)
							vs.Doc, vs.Comment = doc, cm
						}
					}
				}
			}
			return true
		})
		if numbered {
			// number the locals that occur in the kept statements, by declaration position
			var objs []*ast.Object
			seen := map[*ast.Object]bool{}
			note := func(n ast.Node) {
				ast.Inspect(n, func(x ast.Node) bool {
					if id, ok := x.(*ast.Ident); ok && local(id) && !seen[id.Obj] {
						seen[id.Obj] = true
						objs = append(objs, id.Obj)
					}
					return true
				})
			}
			for _, k := range keep {
				if k.n != nil {
					note(k.n)
				}
				for _, e := range k.list {
					note(e)
				}
			}
			sort.Slice(objs, func(i, j int) bool { return objs[i].Pos() < objs[j].Pos() })
			numbering = map[*ast.Object]int{}
			for i, o := range objs {
				numbering[o] = i
			}
		}
		var out []string
		for _, k := range keep {
			if k.n != nil {
				if vs, ok := k.n.(*ast.ValueSpec); ok {
					doc, cm := vs.Doc, vs.Comment
					vs.Doc, vs.Comment = nil, nil
					out = append(out, k.prefix+normWith(p, local, vs))
					vs.Doc, vs.Comment = doc, cm
				} else {
					out = append(out, k.prefix+normWith(p, local, k.n))
				}
			} else {
				var ss []string
				for _, e := range k.list {
					ss = append(ss, normWith(p, local, e))
				}
				out = append(out, k.prefix+strings.Join(ss, ", "))
			}
		}
		sort.Strings(out)
		fmt.Fprintf(&em.b, "def %s : List String := %s\n\n", name, strList(out))
	}
	extraKinds["nvsig"] = func(em *emitter, p *pkgInfo, it Item) {
		name := "sig_" + leanName(it.Name)
		fd, ok := p.funcs[it.Name]
		if !ok {
			em.failed = append(em.failed, it.Kind+":"+it.Name+" (function not found)")
			fmt.Fprintf(&em.b, "-- EXTRACTION FAILED: function not found\ndef %s : List String := []\n\n", name)
			return
		}
		var out []string
		if fd.Recv != nil {
			for _, f := range fd.Recv.List {
				out = append(out, "recv "+exprText(p.fset, f.Type))
			}
		}
		for _, f := range fd.Type.Params.List {
			n := len(f.Names)
			if n == 0 {
				n = 1
			}
			for i := 0; i < n; i++ {
				out = append(out, exprText(p.fset, f.Type))
			}
		}
		out = append(out, "->")
		if fd.Type.Results != nil {
			for _, f := range fd.Type.Results.List {
				out = append(out, exprText(p.fset, f.Type))
			}
		}
		fmt.Fprintf(&em.b, "def %s : List String := %s\n\n", name, strList(out))
	}

	specs = append(specs, Spec{Area: "NvramLogic", Pkg: "pkg/uefi", Files: []string{"nvram.go"}, Items: []Item{
		// validity: the attribute bit and the entry types
		{Kind: "nvsig", Name: "NVarAttribute.IsValid"},
		{Kind: "nvstmts", Name: "NVarAttribute.IsValid"},
		{Kind: "nvstmts", Name: "NVar.IsValid"},
		// lazy GUID-table lookup: uint8 arithmetic, Seek distance, fill order
		{Kind: "nvsig", Name: "NVarStore.getGUIDFromStore"},
		{Kind: "goguards", Name: "NVarStore.getGUIDFromStore"},
		{Kind: "gosites", Name: "NVarStore.getGUIDFromStore"},
		{Kind: "nvstmts", Name: "NVarStore.getGUIDFromStore"},
		{Kind: "calls", Name: "NVarStore.getGUIDFromStore", Arg: "r.Seek"},
		// header checks
		{Kind: "goguards", Name: "NVar.parseHeader"},
		{Kind: "nvstmts", Name: "NVar.parseHeader"},
		// link field
		{Kind: "goguards", Name: "NVar.parseNext"},
		{Kind: "nvstmts", Name: "NVar.parseNext"},
		// extended header: size sanity, checksum ranges, time stamp / hash room
		{Kind: "goguards", Name: "NVar.parseExtendedHeader"},
		{Kind: "gosites", Name: "NVar.parseExtendedHeader"},
		{Kind: "nvstmts", Name: "NVar.parseExtendedHeader", Arg: "Checksum|ExtOffset|bodySize|+=|hashstart"},
		{Kind: "const", Name: "NVarEntryExtChecksum"},
		// data-only resolution
		{Kind: "nvstmts", Name: "NVar.parseDataOnly", Arg: "if "},
		// GUID / name: data-offset arithmetic
		{Kind: "nvstmts", Name: "NVar.parseGUID", Arg: "DataOffset"},
		{Kind: "nvstmts", Name: "NVar.parseName", Arg: "DataOffset"},
		// Assemble: link field, size and data-offset checks / updates
		{Kind: "goguards", Name: "NVar.Assemble"},
		{Kind: "nvstmts", Name: "NVar.Assemble", Arg: "Header.Size|DataOffset|Header.Next|Header.Signature"},
		// the store loop: offsets
		{Kind: "nvstmts", Name: "NewNVarStore", Arg: "FreeSpaceOffset|GUIDStoreOffset|Length"},
		// wp-nvfix: when newNVar looks for a nested store (fixes/C10-nested-ext-header.diff: never behind an extended header)
		{Kind: "nvstmts", Name: "newNVar", Arg: "parseContent|NVarEntryExtHeader"},
		{Kind: "nvstmts", Name: "NVarStore.GetGUIDStoreBuf", Arg: "len("},
	}})
	specs = append(specs, Spec{Area: "NvramVisitorsLogic", Pkg: "pkg/visitors", Items: []Item{
		// compaction: which bits come from which entry, the uint8 GUID index, offsets, guards
		{Kind: "nvstmts", Name: "compactNVarStore", Arg: "#.Offset]|.GUID]|uefi.NVar{|.Assemble("},
		{Kind: "nvstmts", Name: "NVRamCompact.Visit"},
		{Kind: "nvstmts", Name: "NVarInvalidate.Visit"},
	}})
}
