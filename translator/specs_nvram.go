package main

// C10: AMI NVAR stores (pkg/uefi/nvram.go, pkg/visitors/nvramcompact.go + assemble.go, pkg/unicode)
func init() {
	specs = append(specs, Spec{Area: "Nvram", Pkg: "pkg/uefi", Items: []Item{
		{Kind: "const", Name: "NVarEntryRuntime"},
		{Kind: "const", Name: "NVarEntryASCIIName"},
		{Kind: "const", Name: "NVarEntryGUID"},
		{Kind: "const", Name: "NVarEntryDataOnly"},
		{Kind: "const", Name: "NVarEntryExtHeader"},
		{Kind: "const", Name: "NVarEntryHWErrorRecord"},
		{Kind: "const", Name: "NVarEntryAuthWrite"},
		{Kind: "const", Name: "NVarEntryValid"},
		{Kind: "const", Name: "NVarEntrySignature"},
		{Kind: "const", Name: "InvalidNVarEntry"},
		{Kind: "const", Name: "InvalidLinkNVarEntry"},
		{Kind: "const", Name: "LinkNVarEntry"},
		{Kind: "const", Name: "DataNVarEntry"},
		{Kind: "const", Name: "FullNVarEntry"},
		{Kind: "const", Name: "NVarEntryExtChecksum"},
		{Kind: "layout", Name: "NVarHeader"},
		// byte order of every binary.Read / binary.Write in the NVAR code
		{Kind: "calls", Name: "NVar.parseHeader", Arg: "binary.Read"},
		{Kind: "calls", Name: "NVar.parseGUID", Arg: "binary.Read"},
		{Kind: "calls", Name: "NVar.parseExtendedHeader", Arg: "binary.Read"},
		{Kind: "calls", Name: "NVarStore.getGUIDFromStore", Arg: "binary.Read"},
		{Kind: "calls", Name: "NVar.Assemble", Arg: "binary.Write"},
		{Kind: "calls", Name: "NVarStore.GetGUIDStoreBuf", Arg: "binary.Write"},
		// the three helpers the model spells out
		{Kind: "calls", Name: "NVar.parseNext", Arg: "Read3Size"},
		{Kind: "calls", Name: "NVar.Assemble", Arg: "Write3Size"},
		{Kind: "calls", Name: "newNVar", Arg: "IsErased"},
	}})
	specs = append(specs, Spec{Area: "NvramVisitors", Pkg: "pkg/visitors", Items: []Item{
		// what compaction copies from the head (h) and from the kept entry (k)
		{Kind: "calls", Name: "compactNVarStore", Arg: "v.Assemble"},
		{Kind: "assigns", Name: "compactNVarStore"},
		{Kind: "assigns", Name: "NVarInvalidate.Visit"},
	}})
	specs = append(specs, Spec{Area: "NvramUnicode", Pkg: "pkg/unicode", Items: []Item{
		{Kind: "calls", Name: "UCS2ToUTF8", Arg: "unicode.UTF16"},
		{Kind: "calls", Name: "UTF8ToUCS2", Arg: "unicode.UTF16"},
	}})
}
