package main

// Self-test of kind `loopfn`:  translator -loopfn-selftest [leanProjectDir]   (also run by `go test`)
//
//  1. every st_* function of selftest_loops_src.go must translate, every bad_* function must be
//     refused with the expected reason;
//  2. (when `lake` and the Lean project are available) the translated definitions are evaluated by
//     Lean on a fixed set of vectors and compared with the results of *executing* the same Go
//     functions on the same vectors — a run-time panic in Go must be `none` in Lean and vice versa.

import (
	_ "embed"
	"fmt"
	"go/ast"
	"go/parser"
	"go/token"
	"os"
	"os/exec"
	"path/filepath"
	"strings"
)

//go:embed selftest_loops_src.go
var stSource string

func init() {
	if len(os.Args) > 1 && os.Args[1] == "-loopfn-selftest" {
		dir := ""
		if len(os.Args) > 2 {
			dir = os.Args[2]
		}
		fails, n := loopfnSelfTest(dir, os.Stdout)
		fmt.Printf("loopfn self-test: %d checks, %d failures\n", n, len(fails))
		for _, f := range fails {
			fmt.Println("  FAIL", f)
		}
		if len(fails) > 0 {
			os.Exit(1)
		}
		os.Exit(0)
	}
}

func stPkg() (*pkgInfo, error) {
	fset := token.NewFileSet()
	f, err := parser.ParseFile(fset, "selftest_loops_src.go", stSource, parser.ParseComments)
	if err != nil {
		return nil, err
	}
	p := &pkgInfo{fset: fset, consts: map[string]int64{}, constOK: map[string]bool{}, types: map[string]ast.Expr{},
		funcs: map[string]*ast.FuncDecl{}, vars: map[string]ast.Expr{}, dir: "translator"}
	p.files = []*ast.File{f}
	for _, d := range f.Decls {
		switch d := d.(type) {
		case *ast.FuncDecl:
			name := d.Name.Name
			if d.Recv != nil && len(d.Recv.List) == 1 {
				t := d.Recv.List[0].Type
				if st, ok := t.(*ast.StarExpr); ok {
					t = st.X
				}
				if id, ok := t.(*ast.Ident); ok {
					name = id.Name + "." + name
				}
			}
			p.funcs[name] = d
		case *ast.GenDecl:
			for _, s := range d.Specs {
				switch s := s.(type) {
				case *ast.TypeSpec:
					p.types[s.Name.Name] = s.Type
				case *ast.ValueSpec:
					for i, n := range s.Names {
						if i < len(s.Values) {
							if d.Tok == token.CONST {
								if v, ok := p.eval(s.Values[i], 0); ok {
									p.consts[n.Name], p.constOK[n.Name] = v, true
								}
							} else {
								p.vars[n.Name] = s.Values[i]
							}
						}
					}
				}
			}
		}
	}
	return p, nil
}

// ---- canonical printing (the format of Lean's `#eval` on Option / tuples / lists / numbers)

func fBytes(b []byte) string {
	var ss []string
	for _, x := range b {
		ss = append(ss, fmt.Sprintf("%d", x))
	}
	return "[" + strings.Join(ss, ", ") + "]"
}
func fBool(b bool) string { return fmt.Sprintf("%v", b) }
func fErr(e error) string { return fBool(e != nil) }
func tup(ss ...string) string {
	if len(ss) == 1 {
		return ss[0]
	}
	return "(" + strings.Join(ss, ", ") + ")"
}

func lBytes(b []byte) string { return "(" + fBytes(b) + " : List UInt8)" }

type stVec struct {
	b []byte
	x uint64
	y int64
}

type stFn struct {
	name string
	arg  string // Item.Arg
	// run executes the Go function (on a copy of v.b) and prints its result canonically
	run func(v stVec) string
	// lean renders the arguments of the Lean definition
	lean func(v stVec) string
}

// cp: a copy whose capacity equals its length (Go lets b[lo:hi] reach up to cap(b); the translation
// treats hi > len(b) as a panic, see GoRt.sliceN)
func cp(b []byte) []byte {
	c := make([]byte, len(b))
	copy(c, b)
	return c[:len(b):len(b)]
}

var stFns = []stFn{
	{"st_sum8", "", func(v stVec) string { return fmt.Sprint(st_sum8(v.b)) }, func(v stVec) string { return lBytes(v.b) }},
	{"st_two", "", func(v stVec) string { return fmt.Sprint(st_two(v.b)) }, func(v stVec) string { return lBytes(v.b) }},
	{"st_sum16le", "", func(v stVec) string { return fmt.Sprint(st_sum16le(v.b)) }, func(v stVec) string { return lBytes(v.b) }},
	{"st_sum32be", "", func(v stVec) string { return fmt.Sprint(st_sum32be(v.b)) }, func(v stVec) string { return lBytes(v.b) }},
	{"st_le64", "", func(v stVec) string { return fmt.Sprint(st_le64(v.b)) }, func(v stVec) string { return lBytes(v.b) }},
	{"st_alleq", "", func(v stVec) string { return fBool(st_alleq(v.b, uint8(v.x))) },
		func(v stVec) string { return fmt.Sprintf("%s (%d : UInt8)", lBytes(v.b), uint8(v.x)) }},
	{"st_index", "", func(v stVec) string { return fmt.Sprint(st_index(v.b, int(v.y))) },
		func(v stVec) string { return fmt.Sprintf("%s (%d : Int)", lBytes(v.b), v.y) }},
	{"st_count", "", func(v stVec) string { return fmt.Sprint(st_count(v.b, uint8(v.x))) },
		func(v stVec) string { return fmt.Sprintf("%s (%d : UInt8)", lBytes(v.b), uint8(v.x)) }},
	{"st_first", "", func(v stVec) string { return fmt.Sprint(st_first(v.b, uint8(v.x))) },
		func(v stVec) string { return fmt.Sprintf("%s (%d : UInt8)", lBytes(v.b), uint8(v.x)) }},
	{"st_fill", "", func(v stVec) string { b := cp(v.b); st_fill(b, uint8(v.x)); return fBytes(b) },
		func(v stVec) string { return fmt.Sprintf("%s (%d : UInt8)", lBytes(v.b), uint8(v.x)) }},
	{"st_rev", "", func(v stVec) string { return fBytes(st_rev(v.b)) }, func(v stVec) string { return lBytes(v.b) }},
	{"st_while", "", func(v stVec) string { return fmt.Sprint(st_while(v.b)) }, func(v stVec) string { return lBytes(v.b) }},
	{"st_nested", "fuel2=blockLen", func(v stVec) string { return fmt.Sprint(st_nested(v.b)) }, func(v stVec) string { return lBytes(v.b) }},
	{"st_reader", "", func(v stVec) string { a, e := st_reader(v.b); return tup(fmt.Sprint(a), fErr(e)) },
		func(v stVec) string { return lBytes(v.b) }},
	{"st_reader2", "", func(v stVec) string { a, c, e := st_reader2(v.b); return tup(fmt.Sprint(a), fmt.Sprint(c), fErr(e)) },
		func(v stVec) string { return lBytes(v.b) }},
	{"st_ptr", "", func(v stVec) string { s := uint32(v.x); n := st_ptr(v.b, &s); return tup(fmt.Sprint(n), fmt.Sprint(s)) },
		func(v stVec) string { return fmt.Sprintf("%s (%d : UInt32)", lBytes(v.b), uint32(v.x)) }},
	{"st_shift", "", func(v stVec) string { return fmt.Sprint(st_shift(uint32(v.x), uint8(v.y))) },
		func(v stVec) string { return fmt.Sprintf("(%d : UInt32) (%d : UInt8)", uint32(v.x), uint8(v.y)) }},
	{"st_intops", "", func(v stVec) string { return fmt.Sprint(st_intops(v.b)) }, func(v stVec) string { return lBytes(v.b) }},
	{"st_conv", "", func(v stVec) string { return fmt.Sprint(st_conv(v.b)) }, func(v stVec) string { return lBytes(v.b) }},
	{"st_elseif", "", func(v stVec) string { a, b := st_elseif(uint32(v.x)); return tup(fmt.Sprint(a), fBool(b)) },
		func(v stVec) string { return fmt.Sprintf("(%d : UInt32)", uint32(v.x)) }},
	{"st_slice", "", func(v stVec) string { return fmt.Sprint(st_slice(v.b, uint32(v.x), int(v.y))) },
		func(v stVec) string { return fmt.Sprintf("%s (%d : UInt32) (%d : Int)", lBytes(v.b), uint32(v.x), v.y) }},
	{"st_short", "", func(v stVec) string { return fBool(st_short(v.b)) }, func(v stVec) string { return lBytes(v.b) }},
	{"st_partial", "", func(v stVec) string { return fmt.Sprint(st_partial(v.b)) }, func(v stVec) string { return lBytes(v.b) }},
	{"st_calls", "", func(v stVec) string { return fmt.Sprint(st_calls(v.b, uint8(v.x))) },
		func(v stVec) string { return fmt.Sprintf("%s (%d : UInt8)", lBytes(v.b), uint8(v.x)) }},
	{"st_shadow", "", func(v stVec) string { return fmt.Sprint(st_shadow(v.b)) }, func(v stVec) string { return lBytes(v.b) }},
	{"st_tuple", "", func(v stVec) string { return fmt.Sprint(st_tuple(uint8(v.x))) },
		func(v stVec) string { return fmt.Sprintf("(%d : UInt8)", uint8(v.x)) }},
	{"st_errargs", "", func(v stVec) string { return fErr(st_errargs(v.b, int(v.y))) },
		func(v stVec) string { return fmt.Sprintf("%s (%d : Int)", lBytes(v.b), v.y) }},
	{"st_sig", "", func(v stVec) string { return fmt.Sprint(st_sig(v.b)) }, func(v stVec) string { return lBytes(v.b) }},
	{"st_brk", "", func(v stVec) string { a, n := st_brk(v.b); return tup(fmt.Sprint(a), fmt.Sprint(n)) },
		func(v stVec) string { return lBytes(v.b) }},
	{"st_live", "", func(v stVec) string { b := cp(v.b); s := st_live(b); return tup(fmt.Sprint(s), fBytes(b)) },
		func(v stVec) string { return lBytes(v.b) }},
	{"st_nvar", "", func(v stVec) string { return fmt.Sprint(st_nvar(v.b, uint16(v.x))) },
		func(v stVec) string { return fmt.Sprintf("%s (%d : UInt16)", lBytes(v.b), uint16(v.x)) }},
	{"st_panic", "", func(v stVec) string { return fmt.Sprint(st_panic(v.b)) }, func(v stVec) string { return lBytes(v.b) }},
	{"stAttr.Align", "", func(v stVec) string { return fmt.Sprint(stAttr(v.x).Align()) },
		func(v stVec) string { return fmt.Sprintf("(%d : UInt8)", uint8(v.x)) }},
	{"stAttr.SetLow", "", func(v stVec) string { a := stAttr(v.x); a.SetLow(v.y&1 == 1); return fmt.Sprint(uint8(a)) },
		func(v stVec) string { return fmt.Sprintf("(%d : UInt8) %v", uint8(v.x), v.y&1 == 1) }},
	{"stAttr.SetType", "", func(v stVec) string { a := stAttr(v.x); a.SetType(uint8(v.y * 9)); return fmt.Sprint(uint8(a)) },
		func(v stVec) string { return fmt.Sprintf("(%d : UInt8) (%d : UInt8)", uint8(v.x), uint8(v.y*9)) }},
	{"st_struct", "", func(v stVec) string { r := st_struct(v.b); return tup(fmt.Sprint(r.Lo), fmt.Sprint(r.Hi), fBool(r.Ok)) },
		func(v stVec) string { return lBytes(v.b) }},
	{"st_find", "", func(v stVec) string { a, e := st_find(v.b); return tup(fmt.Sprint(a), fErr(e)) },
		func(v stVec) string { return lBytes(v.b) }},
	{"st_coords", "", func(v stVec) string { a, b := st_coords(v.x << uint(v.y&31)); return tup(fmt.Sprint(a), fmt.Sprint(b)) },
		func(v stVec) string { return fmt.Sprintf("(%d : UInt64)", v.x<<uint(v.y&31)) }},
	{"st_ms", "", func(v stVec) string { return fBool(st_ms(uint8(v.x))) },
		func(v stVec) string { return fmt.Sprintf("(%d : UInt8)", uint8(v.x)) }},
	{"st_x86", "fuel1=len(data)+1", func(v stVec) string {
		b := cp(v.b)
		s := uint32(v.x)
		n := st_x86(b, uint(len(b)), uint32(v.y), &s, v.y&1 == 0)
		return tup(fmt.Sprint(n), fBytes(b), fmt.Sprint(s))
	}, func(v stVec) string {
		return fmt.Sprintf("%s (%d : UInt64) (%d : UInt32) (%d : UInt32) %v", lBytes(v.b), len(v.b), uint32(v.y), uint32(v.x), v.y&1 == 0)
	}},
}

var stBad = []struct{ name, arg, reason string }{
	{"bad_append", "", "unsupported call append"},
	{"bad_keyassign", "", "range index i is assigned"},
	{"bad_divvar", "", "division by something that is not a non-zero constant"},
	{"bad_nofuel", "", "needs a fuel expression"},
	{"bad_alias", "", "may alias"},
	{"bad_label", "", "unsupported"},
	{"bad_shiftint", "", "shift with a variable count"},
	{"bad_closure", "", "unsupported"},
	{"bad_string", "", "result type outside the subset"},
	{"bad_reslice", "", "re-assigned inside its loop"},
	{"bad_never", "", "never ends"},
}

func stVectors() []stVec {
	bs := [][]byte{
		{}, {0}, {1}, {0xff}, {1, 2}, {0xff, 0xff}, {3, 0, 7}, {0x5a, 0xa5, 0xf0, 0x0f}, {1, 1, 1, 1, 1},
		{0xe8, 0, 0, 0, 0, 0xe9, 0xff, 0xff, 0xff, 0xff, 1}, {9, 8, 7, 6, 5, 4, 3, 2, 1, 0, 0xff, 0xfe},
		{0x61, 0x62, 0x5a, 0xa5, 0xf0, 0x0f, 0, 0}, {0, 0, 0xe8, 0xe8, 0xe8, 0, 0, 0, 0xff, 0xe9, 0, 0, 1, 0xff, 2, 3, 4},
		{2, 1, 0, 1, 2, 3, 200, 100, 50, 1, 1, 0, 2, 2, 1, 7},
	}
	long := make([]byte, 41)
	for i := range long {
		long[i] = byte(i*37 + 11)
	}
	bs = append(bs, long)
	jumps := make([]byte, 64)
	for i := range jumps {
		jumps[i] = byte(i * 53)
		if i%7 == 0 {
			jumps[i] = 0xe8
		}
		if i%7 == 4 {
			jumps[i] = byte(0xff * (i % 2))
		}
	}
	bs = append(bs, jumps)
	xs := []uint64{0, 1, 2, 7, 0xff, 0x100, 0xffffffff, 0x80000001}
	ys := []int64{0, 1, 2, 3, 4, 5, 31, 32, 33, -1, 200}
	var out []stVec
	k := 0
	for _, b := range bs {
		for j := 0; j < 6; j++ {
			out = append(out, stVec{b, xs[(k+j)%len(xs)], ys[(k*3+j*5)%len(ys)]})
		}
		k++
	}
	return out
}

func runGo(f stFn, v stVec, opt bool) (res string) {
	defer func() {
		if r := recover(); r != nil {
			res = "none"
		}
	}()
	s := f.run(stVec{cp(v.b), v.x, v.y})
	if opt {
		if strings.ContainsAny(s, " ") && !strings.HasPrefix(s, "(") && !strings.HasPrefix(s, "[") || strings.HasPrefix(s, "-") {
			return "some (" + s + ")"
		}
		return "some " + s
	}
	return s
}

func loopfnSelfTest(leanDir string, log *os.File) (fails []string, checks int) {
	p, err := stPkg()
	if err != nil {
		return []string{"self-test source does not parse: " + err.Error()}, 1
	}
	known := map[string]*fnSig{}
	var lean strings.Builder
	lean.WriteString("import FianoModel.CodeTie.GoRt\nset_option linter.unusedVariables false\nnamespace Fiano.Gen.SelfTest\n\n")
	sigs := map[string]*fnSig{}
	// st_ms first (callee of st_x86), then table order
	order := append([]stFn{}, stFns...)
	for i, f := range order {
		if f.name == "st_ms" {
			order = append([]stFn{f}, append(order[:i:i], order[i+1:]...)...)
			break
		}
	}
	for _, f := range order {
		checks++
		text, sig, err := translateLoopFn(p, Item{Kind: "loopfn", Name: f.name, Arg: f.arg}, known)
		if err != nil {
			fails = append(fails, f.name+": does not translate: "+err.Error())
			continue
		}
		known[f.name] = sig
		sigs[f.name] = sig
		lean.WriteString(text + "\n")
	}
	for _, b := range stBad {
		checks++
		_, _, err := translateLoopFn(p, Item{Kind: "loopfn", Name: b.name, Arg: b.arg}, known)
		if err == nil {
			fails = append(fails, b.name+": was translated but must be refused")
		} else if !strings.Contains(err.Error(), b.reason) {
			fails = append(fails, fmt.Sprintf("%s: refused for an unexpected reason: %v (want %q)", b.name, err, b.reason))
		}
	}
	// determinism: translating twice gives the same text
	checks++
	known2 := map[string]*fnSig{}
	var again strings.Builder
	for _, f := range order {
		if t, s, err := translateLoopFn(p, Item{Kind: "loopfn", Name: f.name, Arg: f.arg}, known2); err == nil {
			known2[f.name] = s
			again.WriteString(t + "\n")
		}
	}
	if !strings.HasSuffix(lean.String(), again.String()) {
		fails = append(fails, "translation is not deterministic")
	}
	if leanDir == "" {
		return
	}
	if _, err := exec.LookPath("lake"); err != nil {
		fmt.Fprintln(log, "lake not found: semantic part skipped")
		return
	}
	// semantic part
	vecs := stVectors()
	type exp struct{ fn, args, want string }
	var exps []exp
	for _, f := range stFns {
		sig := sigs[f.name]
		if sig == nil {
			continue
		}
		for _, v := range vecs {
			exps = append(exps, exp{f.name, f.lean(v), runGo(f, v, sig.opt)})
		}
	}
	for i, e := range exps {
		fmt.Fprintf(&lean, "#eval IO.println s!\"R%d {toString (fn_%s %s)}\"\n", i, leanName(e.fn), e.args)
	}
	lean.WriteString("\nend Fiano.Gen.SelfTest\n")
	tmp, err := os.MkdirTemp("", "loopfn-selftest-")
	if err != nil {
		return append(fails, err.Error()), checks
	}
	defer os.RemoveAll(tmp)
	path := filepath.Join(tmp, "SelfTest.lean")
	os.WriteFile(path, []byte(lean.String()), 0o644)
	if keep := os.Getenv("LOOPFN_SELFTEST_KEEP"); keep != "" {
		os.WriteFile(keep, []byte(lean.String()), 0o644)
	}
	cmd := exec.Command("lake", "build", "FianoModel.CodeTie.GoRt")
	cmd.Dir = leanDir
	if out, err := cmd.CombinedOutput(); err != nil {
		return append(fails, "lake build GoRt: "+string(out)), checks
	}
	cmd = exec.Command("lake", "env", "lean", path)
	cmd.Dir = leanDir
	out, err := cmd.CombinedOutput()
	got := map[int]string{}
	nerr := 0
	for _, l := range strings.Split(string(out), "\n") {
		if strings.HasPrefix(l, "R") {
			var i int
			if _, e := fmt.Sscanf(l, "R%d ", &i); e == nil {
				got[i] = strings.TrimSpace(l[strings.Index(l, " ")+1:])
			}
		} else if strings.Contains(l, "error") && !strings.Contains(l, "Aborting evaluation") {
			if nerr++; nerr <= 5 {
				fails = append(fails, "lean: "+l)
			}
		}
	}
	if err != nil && len(got) == 0 {
		return append(fails, "lean failed: "+string(out)), checks
	}
	nfail := 0
	for i, e := range exps {
		checks++
		g := strings.ReplaceAll(got[i], "\n", " ")
		if norm(g) != norm(e.want) {
			nfail++
			if nfail <= 12 {
				fails = append(fails, fmt.Sprintf("fn_%s %.80s: Go = %.80s, Lean = %.80s", e.fn, e.args, e.want, g))
			}
		}
	}
	if nfail > 12 {
		fails = append(fails, fmt.Sprintf("… and %d more value mismatches", nfail-12))
	}
	return
}

// norm: Lean's Repr puts no parentheses where Go's helper does and vice versa
func norm(s string) string {
	s = strings.ReplaceAll(s, "Fiano.GoRt.Exit.", "")
	r := strings.NewReplacer("(", "", ")", "", " ", "")
	return r.Replace(s)
}
