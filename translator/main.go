// translator: reads the anchored Go sources of /repo (go/parser only, no type checker, works
// offline) and regenerates lean/FianoModel/Gen/<Area>.lean — constants, byte-string variables,
// lookup tables, packed struct layouts and per-function site inventories (call sites,
// allocation / slice / index expressions, assignments).  The Lean model and the Tie theorems
// import these files, so every `lake build` re-checks them against what the code says now.
//
// usage: translator -repo /repo -out /verif/lean/FianoModel/Gen
//
// An item that can no longer be extracted (the source stopped matching the pattern) is
// emitted with an empty value and listed in Gen/report.json — the check of the property
// that uses it then treats tie T1 as broken.
package main

import (
	"bytes"
	"encoding/json"
	"flag"
	"fmt"
	"go/ast"
	"go/parser"
	"go/printer"
	"go/token"
	"os"
	"path/filepath"
	"sort"
	"strconv"
	"strings"
)

type Item struct {
	Kind string // const | bytesvar | layout | calls | sites | assigns | inttable | exprfn
	Name string // identifier (const/var/type) or function name ("Recv.Method" for methods)
	Arg  string // calls: callee selector text, e.g. "binary.Read"
	As   string // optional Lean name override
}

type Spec struct {
	Area  string
	Pkg   string // directory relative to the repo root
	Files []string // optional: restrict to these files (default: all non-test files)
	Items []Item
}

type pkgInfo struct {
	fset  *token.FileSet
	files []*ast.File
	consts map[string]int64   // evaluated integer constants
	constOK map[string]bool
	types map[string]ast.Expr  // named type -> underlying expr
	funcs map[string]*ast.FuncDecl
	vars  map[string]ast.Expr  // package-level var initialisers
	dir   string
}

var repoRoot string
var pkgCache = map[string]*pkgInfo{}

func loadPkg(rel string) (*pkgInfo, error) {
	if p, ok := pkgCache[rel]; ok {
		return p, nil
	}
	dir := filepath.Join(repoRoot, rel)
	fset := token.NewFileSet()
	ents, err := os.ReadDir(dir)
	if err != nil {
		return nil, err
	}
	p := &pkgInfo{fset: fset, consts: map[string]int64{}, constOK: map[string]bool{}, types: map[string]ast.Expr{},
		funcs: map[string]*ast.FuncDecl{}, vars: map[string]ast.Expr{}, dir: rel}
	for _, e := range ents {
		n := e.Name()
		if e.IsDir() || !strings.HasSuffix(n, ".go") || strings.HasSuffix(n, "_test.go") {
			continue
		}
		src, err := os.ReadFile(filepath.Join(dir, n))
		if err != nil {
			return nil, err
		}
		// skip files that are excluded by build constraints we never set, except our own tag
		if bytes.Contains(src, []byte("//go:build ignore")) {
			continue
		}
		f, err := parser.ParseFile(fset, filepath.Join(dir, n), src, parser.ParseComments)
		if err != nil {
			return nil, err
		}
		p.files = append(p.files, f)
	}
	// collect declarations
	type pending struct {
		name string
		expr ast.Expr
		iota int64
	}
	var pend []pending
	for _, f := range p.files {
		for _, d := range f.Decls {
			switch d := d.(type) {
			case *ast.FuncDecl:
				name := d.Name.Name
				if d.Recv != nil && len(d.Recv.List) == 1 {
					t := d.Recv.List[0].Type
					if s, ok := t.(*ast.StarExpr); ok {
						t = s.X
					}
					if id, ok := t.(*ast.Ident); ok {
						name = id.Name + "." + name
					} else if ix, ok := t.(*ast.IndexExpr); ok {
						if id, ok := ix.X.(*ast.Ident); ok {
							name = id.Name + "." + name
						}
					}
				}
				p.funcs[name] = d
			case *ast.GenDecl:
				switch d.Tok {
				case token.TYPE:
					for _, s := range d.Specs {
						ts := s.(*ast.TypeSpec)
						p.types[ts.Name.Name] = ts.Type
					}
				case token.VAR:
					for _, s := range d.Specs {
						vs := s.(*ast.ValueSpec)
						for i, n := range vs.Names {
							if i < len(vs.Values) {
								p.vars[n.Name] = vs.Values[i]
							}
						}
					}
				case token.CONST:
					var last []ast.Expr
					for i, s := range d.Specs {
						vs := s.(*ast.ValueSpec)
						vals := vs.Values
						if len(vals) == 0 {
							vals = last
						} else {
							last = vals
						}
						for j, n := range vs.Names {
							if j < len(vals) {
								pend = append(pend, pending{n.Name, vals[j], int64(i)})
							}
						}
					}
				}
			}
		}
	}
	// evaluate constants to a fixed point
	for round := 0; round < 20; round++ {
		progress := false
		for _, c := range pend {
			if p.constOK[c.name] {
				continue
			}
			if v, ok := p.eval(c.expr, c.iota); ok {
				p.consts[c.name] = v
				p.constOK[c.name] = true
				progress = true
			}
		}
		if !progress {
			break
		}
	}
	pkgCache[rel] = p
	return p, nil
}

func (p *pkgInfo) eval(e ast.Expr, iota int64) (int64, bool) {
	switch e := e.(type) {
	case *ast.BasicLit:
		switch e.Kind {
		case token.INT:
			v, err := strconv.ParseInt(strings.ReplaceAll(e.Value, "_", ""), 0, 64)
			if err != nil {
				u, err2 := strconv.ParseUint(strings.ReplaceAll(e.Value, "_", ""), 0, 64)
				if err2 != nil {
					return 0, false
				}
				return int64(u), true
			}
			return v, true
		case token.CHAR:
			s, err := strconv.Unquote(e.Value)
			if err != nil || len(s) == 0 {
				return 0, false
			}
			return int64([]rune(s)[0]), true
		}
		return 0, false
	case *ast.Ident:
		if e.Name == "iota" {
			return iota, true
		}
		if p.constOK[e.Name] {
			return p.consts[e.Name], true
		}
		return 0, false
	case *ast.ParenExpr:
		return p.eval(e.X, iota)
	case *ast.CallExpr: // conversions like uint32(x), T(x)
		if len(e.Args) == 1 {
			if id, ok := e.Fun.(*ast.Ident); ok {
				if id.Name == "len" {
					if lit, ok := e.Args[0].(*ast.BasicLit); ok && lit.Kind == token.STRING {
						s, err := strconv.Unquote(lit.Value)
						if err == nil {
							return int64(len(s)), true
						}
					}
					return 0, false
				}
				_ = id
				return p.eval(e.Args[0], iota)
			}
			if _, ok := e.Fun.(*ast.SelectorExpr); ok {
				return p.eval(e.Args[0], iota)
			}
		}
		return 0, false
	case *ast.UnaryExpr:
		v, ok := p.eval(e.X, iota)
		if !ok {
			return 0, false
		}
		switch e.Op {
		case token.SUB:
			return -v, true
		case token.XOR:
			return ^v, true
		case token.ADD:
			return v, true
		}
		return 0, false
	case *ast.BinaryExpr:
		a, ok1 := p.eval(e.X, iota)
		b, ok2 := p.eval(e.Y, iota)
		if !ok1 || !ok2 {
			return 0, false
		}
		switch e.Op {
		case token.ADD:
			return a + b, true
		case token.SUB:
			return a - b, true
		case token.MUL:
			return a * b, true
		case token.QUO:
			if b == 0 {
				return 0, false
			}
			return a / b, true
		case token.REM:
			if b == 0 {
				return 0, false
			}
			return a % b, true
		case token.SHL:
			return a << uint(b), true
		case token.SHR:
			return a >> uint(b), true
		case token.AND:
			return a & b, true
		case token.OR:
			return a | b, true
		case token.XOR:
			return a ^ b, true
		case token.AND_NOT:
			return a &^ b, true
		}
	}
	return 0, false
}

var basicSize = map[string]int{"uint8": 1, "int8": 1, "byte": 1, "bool": 1, "uint16": 2, "int16": 2,
	"uint32": 4, "int32": 4, "uint64": 8, "int64": 8, "float32": 4, "float64": 8}

// importPath -> repo-relative dir for fiano-internal imports
func (p *pkgInfo) importDir(file *ast.File, alias string) string {
	for _, im := range file.Imports {
		path, _ := strconv.Unquote(im.Path.Value)
		name := filepath.Base(path)
		if im.Name != nil {
			name = im.Name.Name
		}
		if name == alias && strings.HasPrefix(path, "github.com/linuxboot/fiano/") {
			return strings.TrimPrefix(path, "github.com/linuxboot/fiano/")
		}
	}
	return ""
}

// sizeOf returns the encoding/binary size of a type expression (packed), or -1.
func (p *pkgInfo) sizeOf(e ast.Expr, depth int) int {
	if depth > 20 {
		return -1
	}
	switch e := e.(type) {
	case *ast.Ident:
		if s, ok := basicSize[e.Name]; ok {
			return s
		}
		if t, ok := p.types[e.Name]; ok {
			return p.sizeOf(t, depth+1)
		}
		return -1
	case *ast.ArrayType:
		if e.Len == nil {
			return -1
		}
		n, ok := p.eval(e.Len, 0)
		if !ok {
			return -1
		}
		s := p.sizeOf(e.Elt, depth+1)
		if s < 0 {
			return -1
		}
		return int(n) * s
	case *ast.StructType:
		tot := 0
		for _, f := range e.Fields.List {
			s := p.sizeOf(f.Type, depth+1)
			if s < 0 {
				return -1
			}
			k := len(f.Names)
			if k == 0 {
				k = 1
			}
			tot += k * s
		}
		return tot
	case *ast.SelectorExpr:
		if x, ok := e.X.(*ast.Ident); ok {
			for _, f := range p.files {
				if dir := p.importDir(f, x.Name); dir != "" {
					q, err := loadPkg(dir)
					if err != nil {
						return -1
					}
					if t, ok := q.types[e.Sel.Name]; ok {
						return q.sizeOf(t, depth+1)
					}
				}
			}
		}
		return -1
	}
	return -1
}

func exprText(fset *token.FileSet, n ast.Node) string {
	var b bytes.Buffer
	printer.Fprint(&b, fset, n)
	s := b.String()
	s = strings.Join(strings.Fields(s), " ")
	return s
}

func leanStr(s string) string {
	s = strings.ReplaceAll(s, "\\", "\\\\")
	s = strings.ReplaceAll(s, "\"", "\\\"")
	return "\"" + s + "\""
}

func leanName(s string) string {
	r := strings.NewReplacer(".", "_", "*", "", "[", "_", "]", "_", " ", "_")
	return r.Replace(s)
}

type emitter struct {
	b      bytes.Buffer
	failed []string
	known  map[string]string
	params map[string][]string
}

func (em *emitter) fail(it Item, typ, zero, why string) {
	em.failed = append(em.failed, it.Kind+":"+it.Name+" ("+why+")")
	fmt.Fprintf(&em.b, "-- EXTRACTION FAILED: %s\ndef %s : %s := %s\n\n", why, em.name(it), typ, zero)
}

func (em *emitter) name(it Item) string {
	if it.As != "" {
		return it.As
	}
	switch it.Kind {
	case "layout":
		return "layout_" + leanName(it.Name)
	case "calls":
		return "calls_" + leanName(it.Name) + "_" + leanName(it.Arg)
	case "sites":
		return "sites_" + leanName(it.Name)
	case "assigns":
		return "assigns_" + leanName(it.Name)
	case "exprfn":
		return "fn_" + leanName(it.Name)
	}
	return leanName(it.Name)
}

func natList(xs []int64) string {
	var ss []string
	for _, x := range xs {
		ss = append(ss, strconv.FormatInt(x, 10))
	}
	return "[" + strings.Join(ss, ", ") + "]"
}

func strList(xs []string) string {
	var ss []string
	for _, x := range xs {
		ss = append(ss, leanStr(x))
	}
	if len(ss) == 0 {
		return "[]"
	}
	return "[\n  " + strings.Join(ss, ",\n  ") + "]"
}

func (em *emitter) emit(p *pkgInfo, it Item) {
	switch it.Kind {
	case "exprfn":
		if em.known == nil {
			em.known, em.params = map[string]string{}, map[string][]string{}
		}
		em.emitExprFn(p, it, em.known, em.params)
	case "const":
		if !p.constOK[it.Name] {
			em.fail(it, "Int", "0", "constant not found or not foldable")
			return
		}
		v := p.consts[it.Name]
		if v < 0 {
			fmt.Fprintf(&em.b, "def %s : Int := %d\n\n", em.name(it), v)
		} else {
			fmt.Fprintf(&em.b, "def %s : Nat := %d\n\n", em.name(it), v)
		}
	case "bytesvar":
		// var X = []byte("...") | []byte{...} | [N]byte{...} | "string"
		e, ok := p.vars[it.Name]
		if !ok {
			em.fail(it, "List Nat", "[]", "variable not found")
			return
		}
		bs, ok := p.bytesOf(e)
		if !ok {
			em.fail(it, "List Nat", "[]", "initialiser is not a byte-string literal")
			return
		}
		fmt.Fprintf(&em.b, "def %s : List Nat := %s\n\n", em.name(it), natList(bs))
	case "strconst":
		// const X = "..." -> List Nat (the bytes of the string)
		for _, f := range p.files {
			for _, d := range f.Decls {
				gd, ok := d.(*ast.GenDecl)
				if !ok || gd.Tok != token.CONST {
					continue
				}
				for _, s := range gd.Specs {
					vs := s.(*ast.ValueSpec)
					for i, n := range vs.Names {
						if n.Name == it.Name && i < len(vs.Values) {
							if bs, ok := p.bytesOf(vs.Values[i]); ok {
								fmt.Fprintf(&em.b, "def %s : List Nat := %s\n\n", em.name(it), natList(bs))
								return
							}
						}
					}
				}
			}
		}
		em.fail(it, "List Nat", "[]", "string constant not found")
	case "varexpr":
		// var X = <expr> -> the normalised source text of the initialiser
		e, ok := p.vars[it.Name]
		if !ok {
			em.fail(it, "String", "\"\"", "variable not found")
			return
		}
		fmt.Fprintf(&em.b, "def %s : String := %s\n\n", em.name(it), leanStr(exprText(p.fset, e)))
	case "inttable":
		// var X = []T{a, b, c} or map[K]V{k: v} with foldable ints -> List Nat / List (Nat × Nat)
		e, ok := p.vars[it.Name]
		if !ok {
			em.fail(it, "List Nat", "[]", "variable not found")
			return
		}
		cl, ok := e.(*ast.CompositeLit)
		if !ok {
			em.fail(it, "List Nat", "[]", "not a composite literal")
			return
		}
		isMap := false
		var keys, vals []int64
		for _, el := range cl.Elts {
			if kv, ok := el.(*ast.KeyValueExpr); ok {
				isMap = true
				k, ok1 := p.eval(kv.Key, 0)
				v, ok2 := p.eval(kv.Value, 0)
				if !ok1 || !ok2 {
					em.fail(it, "List (Nat × Nat)", "[]", "entry not foldable")
					return
				}
				keys = append(keys, k)
				vals = append(vals, v)
			} else {
				v, ok := p.eval(el, 0)
				if !ok {
					em.fail(it, "List Nat", "[]", "entry not foldable")
					return
				}
				vals = append(vals, v)
			}
		}
		if isMap {
			var ss []string
			for i := range keys {
				ss = append(ss, fmt.Sprintf("(%d, %d)", keys[i], vals[i]))
			}
			sort.Strings(ss)
			fmt.Fprintf(&em.b, "def %s : List (Nat × Nat) := [%s]\n\n", em.name(it), strings.Join(ss, ", "))
		} else {
			fmt.Fprintf(&em.b, "def %s : List Nat := %s\n\n", em.name(it), natList(vals))
		}
	case "layout":
		t, ok := p.types[it.Name]
		if !ok {
			em.fail(it, "List (String × Nat)", "[]", "type not found")
			return
		}
		st, ok := t.(*ast.StructType)
		if !ok {
			em.fail(it, "List (String × Nat)", "[]", "not a struct")
			return
		}
		var ss []string
		tot := 0
		for _, f := range st.Fields.List {
			s := p.sizeOf(f.Type, 0)
			if s < 0 {
				em.fail(it, "List (String × Nat)", "[]", "field of non-fixed size: "+exprText(p.fset, f.Type))
				return
			}
			names := f.Names
			if len(names) == 0 { // embedded
				ss = append(ss, fmt.Sprintf("(%s, %d)", leanStr(exprText(p.fset, f.Type)), s))
				tot += s
				continue
			}
			for _, n := range names {
				ss = append(ss, fmt.Sprintf("(%s, %d)", leanStr(n.Name), s))
				tot += s
			}
		}
		fmt.Fprintf(&em.b, "def %s : List (String × Nat) := [%s]\n", em.name(it), strings.Join(ss, ", "))
		fmt.Fprintf(&em.b, "def size_%s : Nat := %d\n\n", leanName(it.Name), tot)
	case "calls", "sites", "assigns":
		fd, ok := p.funcs[it.Name]
		if !ok || fd.Body == nil {
			em.fail(it, "List String", "[]", "function not found")
			return
		}
		var out []string
		ast.Inspect(fd.Body, func(n ast.Node) bool {
			switch it.Kind {
			case "calls":
				if c, ok := n.(*ast.CallExpr); ok && exprText(p.fset, c.Fun) == it.Arg {
					out = append(out, exprText(p.fset, c))
				}
			case "sites":
				switch x := n.(type) {
				case *ast.CallExpr:
					if id, ok := x.Fun.(*ast.Ident); ok && id.Name == "make" {
						out = append(out, exprText(p.fset, x))
					}
				case *ast.SliceExpr:
					out = append(out, exprText(p.fset, x))
				case *ast.IndexExpr:
					out = append(out, exprText(p.fset, x))
				}
			case "assigns":
				if a, ok := n.(*ast.AssignStmt); ok && a.Tok != token.DEFINE {
					for _, l := range a.Lhs {
						switch l.(type) {
						case *ast.SelectorExpr, *ast.IndexExpr, *ast.StarExpr:
							out = append(out, exprText(p.fset, l))
						}
					}
				}
			}
			return true
		})
		fmt.Fprintf(&em.b, "def %s : List String := %s\n\n", em.name(it), strList(out))
	default:
		if h, ok := extraKinds[it.Kind]; ok { // kinds registered by specs_*.go files
			h(em, p, it)
			return
		}
		em.fail(it, "Nat", "0", "unknown item kind")
	}
}

func (p *pkgInfo) bytesOf(e ast.Expr) ([]int64, bool) {
	switch e := e.(type) {
	case *ast.BasicLit:
		if e.Kind == token.STRING {
			s, err := strconv.Unquote(e.Value)
			if err != nil {
				return nil, false
			}
			var out []int64
			for _, c := range []byte(s) {
				out = append(out, int64(c))
			}
			return out, true
		}
	case *ast.CallExpr: // []byte("...")
		if len(e.Args) == 1 {
			return p.bytesOf(e.Args[0])
		}
	case *ast.CompositeLit:
		var out []int64
		for _, el := range e.Elts {
			v, ok := p.eval(el, 0)
			if !ok {
				return nil, false
			}
			out = append(out, v&0xff)
		}
		return out, true
	}
	return nil, false
}

func main() {
	repo := flag.String("repo", "/repo", "repository root")
	out := flag.String("out", "", "output directory (lean/FianoModel/Gen)")
	flag.Parse()
	repoRoot = *repo
	if *out == "" {
		fmt.Fprintln(os.Stderr, "need -out")
		os.Exit(2)
	}
	os.MkdirAll(*out, 0o755)
	report := map[string][]string{}
	for _, sp := range specs {
		em := &emitter{}
		fmt.Fprintf(&em.b, "-- GENERATED by /verif/translator from %s — do not edit; regenerated on every check\n", sp.Pkg)
		fmt.Fprintf(&em.b, "namespace Fiano.Gen.%s\n\n", sp.Area)
		p, err := loadPkg(sp.Pkg)
		if err != nil {
			for _, it := range sp.Items {
				typ, zero := "Nat", "0"
				switch it.Kind {
				case "bytesvar", "inttable", "strconst":
					typ, zero = "List Nat", "[]"
				case "varexpr":
					typ, zero = "String", "\"\""
				case "layout":
					typ, zero = "List (String × Nat)", "[]"
				case "calls", "sites", "assigns":
					typ, zero = "List String", "[]"
				}
				em.fail(it, typ, zero, "package does not parse: "+err.Error())
			}
		} else {
			for _, it := range sp.Items {
				em.emit(p, it)
			}
		}
		fmt.Fprintf(&em.b, "end Fiano.Gen.%s\n", sp.Area)
		report[sp.Area] = em.failed
		if report[sp.Area] == nil {
			report[sp.Area] = []string{}
		}
		path := filepath.Join(*out, sp.Area+".lean")
		old, _ := os.ReadFile(path)
		if !bytes.Equal(old, em.b.Bytes()) { // content-stable: keep Lake's cache warm
			if err := os.WriteFile(path, em.b.Bytes(), 0o644); err != nil {
				fmt.Fprintln(os.Stderr, err)
				os.Exit(1)
			}
		}
	}
	rb, _ := json.MarshalIndent(report, "", " ")
	os.WriteFile(filepath.Join(*out, "report.json"), rb, 0o644)
}
