package main

// Facts regenerated for property C04 (lean/FianoModel/Uefi/TieC04.lean): the *shape* of the parser
// constructors of pkg/uefi — which kinds of sub-slices they take, which comparisons they make, how
// often they align — independent of identifier names and of statement order (every list is sorted),
// so that a rename or a reordering of independent statements is not an alarm while a dropped clip
// (`data[:fv.Length]`), a changed comparison operator or a dropped alignment step is.
//
//   sliceshapes  func F: every slice expression x[l:h]  -> "[l:h]" | "[l:]" | "[:h]" | "[:]", sorted
//   cmpops       func F: every comparison not against nil -> "<op>" or "<op> <int literal>", sorted
//   callcount    func F, Arg G: number of calls of G (plain or selector name) inside F

import (
	"fmt"
	"go/ast"
	"go/token"
	"sort"
)

func init() {
	extraKinds["sliceshapes"] = func(em *emitter, p *pkgInfo, it Item) {
		fd, ok := p.funcs[it.Name]
		if !ok || fd.Body == nil {
			em.fail(it, "List String", "[]", "function not found")
			return
		}
		var out []string
		ast.Inspect(fd.Body, func(n ast.Node) bool {
			if s, ok := n.(*ast.SliceExpr); ok {
				sh := "["
				if s.Low != nil {
					sh += "l"
				}
				sh += ":"
				if s.High != nil {
					sh += "h"
				}
				out = append(out, sh+"]")
			}
			return true
		})
		sort.Strings(out)
		fmt.Fprintf(&em.b, "def sliceshapes_%s : List String := %s\n\n", leanName(it.Name), strList(out))
	}
	extraKinds["cmpops"] = func(em *emitter, p *pkgInfo, it Item) {
		fd, ok := p.funcs[it.Name]
		if !ok || fd.Body == nil {
			em.fail(it, "List String", "[]", "function not found")
			return
		}
		var out []string
		ast.Inspect(fd.Body, func(n ast.Node) bool {
			b, ok := n.(*ast.BinaryExpr)
			if !ok {
				return true
			}
			switch b.Op {
			case token.LSS, token.LEQ, token.GTR, token.GEQ, token.EQL, token.NEQ:
			default:
				return true
			}
			isNil := func(e ast.Expr) bool { id, ok := e.(*ast.Ident); return ok && id.Name == "nil" }
			if isNil(b.X) || isNil(b.Y) {
				return true // error / pointer checks are not part of the shape
			}
			s := b.Op.String()
			if lit, ok := b.Y.(*ast.BasicLit); ok && lit.Kind == token.INT {
				if v, ok := p.eval(lit, 0); ok {
					s += fmt.Sprintf(" %d", uint64(v))
				}
			}
			out = append(out, s)
			return true
		})
		sort.Strings(out)
		fmt.Fprintf(&em.b, "def cmpops_%s : List String := %s\n\n", leanName(it.Name), strList(out))
	}
	extraKinds["callcount"] = func(em *emitter, p *pkgInfo, it Item) {
		fd, ok := p.funcs[it.Name]
		if !ok || fd.Body == nil {
			em.fail(it, "Nat", "0", "function not found")
			return
		}
		n := 0
		ast.Inspect(fd.Body, func(x ast.Node) bool {
			if c, ok := x.(*ast.CallExpr); ok {
				switch f := c.Fun.(type) {
				case *ast.Ident:
					if f.Name == it.Arg {
						n++
					}
				case *ast.SelectorExpr:
					if f.Sel.Name == it.Arg {
						n++
					}
				}
			}
			return true
		})
		fmt.Fprintf(&em.b, "def callcount_%s_%s : Nat := %d\n\n", leanName(it.Name), leanName(it.Arg), n)
	}

	var items []Item
	for _, f := range []string{"NewFirmwareVolume", "NewFile", "NewSection", "NewBIOSRegion", "NewFlashImage",
		"FlashImage.fillRegionGaps", "FlashDescriptor.ParseFlashDescriptor", "FindFirmwareVolumeOffset", "FindSignature",
		// follow-up wp-c04b: the ME partition table and the NVAR store are inside the theorem now
		"NewMEFPT", "MEFPT.parsePartitions", "NewMERegion", "FindMEDescriptor", "NewNVarStore", "newNVar"} {
		items = append(items, Item{Kind: "sliceshapes", Name: f}, Item{Kind: "cmpops", Name: f})
	}
	items = append(items,
		Item{Kind: "const", Name: "MEPartitionDescriptorMinLength"}, Item{Kind: "const", Name: "MEPartitionTableEntryLength"},
		Item{Kind: "bytesvar", Name: "MEFPTSignature"}, Item{Kind: "layout", Name: "MEPartitionEntry"},
		Item{Kind: "callcount", Name: "NewFile", Arg: "NewNVarStore"},
		Item{Kind: "callcount", Name: "NewMERegion", Arg: "NewMEFPT"},
		Item{Kind: "callcount", Name: "NewMEFPT", Arg: "FindMEDescriptor"},
		Item{Kind: "callcount", Name: "NewMEFPT", Arg: "parsePartitions"},
		Item{Kind: "callcount", Name: "NewNVarStore", Arg: "newNVar"},
		Item{Kind: "callcount", Name: "newNVar", Arg: "parseContent"},
		Item{Kind: "callcount", Name: "NVar.parseContent", Arg: "NewNVarStore"},
	)
	items = append(items,
		Item{Kind: "callcount", Name: "NewFirmwareVolume", Arg: "Align8"},
		Item{Kind: "callcount", Name: "NewFile", Arg: "Align4"},
		Item{Kind: "callcount", Name: "NewSection", Arg: "Align4"},
		Item{Kind: "callcount", Name: "NewFirmwareVolume", Arg: "NewFile"},
		Item{Kind: "callcount", Name: "NewFile", Arg: "NewSection"},
		Item{Kind: "callcount", Name: "NewBIOSRegion", Arg: "NewFirmwareVolume"},
		Item{Kind: "callcount", Name: "NewBIOSRegion", Arg: "NewBIOSPadding"},
	)
	specs = append(specs, Spec{Area: "UefiParse", Pkg: "pkg/uefi", Items: items})
}
