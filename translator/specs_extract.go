package main

// Facts regenerated for property C07 (lean/FianoModel/Uefi/Extract.lean):
//   * the path text Extract.Visit uses (every string literal of the function, in source order —
//     directory names, file names, Sprintf verbs), and the region type names;
//   * which fields of the pkg/uefi node types carry a json tag (`json:"-"` fields do not survive
//     summary.json; `omitempty` ones do);
//   * what ThreeUint8.UnmarshalJSON does with the JSON text;
//   * the wiring of `utk DIR …` (pkg/utk Run) and of Save (which assembles again).
// All extraction kinds are independent of local identifier names, so a rename is not an alarm.
//
// Extraction kinds added here:
//   strlits   func F: every string literal in the body, sorted (a multiset: reordering
//             independent statements or switch arms is not an alarm)                -> List String
//   jsontags  type T struct: every field with a json tag                          -> List (String × String)
//   pkgrefs   func F: every pkg.Name where pkg is an imported package, in order   -> List String
//   complits  func F: the type of every composite literal, in source order        -> List String
//   builtins  func F: every call of a predeclared function with its arity, sorted -> List (String × Nat)

import (
	"fmt"
	"go/ast"
	"go/token"
	"reflect"
	"sort"
	"strconv"
	"strings"
)

func init() {
	fn := func(em *emitter, p *pkgInfo, it Item, typ string) (*ast.FuncDecl, bool) {
		fd, ok := p.funcs[it.Name]
		if !ok || fd.Body == nil {
			em.fail(it, typ, "[]", "function not found")
			return nil, false
		}
		return fd, true
	}
	extraKinds["strlits"] = func(em *emitter, p *pkgInfo, it Item) {
		fd, ok := fn(em, p, it, "List String")
		if !ok {
			return
		}
		var out []string
		ast.Inspect(fd.Body, func(n ast.Node) bool {
			if l, ok := n.(*ast.BasicLit); ok && l.Kind == token.STRING {
				if s, err := strconv.Unquote(l.Value); err == nil {
					out = append(out, s)
				}
			}
			return true
		})
		sort.Strings(out)
		fmt.Fprintf(&em.b, "def strlits_%s : List String := %s\n\n", leanName(it.Name), strList(out))
	}
	extraKinds["jsontags"] = func(em *emitter, p *pkgInfo, it Item) {
		st, ok := p.types[it.Name].(*ast.StructType)
		if !ok {
			em.fail(it, "List (String × String)", "[]", "struct type not found")
			return
		}
		var ss []string
		for _, f := range st.Fields.List {
			if f.Tag == nil {
				continue
			}
			raw, err := strconv.Unquote(f.Tag.Value)
			if err != nil {
				continue
			}
			tag, ok := reflect.StructTag(raw).Lookup("json")
			if !ok {
				continue
			}
			for _, n := range f.Names {
				ss = append(ss, fmt.Sprintf("(%s, %s)", leanStr(n.Name), leanStr(tag)))
			}
			if len(f.Names) == 0 {
				ss = append(ss, fmt.Sprintf("(%s, %s)", leanStr(exprText(p.fset, f.Type)), leanStr(tag)))
			}
		}
		fmt.Fprintf(&em.b, "def jsontags_%s : List (String × String) := [%s]\n\n", leanName(it.Name), strings.Join(ss, ", "))
	}
	extraKinds["pkgrefs"] = func(em *emitter, p *pkgInfo, it Item) {
		fd, ok := fn(em, p, it, "List String")
		if !ok {
			return
		}
		// the imported package names of the file that declares the function
		imported := map[string]bool{}
		for _, f := range p.files {
			if f.Pos() <= fd.Pos() && fd.End() <= f.End() {
				for _, im := range f.Imports {
					path, _ := strconv.Unquote(im.Path.Value)
					name := path[strings.LastIndex(path, "/")+1:]
					if im.Name != nil {
						name = im.Name.Name
					}
					imported[name] = true
				}
			}
		}
		var out []string
		ast.Inspect(fd.Body, func(n ast.Node) bool {
			if s, ok := n.(*ast.SelectorExpr); ok {
				if id, ok := s.X.(*ast.Ident); ok && imported[id.Name] && id.Obj == nil {
					out = append(out, id.Name+"."+s.Sel.Name)
				}
			}
			return true
		})
		fmt.Fprintf(&em.b, "def pkgrefs_%s : List String := %s\n\n", leanName(it.Name), strList(out))
	}
	extraKinds["complits"] = func(em *emitter, p *pkgInfo, it Item) {
		fd, ok := fn(em, p, it, "List String")
		if !ok {
			return
		}
		var out []string
		ast.Inspect(fd.Body, func(n ast.Node) bool {
			if c, ok := n.(*ast.CompositeLit); ok && c.Type != nil {
				out = append(out, exprText(p.fset, c.Type))
			}
			return true
		})
		fmt.Fprintf(&em.b, "def complits_%s : List String := %s\n\n", leanName(it.Name), strList(out))
	}
	extraKinds["builtins"] = func(em *emitter, p *pkgInfo, it Item) {
		fd, ok := fn(em, p, it, "List (String × Nat)")
		if !ok {
			return
		}
		pre := map[string]bool{"copy": true, "append": true, "make": true, "len": true, "cap": true, "new": true, "delete": true, "panic": true}
		var ss []string
		ast.Inspect(fd.Body, func(n ast.Node) bool {
			if c, ok := n.(*ast.CallExpr); ok {
				if id, ok := c.Fun.(*ast.Ident); ok && pre[id.Name] {
					ss = append(ss, fmt.Sprintf("(%s, %d)", leanStr(id.Name), len(c.Args)))
				}
			}
			return true
		})
		sort.Strings(ss)
		fmt.Fprintf(&em.b, "def builtins_%s : List (String × Nat) := [%s]\n\n", leanName(it.Name), strings.Join(ss, ", "))
	}

	specs = append(specs, Spec{Area: "Extract", Pkg: "pkg/visitors", Items: []Item{
		{Kind: "strlits", Name: "Extract.Visit"},
		{Kind: "strlits", Name: "ParseDir.Parse"},
		{Kind: "builtins", Name: "ParseDir.Visit"},
		{Kind: "complits", Name: "Save.Visit"},
		{Kind: "pkgrefs", Name: "Save.Visit"},
	}})
	specs = append(specs, Spec{Area: "ExtractUefi", Pkg: "pkg/uefi", Items: []Item{
		{Kind: "strmap", Name: "flashRegionTypeNames"},
		{Kind: "strlits", Name: "FlashRegionType.String"},
		{Kind: "jsontags", Name: "FileHeader"},
		{Kind: "jsontags", Name: "FileHeaderExtended"},
		{Kind: "jsontags", Name: "File"},
		{Kind: "jsontags", Name: "SectionHeader"},
		{Kind: "jsontags", Name: "SectionExtHeader"},
		{Kind: "jsontags", Name: "SectionGUIDDefinedHeader"},
		{Kind: "jsontags", Name: "SectionGUIDDefined"},
		{Kind: "jsontags", Name: "DepExOp"},
		{Kind: "jsontags", Name: "Section"},
		{Kind: "jsontags", Name: "FirmwareVolumeFixedHeader"},
		{Kind: "jsontags", Name: "FirmwareVolumeExtHeader"},
		{Kind: "jsontags", Name: "FirmwareVolume"},
		{Kind: "jsontags", Name: "BIOSRegion"},
		{Kind: "jsontags", Name: "BIOSPadding"},
		{Kind: "jsontags", Name: "RawRegion"},
		{Kind: "jsontags", Name: "MERegion"},
		{Kind: "jsontags", Name: "FlashImage"},
		{Kind: "jsontags", Name: "FlashDescriptor"},
		{Kind: "jsontags", Name: "FlashRegion"},
		{Kind: "builtins", Name: "ThreeUint8.UnmarshalJSON"},
	}})
	specs = append(specs, Spec{Area: "ExtractGuid", Pkg: "pkg/guid", Items: []Item{
		{Kind: "const", Name: "Size"},
		{Kind: "strconsttext", Name: "strFormat"},
		{Kind: "inttable", Name: "fields"},
	}})
	specs = append(specs, Spec{Area: "ExtractUtk", Pkg: "pkg/utk", Items: []Item{
		{Kind: "pkgrefs", Name: "Run"},
		{Kind: "complits", Name: "Run"},
	}})
	extraKinds["strconsttext"] = func(em *emitter, p *pkgInfo, it Item) {
		// const X = "…" (untyped string constant)
		for _, f := range p.files {
			for _, d := range f.Decls {
				gd, ok := d.(*ast.GenDecl)
				if !ok || gd.Tok != token.CONST {
					continue
				}
				for _, s := range gd.Specs {
					vs := s.(*ast.ValueSpec)
					for i, n := range vs.Names {
						if n.Name == it.Name && i < len(vs.Values) {
							if l, ok := vs.Values[i].(*ast.BasicLit); ok && l.Kind == token.STRING {
								v, _ := strconv.Unquote(l.Value)
								fmt.Fprintf(&em.b, "def %s : String := %s\n\n", leanName(it.Name), leanStr(v))
								return
							}
						}
					}
				}
			}
		}
		em.fail(it, "String", "\"\"", "string constant not found")
	}
}
