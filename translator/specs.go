package main

// What is regenerated from the sources, per area: one Lean file per area,
// lean/FianoModel/Gen/<Area>.lean, namespace Fiano.Gen.<Area>.
// Each area registers itself from its own file specs_<area>.go (func init).
var specs []Spec
