package main

// loopfn, part 2: types of expressions and their rendering.  An effect (index, slice, call of an
// Option-valued function …) is rendered inline as `(← …)`; this is only done in *strict* positions —
// the right operand of && / || is wrapped in its own `do` so that Lean does not hoist it.

import (
	"fmt"
	"go/ast"
	"go/token"
	"strings"
)

var uintWidth = map[string]int{tU8: 8, tU16: 16, tU32: 32, tU64: 64}

func (c *lctx) ambientOf(e ast.Expr) *lvar {
	switch e.(type) {
	case *ast.SelectorExpr, *ast.CallExpr, *ast.Ident:
		if v, ok := c.ambient[exprText(c.p.fset, e)]; ok {
			return v
		}
	}
	return nil
}

// pkgBytes: a package-level byte-string variable that no function of the package assigns
func (c *lctx) pkgBytes(name string) ([]int64, bool) {
	init, ok := c.p.vars[name]
	if !ok {
		return nil, false
	}
	switch init.(type) {
	case *ast.CallExpr, *ast.CompositeLit:
	default:
		return nil, false
	}
	if cl, ok := init.(*ast.CompositeLit); ok {
		if t, _, _ := c.goType(cl.Type); t != tBytes {
			return nil, false
		}
	}
	if ce, ok := init.(*ast.CallExpr); ok {
		if t, _, _ := c.goType(ce.Fun); t != tBytes {
			return nil, false
		}
	}
	bs, ok := c.p.bytesOf(init)
	if !ok {
		return nil, false
	}
	assigned := false
	for _, fd := range c.p.funcs {
		if fd.Body == nil {
			continue
		}
		ast.Inspect(fd.Body, func(n ast.Node) bool {
			switch x := n.(type) {
			case *ast.AssignStmt:
				for _, l := range x.Lhs {
					root := l
					for {
						if ix, ok := root.(*ast.IndexExpr); ok {
							root = ix.X
							continue
						}
						break
					}
					if id, ok := root.(*ast.Ident); ok && id.Name == name && x.Tok != token.DEFINE {
						assigned = true
					}
				}
			case *ast.UnaryExpr:
				if id, ok := x.X.(*ast.Ident); ok && x.Op == token.AND && id.Name == name {
					assigned = true
				}
			}
			return true
		})
	}
	if assigned {
		return nil, false
	}
	return bs, true
}

// pkgTable: a package-level slice / array of integers with constant entries that no function assigns
func (c *lctx) pkgTable(name string) (elt string, vals []int64, ok bool) {
	init, found := c.p.vars[name]
	if !found {
		return "", nil, false
	}
	cl, isCl := init.(*ast.CompositeLit)
	if !isCl {
		return "", nil, false
	}
	at, isArr := cl.Type.(*ast.ArrayType)
	if !isArr {
		return "", nil, false
	}
	elt, _, _ = c.goType(at.Elt)
	if !isNum(elt) {
		return "", nil, false
	}
	for _, el := range cl.Elts {
		if _, kv := el.(*ast.KeyValueExpr); kv {
			return "", nil, false
		}
		v, ok := c.p.eval(el, 0)
		if !ok {
			return "", nil, false
		}
		vals = append(vals, v)
	}
	if c.pkgVarAssigned(name) {
		return "", nil, false
	}
	return elt, vals, true
}

func (c *lctx) pkgVarAssigned(name string) bool {
	assigned := false
	for _, fd := range c.p.funcs {
		if fd.Body == nil {
			continue
		}
		ast.Inspect(fd.Body, func(n ast.Node) bool {
			switch x := n.(type) {
			case *ast.AssignStmt:
				for _, l := range x.Lhs {
					root := l
					for {
						if ix, ok := root.(*ast.IndexExpr); ok {
							root = ix.X
							continue
						}
						break
					}
					if id, ok := root.(*ast.Ident); ok && id.Name == name && x.Tok != token.DEFINE {
						assigned = true
					}
				}
			case *ast.UnaryExpr:
				if id, ok := x.X.(*ast.Ident); ok && x.Op == token.AND && id.Name == name {
					assigned = true
				}
			}
			return true
		})
	}
	return assigned
}

func (c *lctx) structFieldNames(e ast.Expr) []string {
	for i := 0; i < 10; i++ {
		id, ok := e.(*ast.Ident)
		if !ok {
			break
		}
		u, ok := c.p.types[id.Name]
		if !ok {
			break
		}
		e = u
	}
	st, ok := e.(*ast.StructType)
	if !ok {
		return nil
	}
	var out []string
	for _, f := range st.Fields.List {
		for _, n := range f.Names {
			out = append(out, n.Name)
		}
	}
	return out
}

func bytesLit(bs []int64) string {
	var ss []string
	for _, b := range bs {
		ss = append(ss, fmt.Sprintf("%d", b&0xff))
	}
	return "([" + strings.Join(ss, ", ") + "] : List UInt8)"
}

// typeOf: internal type of e; "" = untyped constant / unknown
func (c *lctx) typeOf(e ast.Expr) string {
	if v := c.ambientOf(e); v != nil {
		return v.typ
	}
	switch x := e.(type) {
	case *ast.BasicLit:
		return ""
	case *ast.Ident:
		if v := c.lookup(x.Name); v != nil {
			return v.typ
		}
		if x.Name == "true" || x.Name == "false" {
			return tBool
		}
		if _, ok := c.pkgBytes(x.Name); ok {
			return tBytes
		}
		return ""
	case *ast.ParenExpr:
		return c.typeOf(x.X)
	case *ast.StarExpr:
		return c.typeOf(x.X)
	case *ast.UnaryExpr:
		if x.Op == token.NOT {
			return tBool
		}
		return c.typeOf(x.X)
	case *ast.BinaryExpr:
		switch x.Op {
		case token.EQL, token.NEQ, token.LSS, token.LEQ, token.GTR, token.GEQ, token.LAND, token.LOR:
			return tBool
		case token.SHL, token.SHR:
			return c.typeOf(x.X)
		}
		if t := c.typeOf(x.X); t != "" {
			return t
		}
		return c.typeOf(x.Y)
	case *ast.IndexExpr:
		if c.typeOf(x.X) == tBytes {
			return tU8
		}
		if id, ok := x.X.(*ast.Ident); ok && c.lookup(id.Name) == nil {
			if elt, _, ok := c.pkgTable(id.Name); ok {
				return elt
			}
		}
	case *ast.SliceExpr:
		return tBytes
	case *ast.CompositeLit:
		if t, _, _ := c.goType(x.Type); t == tBytes || strings.HasPrefix(t, "Struct:") {
			return t
		}
	case *ast.CallExpr:
		if t, _, _ := c.goType(x.Fun); t != "" {
			return t
		}
		name := callName(x)
		switch name {
		case "len", "copy":
			return tInt
		case "make":
			return tBytes
		case "bytes.Equal":
			return tBool
		case "bytes.Index":
			return tInt
		case "bytes.NewReader":
			return tReader
		case "binary.LittleEndian.Uint16", "binary.BigEndian.Uint16":
			return tU16
		case "binary.LittleEndian.Uint32", "binary.BigEndian.Uint32":
			return tU32
		case "binary.LittleEndian.Uint64", "binary.BigEndian.Uint64":
			return tU64
		case "fmt.Errorf", "errors.New", "binary.Read":
			return tErr
		}
		if s, ok := c.known[name]; ok && len(s.results) == 1 {
			return s.results[0]
		}
	}
	return ""
}

func numLit(v int64, t string) string {
	switch {
	case isUns(t):
		u := uint64(v)
		if w := uintWidth[t]; w < 64 {
			u &= (uint64(1) << uint(w)) - 1
		}
		return fmt.Sprintf("(%d : %s)", u, t)
	default:
		return fmt.Sprintf("(%d : Int)", v)
	}
}

func (c *lctx) eff(s string) string {
	if !c.opt {
		c.fail("internal: effect %s in a unit that was classified as pure", s)
	}
	return "(← " + s + ")"
}

// simpleBytes renders an expression of type []byte that has no effect of its own
func (c *lctx) simpleBytes(e ast.Expr) (string, bool) {
	if v := c.ambientOf(e); v != nil && v.typ == tBytes {
		return v.lean, true
	}
	switch x := e.(type) {
	case *ast.Ident:
		if v := c.lookup(x.Name); v != nil && (v.typ == tBytes || v.typ == tReader) {
			return v.lean, true
		}
		if c.lookup(x.Name) == nil {
			if bs, ok := c.pkgBytes(x.Name); ok {
				return bytesLit(bs), true
			}
		}
	case *ast.ParenExpr:
		return c.simpleBytes(x.X)
	}
	return "", false
}

// asNat renders a non-negative integer expression as a Lean Nat
func (c *lctx) asNat(e ast.Expr) string {
	if v, ok := c.constOf(e); ok {
		if v < 0 {
			c.fail("negative constant %d where a length is needed", v)
		}
		return fmt.Sprintf("%d", v)
	}
	if ce, ok := e.(*ast.CallExpr); ok && callName(ce) == "len" && len(ce.Args) == 1 {
		if b, ok := c.simpleBytes(ce.Args[0]); ok {
			return b + ".length"
		}
	}
	t := c.typeOf(e)
	if isUns(t) {
		return "(" + c.ex(e, t) + ").toNat"
	}
	return "(" + c.ex(e, tInt) + ").toNat"
}

// asInt renders an index / bound of any integer type as a Lean Int (unsigned values are exact)
func (c *lctx) asInt(e ast.Expr) string {
	if _, ok := c.constOf(e); ok {
		return c.ex(e, tInt)
	}
	if t := c.typeOf(e); isUns(t) {
		return "((" + c.ex(e, t) + ").toNat : Int)"
	}
	return c.ex(e, tInt)
}

// ex renders e at internal type want ("" = its own type; untyped constants default to Int)
func (c *lctx) ex(e ast.Expr, want string) string {
	if c.err != "" {
		return "0"
	}
	if v := c.ambientOf(e); v != nil {
		return v.lean
	}
	// whole expression constant?
	if _, isLit := e.(*ast.CompositeLit); !isLit {
		if v, ok := c.constOf(e); ok {
			t := want
			if t == "" || t == tBool {
				t = c.typeOf(e)
			}
			if t == "" {
				t = tInt
			}
			if isNum(t) {
				return numLit(v, t)
			}
		}
	}
	switch x := e.(type) {
	case *ast.BasicLit:
		if x.Kind == token.STRING && want == tBytes {
			if bs, ok := c.p.bytesOf(x); ok {
				return bytesLit(bs)
			}
		}
		c.fail("literal %s", x.Value)
		return "0"
	case *ast.Ident:
		if v := c.lookup(x.Name); v != nil {
			return v.lean
		}
		switch x.Name {
		case "true", "false":
			return x.Name
		case "nil":
			switch want {
			case tErr:
				return "GoRt.nilErr"
			case tBytes:
				return "([] : List UInt8)"
			}
			c.fail("nil at type %q", want)
			return "0"
		}
		if bs, ok := c.pkgBytes(x.Name); ok {
			return bytesLit(bs)
		}
		if want == tErr {
			return "GoRt.anErr" // a sentinel error value of the package
		}
		c.fail("unknown identifier %s", x.Name)
		return "0"
	case *ast.SelectorExpr:
		if want == tErr {
			return "GoRt.anErr" // io.EOF, os.ErrNotExist, …
		}
		c.fail("unsupported selector %s", exprText(c.p.fset, x))
		return "0"
	case *ast.ParenExpr:
		return c.ex(x.X, want)
	case *ast.StarExpr:
		if id, ok := x.X.(*ast.Ident); ok {
			if v := c.lookup(id.Name); v != nil && v.ptr {
				return v.lean
			}
		}
		c.fail("unsupported dereference %s", exprText(c.p.fset, x))
		return "0"
	case *ast.UnaryExpr:
		t := c.typeOf(x.X)
		if t == "" {
			t = want
		}
		switch x.Op {
		case token.XOR:
			if t == tInt || t == "" {
				return "(-(" + c.ex(x.X, tInt) + ") - 1)"
			}
			return "(~~~" + c.ex(x.X, t) + ")"
		case token.SUB:
			if t == tInt || t == "" {
				return "(-" + c.ex(x.X, tInt) + ")"
			}
			return "(" + numLit(0, t) + " - " + c.ex(x.X, t) + ")"
		case token.ADD:
			return c.ex(x.X, t)
		case token.NOT:
			return "(!" + c.ex(x.X, tBool) + ")"
		}
		c.fail("unary %s", x.Op)
		return "0"
	case *ast.BinaryExpr:
		return c.binary(x, want)
	case *ast.IndexExpr:
		if id, isId := x.X.(*ast.Ident); isId && c.lookup(id.Name) == nil {
			if elt, vals, ok := c.pkgTable(id.Name); ok && c.typeOf(x.X) != tBytes {
				var ss []string
				for _, v := range vals {
					ss = append(ss, fmt.Sprintf("%d", v))
				}
				tbl := "([" + strings.Join(ss, ", ") + "] : List " + leanTy(elt) + ")"
				it := c.typeOf(x.Index)
				if isUns(it) {
					return c.eff(tbl + "[(" + c.ex(x.Index, it) + ").toNat]?")
				}
				if k, ok := c.constOf(x.Index); ok && k >= 0 {
					return c.eff(fmt.Sprintf("%s[%d]?", tbl, k))
				}
				c.fail("table %s indexed by a signed value", id.Name)
				return "0"
			}
		}
		b, ok := c.simpleBytes(x.X)
		if !ok {
			c.fail("index into something that is not a plain []byte variable: %s", exprText(c.p.fset, x))
			return "0"
		}
		if k, ok := c.constOf(x.Index); ok && k >= 0 {
			return c.eff(fmt.Sprintf("%s[%d]?", b, k))
		}
		it := c.typeOf(x.Index)
		if isUns(it) {
			return c.eff(b + "[(" + c.ex(x.Index, it) + ").toNat]?")
		}
		return c.eff("GoRt.idx " + b + " " + c.ex(x.Index, tInt))
	case *ast.SliceExpr:
		return c.sliceExpr(x)
	case *ast.CompositeLit:
		if t, _, _ := c.goType(x.Type); t == tBytes {
			var ss []string
			for _, el := range x.Elts {
				if _, ok := el.(*ast.KeyValueExpr); ok {
					c.fail("keyed composite literal")
				}
				ss = append(ss, c.ex(el, tU8))
			}
			return "([" + strings.Join(ss, ", ") + "] : List UInt8)"
		}
		if t, _, _ := c.goType(x.Type); strings.HasPrefix(t, "Struct:") {
			fts := tupleFields(t)
			names := c.structFieldNames(x.Type)
			vals := make([]string, len(fts))
			for i, ft := range fts {
				vals[i] = c.zero(ft)
			}
			for i, el := range x.Elts {
				if kv, ok := el.(*ast.KeyValueExpr); ok {
					k, _ := kv.Key.(*ast.Ident)
					idx := -1
					for j, n := range names {
						if k != nil && n == k.Name {
							idx = j
						}
					}
					if idx < 0 {
						c.fail("unknown field in %s", exprText(c.p.fset, x))
						return "0"
					}
					vals[idx] = c.ex(kv.Value, fts[idx])
				} else if i < len(fts) {
					vals[i] = c.ex(el, fts[i])
				}
			}
			return "(" + strings.Join(vals, ", ") + ")"
		}
		c.fail("unsupported composite literal %s", exprText(c.p.fset, x))
		return "0"
	case *ast.CallExpr:
		return c.call(x, want)
	}
	c.fail("unsupported expression %s", exprText(c.p.fset, e))
	return "0"
}

func (c *lctx) sliceExpr(x *ast.SliceExpr) string {
	b, ok := c.simpleBytes(x.X)
	if !ok || x.Max != nil {
		c.fail("unsupported slice expression %s", exprText(c.p.fset, x))
		return "[]"
	}
	signed := false
	for _, bd := range []ast.Expr{x.Low, x.High} {
		if bd == nil {
			continue
		}
		if _, isC := c.constOf(bd); isC {
			continue
		}
		if !isUns(c.typeOf(bd)) {
			signed = true
		}
	}
	if signed {
		lo, hi := "(0 : Int)", "("+b+".length : Int)"
		if x.Low != nil {
			lo = c.asInt(x.Low)
		}
		if x.High != nil {
			hi = c.asInt(x.High)
		}
		return c.eff("GoRt.slice " + b + " " + lo + " " + hi)
	}
	lo, hi := "0", b+".length"
	if x.Low != nil {
		lo = c.asNat(x.Low)
	}
	if x.High != nil {
		hi = c.asNat(x.High)
	}
	return c.eff("GoRt.sliceN " + b + " " + lo + " " + hi)
}

func (c *lctx) binary(x *ast.BinaryExpr, want string) string {
	switch x.Op {
	case token.LAND, token.LOR:
		l := c.ex(x.X, tBool)
		if c.effectful(x.Y) {
			// the right operand must only be evaluated when Go evaluates it
			save := c.opt
			r := c.ex(x.Y, tBool)
			c.opt = save
			if x.Op == token.LAND {
				return "(← (if " + l + " then (do pure " + r + ") else pure false))"
			}
			return "(← (if " + l + " then pure true else (do pure " + r + ")))"
		}
		r := c.ex(x.Y, tBool)
		if x.Op == token.LAND {
			return "(" + l + " && " + r + ")"
		}
		return "(" + l + " || " + r + ")"
	case token.EQL, token.NEQ, token.LSS, token.LEQ, token.GTR, token.GEQ:
		ot := c.typeOf(x.X)
		if ot == "" {
			ot = c.typeOf(x.Y)
		}
		if id, ok := x.Y.(*ast.Ident); ok && id.Name == "nil" && c.lookup("nil") == nil {
			if c.typeOf(x.X) == tErr {
				if x.Op == token.NEQ {
					return c.ex(x.X, tErr)
				}
				if x.Op == token.EQL {
					return "(!" + c.ex(x.X, tErr) + ")"
				}
			}
			c.fail("comparison with nil: %s", exprText(c.p.fset, x))
			return "false"
		}
		if ot == "" {
			ot = tInt
		}
		if ot == tBytes || ot == tReader || ot == tErr {
			c.fail("comparison of %s values: %s", ot, exprText(c.p.fset, x))
			return "false"
		}
		l, r := c.ex(x.X, ot), c.ex(x.Y, ot)
		switch x.Op {
		case token.EQL:
			return "(" + l + " == " + r + ")"
		case token.NEQ:
			return "(" + l + " != " + r + ")"
		}
		if ot == tBool {
			c.fail("ordering of booleans")
		}
		cmp := map[token.Token]string{token.LSS: "<", token.LEQ: "≤", token.GTR: ">", token.GEQ: "≥"}
		return "(decide (" + l + " " + cmp[x.Op] + " " + r + "))"
	case token.SHL, token.SHR:
		t := c.typeOf(x.X)
		if t == "" {
			t = want
		}
		if t == "" {
			t = tInt
		}
		l := c.ex(x.X, t)
		if k, ok := c.constOf(x.Y); ok {
			if k < 0 {
				c.fail("negative shift count")
				return "0"
			}
			if t == tInt {
				if x.Op == token.SHL {
					return fmt.Sprintf("(%s * (%d : Int))", l, int64(1)<<uint(k))
				}
				return fmt.Sprintf("(%s / (%d : Int))", l, int64(1)<<uint(k))
			}
			if int(k) >= uintWidth[t] {
				return numLit(0, t)
			}
			op := "<<<"
			if x.Op == token.SHR {
				op = ">>>"
			}
			return "(" + l + " " + op + " " + numLit(k, t) + ")"
		}
		ct := c.typeOf(x.Y)
		if !isUns(ct) || !isUns(t) {
			c.fail("shift with a variable count needs unsigned operand and count: %s", exprText(c.p.fset, x))
			return "0"
		}
		fn := "GoRt.shl"
		if x.Op == token.SHR {
			fn = "GoRt.shr"
		}
		return fmt.Sprintf("(%s%d %s (%s).toNat)", fn, uintWidth[t], l, c.ex(x.Y, ct))
	}
	// arithmetic / bitwise
	t := c.typeOf(x.X)
	if t == "" || !isNum(t) {
		t = c.typeOf(x.Y)
	}
	if t == "" || !isNum(t) {
		t = want
	}
	if t == "" || !isNum(t) {
		t = tInt
	}
	l, r := c.ex(x.X, t), c.ex(x.Y, t)
	if x.Op == token.QUO || x.Op == token.REM {
		if k, ok := c.constOf(x.Y); !ok || k == 0 {
			c.fail("division by something that is not a non-zero constant: %s", exprText(c.p.fset, x))
			return "0"
		}
	}
	if t == tInt {
		switch x.Op {
		case token.ADD:
			return "(" + l + " + " + r + ")"
		case token.SUB:
			return "(" + l + " - " + r + ")"
		case token.MUL:
			return "(" + l + " * " + r + ")"
		case token.QUO:
			return "(Int.tdiv " + l + " " + r + ")"
		case token.REM:
			return "(Int.tmod " + l + " " + r + ")"
		case token.AND:
			return "(GoRt.iand " + l + " " + r + ")"
		case token.OR:
			return "(GoRt.ior " + l + " " + r + ")"
		case token.XOR:
			return "(GoRt.ixor " + l + " " + r + ")"
		case token.AND_NOT:
			return "(GoRt.iand " + l + " (-" + r + " - 1))"
		}
	} else {
		ops := map[token.Token]string{token.ADD: "+", token.SUB: "-", token.MUL: "*", token.QUO: "/", token.REM: "%",
			token.AND: "&&&", token.OR: "|||", token.XOR: "^^^"}
		if op, ok := ops[x.Op]; ok {
			return "(" + l + " " + op + " " + r + ")"
		}
		if x.Op == token.AND_NOT {
			return "(" + l + " &&& ~~~" + r + ")"
		}
	}
	c.fail("binary %s", x.Op)
	return "0"
}

func (c *lctx) convert(x *ast.CallExpr, t string) string {
	a := x.Args[0]
	if t == tBytes {
		if lit, ok := a.(*ast.BasicLit); ok && lit.Kind == token.STRING {
			return c.ex(lit, tBytes)
		}
		if c.typeOf(a) == tBytes {
			return c.ex(a, tBytes)
		}
		c.fail("unsupported conversion %s", exprText(c.p.fset, x))
		return "[]"
	}
	at := c.typeOf(a)
	if at == "" {
		if _, ok := c.constOf(a); ok {
			return c.ex(a, t)
		}
		at = tInt
	}
	if at == t {
		return c.ex(a, t)
	}
	switch {
	case isUns(at) && isUns(t):
		return "(" + c.ex(a, at) + ").to" + t
	case isUns(at) && t == tInt:
		if at == tU64 {
			return "(GoRt.i64 " + c.ex(a, at) + ")"
		}
		return "((" + c.ex(a, at) + ").toNat : Int)"
	case at == tInt && isUns(t):
		if ce, ok := a.(*ast.CallExpr); ok && callName(ce) == "len" && len(ce.Args) == 1 {
			if b, ok := c.simpleBytes(ce.Args[0]); ok {
				return "(" + t + ".ofNat " + b + ".length)"
			}
		}
		return "(" + t + ".ofInt " + c.ex(a, tInt) + ")"
	}
	c.fail("unsupported conversion %s (from %s)", exprText(c.p.fset, x), at)
	return "0"
}

func (c *lctx) call(x *ast.CallExpr, want string) string {
	if t, _, _ := c.goType(x.Fun); t != "" && len(x.Args) == 1 {
		return c.convert(x, t)
	}
	name := callName(x)
	switch name {
	case "len":
		if len(x.Args) == 1 {
			if id, ok := x.Args[0].(*ast.Ident); ok && c.lookup(id.Name) == nil {
				if bs, ok := c.pkgBytes(id.Name); ok {
					return numLit(int64(len(bs)), tInt)
				}
			}
			if b, ok := c.simpleBytes(x.Args[0]); ok {
				return "(" + b + ".length : Int)"
			}
			if c.typeOf(x.Args[0]) == tBytes {
				return "((" + c.ex(x.Args[0], tBytes) + ").length : Int)"
			}
		}
	case "make":
		if len(x.Args) == 2 {
			if t, _, _ := c.goType(x.Args[0]); t == tBytes {
				if c.nonNegative(x.Args[1]) {
					return "(List.replicate " + c.asNat(x.Args[1]) + " (0 : UInt8))"
				}
				return c.eff("GoRt.make " + c.ex(x.Args[1], tInt))
			}
		}
	case "bytes.Equal":
		if len(x.Args) == 2 {
			return "(" + c.ex(x.Args[0], tBytes) + " == " + c.ex(x.Args[1], tBytes) + ")"
		}
	case "bytes.Index":
		if len(x.Args) == 2 {
			return "(GoRt.index " + c.ex(x.Args[0], tBytes) + " " + c.ex(x.Args[1], tBytes) + ")"
		}
	case "fmt.Errorf", "errors.New":
		return "GoRt.anErr"
	case "binary.LittleEndian.Uint16", "binary.LittleEndian.Uint32", "binary.LittleEndian.Uint64",
		"binary.BigEndian.Uint16", "binary.BigEndian.Uint32", "binary.BigEndian.Uint64":
		if len(x.Args) == 1 {
			fn := "le"
			if strings.Contains(name, "Big") {
				fn = "be"
			}
			return c.eff("GoRt." + fn + strings.TrimPrefix(name[strings.LastIndex(name, ".")+1:], "Uint") + " " + c.ex(x.Args[0], tBytes))
		}
	}
	if s, ok := c.known[name]; ok {
		if s.extra > 0 || len(s.results) != 1 {
			c.fail("call of %s (several results / writes its arguments) inside an expression", name)
			return "0"
		}
		if len(s.params) != len(x.Args) {
			c.fail("arity of %s", name)
			return "0"
		}
		var as []string
		for i, a := range x.Args {
			as = append(as, c.ex(a, s.params[i]))
		}
		t := "(" + s.lean + " " + strings.Join(as, " ") + ")"
		if len(as) == 0 {
			t = s.lean
		}
		if s.opt {
			return c.eff(strings.TrimSuffix(strings.TrimPrefix(t, "("), ")"))
		}
		return t
	}
	c.fail("unsupported call %s", exprText(c.p.fset, x))
	return "0"
}

// errArgEffects: `fmt.Errorf("…", a, b[:n])` evaluates its arguments — an index / slice expression in
// them can panic.  Returns `let _ ← …` lines for every such sub-expression.
func (c *lctx) errArgEffects(e ast.Expr) []string {
	ce, ok := e.(*ast.CallExpr)
	if !ok {
		return nil
	}
	name := callName(ce)
	if name != "fmt.Errorf" && name != "errors.New" {
		return nil
	}
	var out []string
	for _, a := range ce.Args {
		ast.Inspect(a, func(n ast.Node) bool {
			switch y := n.(type) {
			case *ast.SliceExpr, *ast.IndexExpr:
				t := c.ex(y.(ast.Expr), "")
				t = strings.TrimSuffix(strings.TrimPrefix(t, "(← "), ")")
				out = append(out, "let _ ← "+t)
				return false
			}
			return true
		})
	}
	return out
}
