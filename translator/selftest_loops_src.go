package main

// Synthetic Go functions for the self-test of kind `loopfn` (exprfn_loops_selftest.go).  This file is
// both *compiled* into the translator (so the functions can be executed) and *embedded* as text (so
// the very same source is translated to Lean); the self-test evaluates both on the same vectors.
// One function per construct of the translatable subset, wrap-around included.

import (
	"bytes"
	"encoding/binary"
	"errors"
	"fmt"
)

var stSig = []byte{0x5a, 0xa5, 0xf0, 0x0f}

const stBlock = 3

func st_sum8(b []byte) uint8 {
	var sum uint8
	for _, v := range b {
		sum += v
	}
	return sum
}

func st_two(b []byte) uint16 {
	var lo, hi uint8
	for _, v := range b {
		lo += v
		hi ^= lo
	}
	return uint16(hi)<<8 | uint16(lo)
}

func st_sum16le(b []byte) uint16 {
	var s uint16
	for i := 0; i+1 < len(b); i += 2 {
		s += binary.LittleEndian.Uint16(b[i:])
	}
	return s
}

func st_sum32be(b []byte) uint32 {
	s := uint32(0xfffffff0)
	for i := 0; i+4 <= len(b); i += 4 {
		s += binary.BigEndian.Uint32(b[i : i+4])
	}
	return s
}

func st_le64(b []byte) uint64 {
	return binary.LittleEndian.Uint64(b) + binary.BigEndian.Uint64(b[1:])
}

func st_alleq(b []byte, x uint8) bool {
	for _, c := range b {
		if c != x {
			return false
		}
	}
	return true
}

func st_index(b []byte, k int) uint8 {
	return b[k] + b[len(b)-1-k]
}

func st_count(b []byte, x uint8) int {
	n := 0
	for i := range b {
		if b[i] == x {
			n++
		}
	}
	return n
}

func st_first(b []byte, x uint8) int {
	for i, v := range b {
		if v == x {
			return i
		}
	}
	return -1
}

func st_fill(b []byte, x uint8) {
	for i := range b {
		b[i] = x + uint8(i)
	}
}

func st_rev(s []byte) []byte {
	if len(s) == 0 {
		return nil
	}
	d := make([]byte, len(s))
	copy(d, s)
	for right := len(d)/2 - 1; right >= 0; right-- {
		left := len(d) - 1 - right
		d[right], d[left] = d[left], d[right]
	}
	return d
}

func st_while(b []byte) uint32 {
	n := len(b)
	var acc uint32 = 0xffffff00
	for n > 0 {
		k := n
		if k > stBlock {
			k = stBlock
		}
		n -= k
		acc = acc*31 + uint32(k)
	}
	return acc
}

func st_nested(data []byte) uint32 {
	var c0, c1 uint32
	var i int
	l := (len(data) + 1) & ^1
	for l > 0 {
		blockLen := l
		if blockLen > 2*stBlock {
			blockLen = 2 * stBlock
		}
		l -= blockLen
		for {
			val := uint16(data[i])
			i++
			if i < len(data) {
				val += uint16(data[i]) << 8
				i++
			}
			c0 = c0 + uint32(val)
			c1 = c1 + c0
			blockLen -= 2
			if blockLen == 0 {
				break
			}
		}
		c0 = c0 % 65535
		c1 = c1 % 65535
	}
	return c1<<16 | c0
}

func st_reader(buf []byte) (uint16, error) {
	r := bytes.NewReader(buf)
	if len(buf)%2 != 0 {
		return 0, fmt.Errorf("odd length %d", len(buf))
	}
	var temp, sum uint16
	for i := 0; i < len(buf); i += 2 {
		if err := binary.Read(r, binary.LittleEndian, &temp); err != nil {
			return 0, err
		}
		sum += temp
	}
	return sum, nil
}

func st_reader2(buf []byte) (uint32, uint8, error) {
	r := bytes.NewReader(buf)
	var a uint32
	var c uint8 = 7
	if err := binary.Read(r, binary.BigEndian, &a); err != nil {
		return a, c, err
	}
	err := binary.Read(r, binary.LittleEndian, &c)
	return a, c, err
}

func st_ptr(b []byte, st *uint32) uint {
	var n uint
	for _, v := range b {
		if v&1 == 1 {
			*st = *st*3 + uint32(v)
			n++
		}
	}
	return n
}

func st_shift(x uint32, n uint8) uint32 {
	k := uint(n)
	return x<<k | x>>(k+30) | uint32(uint8(x)<<(n&15))
}

func st_intops(b []byte) int {
	n := len(b) - 5
	return n%3 + n/2*10 + ((len(b)+1)&^1)*100 + (n&6)*1000 + (n|1)*10000 + (n^3)*100000 + (^n)*1000000
}

func st_conv(b []byte) uint64 {
	x := uint8(len(b) - 7)
	y := uint32(x) * 0x01010101
	z := uint16(y >> 4)
	w := int64(z) - 70000
	return uint64(x) + uint64(y)<<8 + uint64(z)<<40 + uint64(w)
}

func st_elseif(x uint32) (cls uint8, big bool) {
	if x < 10 {
		cls = 1
	} else if x < 100 {
		cls = 2
	} else if x == 0xffffffff {
		cls = 9
		big = true
		return
	} else {
		cls = 3
	}
	big = x > 50
	return
}

func st_slice(b []byte, lo uint32, hi int) int {
	s := b[lo:hi]
	if bytes.Equal(s, stSig) {
		return -2
	}
	if bytes.Equal(b[:hi], []byte("ab")) {
		return -3
	}
	return len(s)
}

func st_short(b []byte) bool {
	return len(b) > 2 && b[2] == 7 || len(b) == 0 || len(b) > 5 && (b[5] > 3 || b[1] == 0)
}

func st_partial(b []byte) uint32 {
	var mask uint32 = 5
	var acc uint32
	pos := 0
	for pos < len(b) {
		d := uint32(b[pos])
		if d > 2 {
			mask = 0
		} else {
			mask >>= d
			if mask != 0 && (mask > 4 || b[pos] == 1) {
				mask = mask>>1 | 4
				pos++
				continue
			}
		}
		acc = acc*7 + mask + d
		mask = mask>>1 | 4
		pos += 2
	}
	return acc
}

func st_calls(b []byte, x uint8) uint32 {
	if st_alleq(b, x) {
		return uint32(st_sum8(b))
	}
	return st_nested(b) + uint32(st_index(b, 0))
}

func st_shadow(b []byte) int {
	n := 1
	for i := 0; i < len(b); i++ {
		if b[i] > 9 {
			n := int(b[i])
			if n > 100 {
				continue
			}
			_ = n
		}
		n += 2
	}
	{
		n := 50
		_ = n
	}
	return n
}

func st_tuple(k uint8) uint16 {
	var a, b uint16 = 0, 1
	for i := uint8(0); i < k; i++ {
		a, b = b, a+b
	}
	return a
}

func st_errargs(b []byte, n int) error {
	if n > 3 {
		return fmt.Errorf("first bytes %x", b[:n])
	}
	if n == 0 {
		return errors.New("zero")
	}
	return nil
}

func st_sig(b []byte) int {
	if len(b) < len(stSig) {
		return -1
	}
	for off := 0; off+len(stSig) <= len(b); off += 2 {
		if bytes.Equal(b[off:off+len(stSig)], stSig) {
			return off
		}
	}
	return -1
}

func st_brk(b []byte) (uint8, int) {
	var s uint8
	n := 0
	for _, v := range b {
		if v == 0 {
			break
		}
		if v == 1 {
			continue
		}
		s += v
		n++
	}
	return s, n
}

func st_live(b []byte) uint8 {
	var s uint8
	for i, v := range b {
		if i+1 < len(b) {
			b[i+1] += v
		}
		s ^= v
	}
	return s
}

func st_nvar(buf []byte, size uint16) uint8 {
	calc := uint8(0)
	for i := int64(4); i < int64(size); i++ {
		calc += buf[i]
		if i == 5 {
			i += 3
		}
	}
	if calc != 0 {
		calc = -calc
	}
	return calc
}

func st_panic(b []byte) uint8 {
	if len(b) == 3 {
		panic("three")
	}
	return uint8(len(b))
}

func st_x86(data []byte, size uint, ip uint32, state *uint32, encoding bool) uint {
	var pos uint
	mask := *state & 7
	if size < 5 {
		return 0
	}
	size -= 4
	ip += 5
	for {
		p := pos
		for ; p < size; p++ {
			if data[p]&0xFE == 0xE8 {
				break
			}
		}
		{
			d := p - pos
			pos = p
			if p >= size {
				if d > 2 {
					*state = 0
				} else {
					*state = mask >> d
				}
				return pos
			}
			if d > 2 {
				mask = 0
			} else {
				mask >>= d
				if mask != 0 && (mask > 4 || mask == 3 || st_ms(data[p+uint(mask>>1)+1])) {
					mask = (mask >> 1) | 4
					pos++
					continue
				}
			}
		}
		if st_ms(data[p+4]) {
			v := (uint32(data[p+4]) << 24) + (uint32(data[p+3]) << 16) + (uint32(data[p+2]) << 8) + uint32(data[p+1])
			cur := ip + uint32(pos)
			pos += 5
			if encoding {
				v += cur
			} else {
				v -= cur
			}
			if mask != 0 {
				sh := uint((mask & 6) << 2)
				if st_ms(uint8(v >> sh)) {
					v ^= (uint32(0x100) << sh) - 1
					if encoding {
						v += cur
					} else {
						v -= cur
					}
				}
				mask = 0
			}
			data[p+1] = uint8(v)
			data[p+2] = uint8(v >> 8)
			data[p+3] = uint8(v >> 16)
			data[p+4] = uint8(0 - ((v >> 24) & 1))
		} else {
			mask = (mask >> 1) | 4
			pos++
		}
	}
}

func st_ms(b byte) bool {
	return (b+1)&0xFE == 0
}

// ---- methods on named integer types, a package-level table, a struct of scalars as result ----

type stAttr uint8

type stPair struct {
	Lo uint8
	Hi uint16
	Ok bool
}

var stTable = []uint64{1, 16, 128, 512, 1024}

func (a stAttr) Align() uint64 {
	v := (a & 0x38) >> 3
	v |= (a & 0x02) << 1
	return stTable[v]
}

func (a *stAttr) SetLow(on bool) {
	if on {
		*a |= 0x01
	} else {
		*a &= 0xFE
	}
}

func (a *stAttr) SetType(t uint8) {
	if uint(t) & ^uint(0x7f) != 0 {
		panic(fmt.Errorf("invalid type: 0x%X", t))
	}
	other := stAttr(uint(*a) & ^uint(0x7f))
	*a = stAttr(t) | other
}

func st_struct(b []byte) stPair {
	return stPair{
		Lo: b[0] & 0xF,
		Ok: b[1]>>4 == 3,
		Hi: uint16(b[1]) << 4,
	}
}

// int / int64 are translated to unbounded Int: exact below 2^63 (the self-test stays below; above,
// Go wraps and the translation does not — the documented assumption "no int overflow")
func st_find(b []byte) (int, error) {
	off := bytes.Index(b, stSig)
	if off >= 0 {
		return off + len(stSig), nil
	}
	if bytes.Index(b, []byte{}) != 0 || bytes.Index(b[len(b)/2:], []byte{1}) > 0 {
		return -2, nil
	}
	return -1, fmt.Errorf("signature %#02x not found", stSig)
}

func st_coords(size uint64) (lo, hi int64) {
	lo = int64(size) - stBlock*16
	hi = lo + 16
	return
}

// ---- must be refused (each one names the reason) ----

func bad_append(b []byte) []byte { return append(b, 1) }

func bad_keyassign(b []byte) int {
	n := 0
	for i := range b {
		i += 2
		n += i
	}
	return n
}

func bad_divvar(a, b uint32) uint32 { return a / b }

func bad_nofuel(b []byte) int {
	i := 0
	for {
		if i >= len(b) {
			return i
		}
		i++
	}
}

func bad_alias(a, b []byte) {
	for i := range a {
		a[i] = b[0]
	}
}

func bad_label(b []byte) int {
outer:
	for i := range b {
		for range b {
			continue outer
		}
		_ = i
	}
	return 0
}

func bad_shiftint(x uint32, n int) uint32 { return x << n }

func bad_closure(b []byte) int {
	f := func() int { return len(b) }
	return f()
}

func bad_string(b []byte) string { return string(b) }

func bad_reslice(b []byte) int {
	for i := range b {
		b = b[1:]
		_ = i
	}
	return len(b)
}

func bad_never(b []byte) {
	for {
		b[0]++
	}
}
