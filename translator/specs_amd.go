package main

import (
	"fmt"
	"go/ast"
	"go/token"
	"sort"
	"strings"
)

// pkg/amd/manifest and pkg/amd/psb (property C17).
//
// Besides constants and packed layouts, three extraction kinds of this area are registered
// through extraKinds.  They are written to survive harmless rewrites (renamed locals, reworded
// errors, reordered independent statements) and to change when a constant, a mask, a shift
// direction, a field width, the byte order or the order of the reads changes:
//
//	amd_intlists  the composite literals of a function body whose elements are all foldable
//	              integers, in source order                                  -> List (List Nat)
//	amd_litops    every binary expression of a function body with an integer literal operand,
//	              printed as "<op><value>" (literal on the right) or "<value><op>" (on the left),
//	              sorted, with duplicates                                     -> List String
//	amd_readseq   the calls of Arg (e.g. readAndCountSize, binary.Read) in a function body, in
//	              order: "<byte order>:<what>" where <what> is the field name of a `&x.Field`
//	              destination, or the declared type of a local `var` destination -> List String
func init() {
	extraKinds["amd_intlists"] = func(em *emitter, p *pkgInfo, it Item) {
		fd, ok := p.funcs[it.Name]
		if !ok || fd.Body == nil {
			em.fail(it, "List (List Nat)", "[]", "function not found")
			return
		}
		var lists []string
		ast.Inspect(fd.Body, func(n ast.Node) bool {
			cl, ok := n.(*ast.CompositeLit)
			if !ok || len(cl.Elts) == 0 {
				return true
			}
			var vals []int64
			for _, e := range cl.Elts {
				v, ok := p.eval(e, 0)
				if !ok || v < 0 {
					return true
				}
				vals = append(vals, v)
			}
			lists = append(lists, natList(vals))
			return true
		})
		fmt.Fprintf(&em.b, "def %s : List (List Nat) := [%s]\n\n", em.name(it), strings.Join(lists, ", "))
	}
	extraKinds["amd_litops"] = func(em *emitter, p *pkgInfo, it Item) {
		fd, ok := p.funcs[it.Name]
		if !ok || fd.Body == nil {
			em.fail(it, "List String", "[]", "function not found")
			return
		}
		var out []string
		lit := func(e ast.Expr) (int64, bool) {
			for {
				if pe, ok := e.(*ast.ParenExpr); ok {
					e = pe.X
					continue
				}
				break
			}
			if bl, ok := e.(*ast.BasicLit); ok && bl.Kind == token.INT {
				return p.eval(bl, 0)
			}
			if ue, ok := e.(*ast.UnaryExpr); ok && ue.Op == token.XOR { // ^1
				if bl, ok := ue.X.(*ast.BasicLit); ok && bl.Kind == token.INT {
					v, ok := p.eval(bl, 0)
					return ^v, ok
				}
			}
			return 0, false
		}
		ast.Inspect(fd.Body, func(n ast.Node) bool {
			be, ok := n.(*ast.BinaryExpr)
			if !ok {
				return true
			}
			if v, ok := lit(be.Y); ok {
				if w, ok := lit(be.X); ok {
					out = append(out, fmt.Sprintf("%d%s%d", w, be.Op, v))
				} else {
					out = append(out, fmt.Sprintf("%s%d", be.Op, v))
				}
			} else if v, ok := lit(be.X); ok {
				out = append(out, fmt.Sprintf("%d%s", v, be.Op))
			}
			return true
		})
		sort.Strings(out)
		fmt.Fprintf(&em.b, "def %s : List String := %s\n\n", em.name(it), strList(out))
	}
	extraKinds["amd_readseq"] = func(em *emitter, p *pkgInfo, it Item) {
		fd, ok := p.funcs[it.Name]
		if !ok || fd.Body == nil {
			em.fail(it, "List String", "[]", "function not found")
			return
		}
		// declared types of local `var x T`
		local := map[string]string{}
		ast.Inspect(fd.Body, func(n ast.Node) bool {
			if ds, ok := n.(*ast.DeclStmt); ok {
				if gd, ok := ds.Decl.(*ast.GenDecl); ok && gd.Tok == token.VAR {
					for _, s := range gd.Specs {
						vs := s.(*ast.ValueSpec)
						if vs.Type != nil {
							for _, nm := range vs.Names {
								local[nm.Name] = exprText(p.fset, vs.Type)
							}
						}
					}
				}
			}
			return true
		})
		var out []string
		ast.Inspect(fd.Body, func(n ast.Node) bool {
			c, ok := n.(*ast.CallExpr)
			if !ok || exprText(p.fset, c.Fun) != it.Arg || len(c.Args) < 3 {
				return true
			}
			order := exprText(p.fset, c.Args[1])
			dst := c.Args[2]
			if u, ok := dst.(*ast.UnaryExpr); ok && u.Op == token.AND {
				dst = u.X
			}
			what := "?"
			switch d := dst.(type) {
			case *ast.SelectorExpr:
				what = d.Sel.Name
			case *ast.Ident:
				if t, ok := local[d.Name]; ok {
					what = "var " + t
				} else {
					what = "local"
				}
			}
			out = append(out, order+":"+what)
			return true
		})
		fmt.Fprintf(&em.b, "def %s : List String := %s\n\n", em.name(it), strList(out))
	}

	specs = append(specs, Spec{Area: "AmdManifest", Pkg: "pkg/amd/manifest", Items: []Item{
		{Kind: "const", Name: "EmbeddedFirmwareStructureSignature"},
		{Kind: "const", Name: "PSPDirectoryTableCookie"},
		{Kind: "const", Name: "PSPDirectoryTableLevel2Cookie"},
		{Kind: "const", Name: "BIOSDirectoryTableCookie"},
		{Kind: "const", Name: "BIOSDirectoryTableLevel2Cookie"},
		{Kind: "const", Name: "PSPDirectoryTableLevel2Entry"},
		{Kind: "const", Name: "BIOSDirectoryTableLevel2Entry"},
		{Kind: "const", Name: "PSPDirectoryTableEntrySize"},
		{Kind: "const", Name: "BIOSDirectoryTableEntrySize"},
		{Kind: "const", Name: "basePhysAddr"},
		{Kind: "const", Name: "biosDirectoryChecksumDataOffset"},
		{Kind: "const", Name: "pspDirectoryChecksumDataOffset"},
		{Kind: "layout", Name: "EmbeddedFirmwareStructure"},
		{Kind: "layout", Name: "PSPDirectoryTableHeader"},
		{Kind: "layout", Name: "BIOSDirectoryTableHeader"},
		{Kind: "layout", Name: "PSPDirectoryTableEntry"},
		{Kind: "layout", Name: "BIOSDirectoryTableEntry"},
		{Kind: "amd_intlists", Name: "FindEmbeddedFirmwareStructure", As: "efs_anchor_lists"},
		{Kind: "amd_litops", Name: "FindEmbeddedFirmwareStructure", As: "litops_FindEmbeddedFirmwareStructure"},
		{Kind: "amd_readseq", Name: "ParseEmbeddedFirmwareStructure", Arg: "binary.Read", As: "readseq_ParseEFS"},
		{Kind: "amd_readseq", Name: "ParsePSPDirectoryTable", Arg: "readAndCountSize", As: "readseq_ParsePSPDirectoryTable"},
		{Kind: "amd_readseq", Name: "ParsePSPDirectoryTableEntry", Arg: "readAndCountSize", As: "readseq_ParsePSPDirectoryTableEntry"},
		{Kind: "amd_readseq", Name: "ParseBIOSDirectoryTable", Arg: "readAndCountSize", As: "readseq_ParseBIOSDirectoryTable"},
		{Kind: "amd_readseq", Name: "ParseBIOSDirectoryTableEntry", Arg: "readAndCountSize", As: "readseq_ParseBIOSDirectoryTableEntry"},
		{Kind: "amd_litops", Name: "ParsePSPDirectoryTableEntry", As: "litops_ParsePSPDirectoryTableEntry"},
		{Kind: "amd_litops", Name: "ParseBIOSDirectoryTableEntry", As: "litops_ParseBIOSDirectoryTableEntry"},
		{Kind: "amd_litops", Name: "fletcherCRC32", As: "litops_fletcherCRC32"},
	}})
	specs = append(specs, Spec{Area: "AmdPsb", Pkg: "pkg/amd/psb", Items: []Item{
		{Kind: "const", Name: "PSBSignBIOS"},
		{Kind: "const", Name: "PSPDirectoryLevel1"},
		{Kind: "const", Name: "BIOSDirectoryLevel2"},
		{Kind: "amd_litops", Name: "parsePlatformBinding", As: "litops_parsePlatformBinding"},
		{Kind: "amd_litops", Name: "parseSecurityFeatureVector", As: "litops_parseSecurityFeatureVector"},
		{Kind: "amd_litops", Name: "checkBoundaries", As: "litops_checkBoundaries"},
		{Kind: "amd_readseq", Name: "newTokenOrRootKey", Arg: "binary.Read", As: "readseq_newTokenOrRootKey"},
	}})
}
