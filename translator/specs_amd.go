package main

import (
	"fmt"
	"go/ast"
	"go/token"
	"sort"
	"strings"
)

// pkg/amd/manifest and pkg/amd/psb (property C17).
//
// Besides constants and packed layouts, three extraction kinds of this area are registered
// through extraKinds.  They are written to survive harmless rewrites (renamed locals, reworded
// errors, reordered independent statements) and to change when a constant, a mask, a shift
// direction, a field width, the byte order or the order of the reads changes:
//
//	amd_intlists  the composite literals of a function body whose elements are all foldable
//	              integers, in source order                                  -> List (List Nat)
//	amd_litops    every binary expression / compound assignment / ++ -- of a function body with an operand
//	              that folds to an integer constant (named constants resolved, constant subexpressions
//	              folded), printed as "<op><value>" (constant on the right) or "<value><op>" (on the
//	              left), sorted, with duplicates                              -> List String
//	amd_readseq   the calls of Arg (e.g. readAndCountSize, binary.Read) in a function body, in
//	              order: "<byte order>:<what>" where <what> is the field name of a `&x.Field`
//	              destination, or the declared type of a local `var` destination -> List String
func init() {
	extraKinds["amd_intlists"] = func(em *emitter, p *pkgInfo, it Item) {
		fd, ok := p.funcs[it.Name]
		if !ok || fd.Body == nil {
			em.fail(it, "List (List Nat)", "[]", "function not found")
			return
		}
		var lists []string
		ast.Inspect(fd.Body, func(n ast.Node) bool {
			cl, ok := n.(*ast.CompositeLit)
			if !ok || len(cl.Elts) == 0 {
				return true
			}
			var vals []int64
			for _, e := range cl.Elts {
				v, ok := p.eval(e, 0)
				if !ok || v < 0 {
					return true
				}
				vals = append(vals, v)
			}
			lists = append(lists, natList(vals))
			return true
		})
		fmt.Fprintf(&em.b, "def %s : List (List Nat) := [%s]\n\n", em.name(it), strings.Join(lists, ", "))
	}
	extraKinds["amd_litops"] = func(em *emitter, p *pkgInfo, it Item) {
		fd, ok := p.funcs[it.Name]
		if !ok || fd.Body == nil {
			em.fail(it, "List String", "[]", "function not found")
			return
		}
		// Normal form (round 3), so that value-preserving rewrites give the same inventory: an operand counts as a
		// literal when it FOLDS to an integer constant (literals, named package constants, parenthesised /
		// unary / binary combinations of those, conversions to a basic integer type); a binary expression that
		// folds as a whole is an operand, not an operation (`360*2` and a constant `blockBytes = 360*2` both
		// read 720); `x op= c` counts like `x = x op c`, and `x++` / `x--` like `x += 1` / `x -= 1`.
		basic := map[string]bool{"int": true, "int8": true, "int16": true, "int32": true, "int64": true, "uint": true,
			"uint8": true, "uint16": true, "uint32": true, "uint64": true, "uintptr": true, "byte": true}
		locals := map[string]bool{} // names declared inside the function shadow package constants
		ast.Inspect(fd, func(n ast.Node) bool {
			switch x := n.(type) {
			case *ast.AssignStmt:
				if x.Tok == token.DEFINE {
					for _, l := range x.Lhs {
						if id, ok := l.(*ast.Ident); ok {
							locals[id.Name] = true
						}
					}
				}
			case *ast.ValueSpec:
				for _, id := range x.Names {
					locals[id.Name] = true
				}
			case *ast.Field:
				for _, id := range x.Names {
					locals[id.Name] = true
				}
			case *ast.RangeStmt:
				for _, e := range []ast.Expr{x.Key, x.Value} {
					if id, ok := e.(*ast.Ident); ok {
						locals[id.Name] = true
					}
				}
			}
			return true
		})
		var pure func(e ast.Expr) bool
		pure = func(e ast.Expr) bool {
			switch x := e.(type) {
			case *ast.BasicLit:
				return x.Kind == token.INT || x.Kind == token.CHAR
			case *ast.Ident:
				return !locals[x.Name]
			case *ast.ParenExpr:
				return pure(x.X)
			case *ast.UnaryExpr:
				return pure(x.X)
			case *ast.BinaryExpr:
				return pure(x.X) && pure(x.Y)
			case *ast.CallExpr:
				id, ok := x.Fun.(*ast.Ident)
				return ok && basic[id.Name] && len(x.Args) == 1 && pure(x.Args[0])
			}
			return false
		}
		lit := func(e ast.Expr) (int64, bool) {
			if !pure(e) {
				return 0, false
			}
			return p.eval(e, 0)
		}
		var out []string
		ast.Inspect(fd.Body, func(n ast.Node) bool {
			switch x := n.(type) {
			case *ast.BinaryExpr:
				if _, ok := lit(x); ok {
					return false // a constant as a whole: an operand of whatever uses it
				}
				if v, ok := lit(x.Y); ok {
					out = append(out, fmt.Sprintf("%s%d", x.Op, v))
				} else if v, ok := lit(x.X); ok {
					out = append(out, fmt.Sprintf("%d%s", v, x.Op))
				}
			case *ast.AssignStmt:
				if x.Tok != token.ASSIGN && x.Tok != token.DEFINE && len(x.Rhs) == 1 {
					if v, ok := lit(x.Rhs[0]); ok {
						out = append(out, fmt.Sprintf("%s%d", strings.TrimSuffix(x.Tok.String(), "="), v))
					}
				}
			case *ast.IncDecStmt:
				if x.Tok == token.INC {
					out = append(out, "+1")
				} else {
					out = append(out, "-1")
				}
			}
			return true
		})
		sort.Strings(out)
		fmt.Fprintf(&em.b, "def %s : List String := %s\n\n", em.name(it), strList(out))
	}
	extraKinds["amd_readseq"] = func(em *emitter, p *pkgInfo, it Item) {
		fd, ok := p.funcs[it.Name]
		if !ok || fd.Body == nil {
			em.fail(it, "List String", "[]", "function not found")
			return
		}
		// declared types of local `var x T`
		local := map[string]string{}
		ast.Inspect(fd.Body, func(n ast.Node) bool {
			if ds, ok := n.(*ast.DeclStmt); ok {
				if gd, ok := ds.Decl.(*ast.GenDecl); ok && gd.Tok == token.VAR {
					for _, s := range gd.Specs {
						vs := s.(*ast.ValueSpec)
						if vs.Type != nil {
							for _, nm := range vs.Names {
								local[nm.Name] = exprText(p.fset, vs.Type)
							}
						}
					}
				}
			}
			return true
		})
		var out []string
		ast.Inspect(fd.Body, func(n ast.Node) bool {
			c, ok := n.(*ast.CallExpr)
			if !ok || exprText(p.fset, c.Fun) != it.Arg || len(c.Args) < 3 {
				return true
			}
			order := exprText(p.fset, c.Args[1])
			dst := c.Args[2]
			if u, ok := dst.(*ast.UnaryExpr); ok && u.Op == token.AND {
				dst = u.X
			}
			what := "?"
			switch d := dst.(type) {
			case *ast.SelectorExpr:
				what = d.Sel.Name
			case *ast.Ident:
				if t, ok := local[d.Name]; ok {
					what = "var " + t
				} else {
					what = "local"
				}
			}
			out = append(out, order+":"+what)
			return true
		})
		fmt.Fprintf(&em.b, "def %s : List String := %s\n\n", em.name(it), strList(out))
	}

	specs = append(specs, Spec{Area: "AmdManifest", Pkg: "pkg/amd/manifest", Items: []Item{
		{Kind: "const", Name: "EmbeddedFirmwareStructureSignature"},
		{Kind: "const", Name: "PSPDirectoryTableCookie"},
		{Kind: "const", Name: "PSPDirectoryTableLevel2Cookie"},
		{Kind: "const", Name: "BIOSDirectoryTableCookie"},
		{Kind: "const", Name: "BIOSDirectoryTableLevel2Cookie"},
		{Kind: "const", Name: "PSPDirectoryTableLevel2Entry"},
		{Kind: "const", Name: "BIOSDirectoryTableLevel2Entry"},
		{Kind: "const", Name: "PSPDirectoryTableEntrySize"},
		{Kind: "const", Name: "BIOSDirectoryTableEntrySize"},
		{Kind: "const", Name: "basePhysAddr"},
		{Kind: "const", Name: "biosDirectoryChecksumDataOffset"},
		{Kind: "const", Name: "pspDirectoryChecksumDataOffset"},
		{Kind: "layout", Name: "EmbeddedFirmwareStructure"},
		{Kind: "layout", Name: "PSPDirectoryTableHeader"},
		{Kind: "layout", Name: "BIOSDirectoryTableHeader"},
		{Kind: "layout", Name: "PSPDirectoryTableEntry"},
		{Kind: "layout", Name: "BIOSDirectoryTableEntry"},
		{Kind: "amd_intlists", Name: "FindEmbeddedFirmwareStructure", As: "efs_anchor_lists"},
		{Kind: "amd_litops", Name: "FindEmbeddedFirmwareStructure", As: "litops_FindEmbeddedFirmwareStructure"},
		{Kind: "amd_readseq", Name: "ParseEmbeddedFirmwareStructure", Arg: "binary.Read", As: "readseq_ParseEFS"},
		{Kind: "amd_readseq", Name: "ParsePSPDirectoryTable", Arg: "readAndCountSize", As: "readseq_ParsePSPDirectoryTable"},
		{Kind: "amd_readseq", Name: "ParsePSPDirectoryTableEntry", Arg: "readAndCountSize", As: "readseq_ParsePSPDirectoryTableEntry"},
		{Kind: "amd_readseq", Name: "ParseBIOSDirectoryTable", Arg: "readAndCountSize", As: "readseq_ParseBIOSDirectoryTable"},
		{Kind: "amd_readseq", Name: "ParseBIOSDirectoryTableEntry", Arg: "readAndCountSize", As: "readseq_ParseBIOSDirectoryTableEntry"},
		{Kind: "amd_litops", Name: "ParsePSPDirectoryTableEntry", As: "litops_ParsePSPDirectoryTableEntry"},
		{Kind: "amd_litops", Name: "ParseBIOSDirectoryTableEntry", As: "litops_ParseBIOSDirectoryTableEntry"},
		{Kind: "amd_litops", Name: "fletcherCRC32", As: "litops_fletcherCRC32"},
	}})
	specs = append(specs, Spec{Area: "AmdPsb", Pkg: "pkg/amd/psb", Items: []Item{
		{Kind: "const", Name: "PSBSignBIOS"},
		{Kind: "const", Name: "PSPDirectoryLevel1"},
		{Kind: "const", Name: "BIOSDirectoryLevel2"},
		{Kind: "amd_litops", Name: "parsePlatformBinding", As: "litops_parsePlatformBinding"},
		{Kind: "amd_litops", Name: "parseSecurityFeatureVector", As: "litops_parseSecurityFeatureVector"},
		{Kind: "amd_litops", Name: "checkBoundaries", As: "litops_checkBoundaries"},
		{Kind: "amd_readseq", Name: "newTokenOrRootKey", Arg: "binary.Read", As: "readseq_newTokenOrRootKey"},
	}})
}
