package main

// loopfn: translate a Go function *with loops over byte slices* into Lean definitions (tie T1,
// "code as code").  Extends kind `exprfn` (straight-line integer code) to:
//
//   parameters   []byte (→ List UInt8), uint8…uint64, uint (→ UInt64), int / int64 (→ Int), bool,
//                *uintN (in/out: the final value is returned as an extra result), [N]byte, named
//                types with such an underlying type; a value or pointer receiver of such a type is
//                the first parameter
//   results      any of the above, `error` (→ GoRt.Error, nil-ness only), several results (→ tuple),
//                named results, a struct whose fields are all scalars (→ tuple in field order); a
//                function that writes elements of a []byte parameter returns the new contents as
//                an extra result
//   statements   := = op= ++ -- var, tuple assignment, b[i] = e, *p = e, if / else / else-if with
//                init, blocks, for (three-clause, condition-only, infinite), for-range over a slice
//                (key and/or value), break, continue, return (anywhere), copy, panic,
//                err := binary.Read(r, order, &v) on r := bytes.NewReader(b)
//   expressions  everything of exprfn plus len, b[i], b[lo:hi], binary.{Little,Big}Endian.UintN,
//                bytes.Equal, bytes.Index (first occurrence, GoRt.index), make([]byte, n), []byte("lit"), variable shift counts, calls of
//                functions translated earlier in the same area, package-level byte-string
//                variables and integer tables that no function of the package assigns (inlined;
//                a table lookup is an Option like every index), struct literals of scalar
//                structs, declared ambient inputs
//
// Go `int` / `int64` become Lean's unbounded `Int` (assumption A-int of reports/T1X.md: exact as
// long as no intermediate value leaves the int64 range; `/` `%` are Go's truncating operators,
// `& | ^ &^` infinite-precision two's complement).  `uint` is 64 bit.
//
// Shape of the output (readable Lean, see lean/FianoModel/CodeTie/GoRt.lean for the run time):
//   * a range loop over a slice that is not written in its body → structural recursion on the list
//     (`List.foldl` when the body has no jump, no effect and no index variable);
//   * every other loop → a recursive helper `fn_F.loopK` with explicit fuel (running out = `none`);
//   * every index / slice expression is an explicit `Option` (`none` = Go panics): nothing is
//     assumed about guards — a tie theorem `Gen.fn x = some (model x)` proves them sufficient.
//
// Anything outside the subset is an extraction failure (reported in Gen/report.json → T1 broken).
//
// Item.Arg is a `;`-separated option list:
//   fuelK=<Go expr>        fuel of loop K (numbered in source order) evaluated at loop entry; default
//                          for `for …; a < b; …` is b-a+1 (a > b: a-b+1; <=, >=: +2)
//   in=<expr>:<type>,…     ambient inputs: every occurrence of the expression text (a package
//                          variable, a field chain, a call) becomes an extra parameter
//   from=<text>;to=<text>  translate only the statements of the body from the first one whose
//                          text starts with <from> to the first later one starting with <to>
//                          (a *fragment*); free variables must be declared with in=, results with
//   out=<var>,…            the variables whose final values the fragment returns

import (
	"fmt"
	"go/ast"
	"go/token"
	"sort"
	"strconv"
	"strings"
)

const (
	tU8     = "UInt8"
	tU16    = "UInt16"
	tU32    = "UInt32"
	tU64    = "UInt64"
	tInt    = "Int"
	tBool   = "Bool"
	tBytes  = "Bytes"
	tErr    = "Error"
	tReader = "Reader"
)

func isUns(t string) bool { return t == tU8 || t == tU16 || t == tU32 || t == tU64 }
func isNum(t string) bool { return isUns(t) || t == tInt }

// Lean spelling of an internal type
// tupleFields: "Struct:T1,T2,…" (a Go struct of scalar fields, translated to a tuple in field order)
func tupleFields(t string) []string {
	return strings.Split(strings.TrimPrefix(t, "Struct:"), ",")
}

func leanTy(t string) string {
	if strings.HasPrefix(t, "Struct:") {
		var ts []string
		for _, f := range tupleFields(t) {
			ts = append(ts, leanTy(f))
		}
		return "(" + strings.Join(ts, " × ") + ")"
	}
	switch t {
	case tBytes, tReader:
		return "List UInt8"
	case tErr:
		return "GoRt.Error"
	}
	return t
}

type lvar struct {
	goName string
	lean   string
	typ    string
	ptr    bool // *T parameter
	seq    int  // declaration order
	depth  int
	arrLen int // >0: fixed-size array of that length
	rdrOf  string
}

type loopCtx struct {
	name    string
	call    func() []string // lines that continue with the next iteration (post + recursive call)
	state   []*lvar
	hasRet  bool
	noFall  bool
	depth   int
	keyName string
}

type fnSig struct {
	lean    string
	params  []string // internal types
	results []string // internal types of the declared results
	opt     bool
	extra   int // number of extra outputs (mutated params) — calls of such functions are not supported
}

type lctx struct {
	p       *pkgInfo
	it      Item
	fname   string
	scopes  []map[string]*lvar
	seq     int
	opt     bool // the unit being emitted (function body / loop helper) is Option-valued
	err     string
	known   map[string]*fnSig
	helpers []string
	loopN   int
	retTy   string   // Lean type of the function result (without Option)
	resTys  []string // internal types of declared results
	named   []*lvar  // named results
	outs    []*lvar  // extra outputs: mutated []byte params, pointer params, fragment outs
	cur     *loopCtx
	fuel    map[int]string
	ambient map[string]*lvar // normalised expression text -> parameter
	used    map[string]bool  // Lean names in use
	noRes   bool             // no declared results (procedure / fragment)
	tmpN    int
}

func (c *lctx) fail(format string, a ...interface{}) {
	if c.err == "" {
		c.err = fmt.Sprintf(format, a...)
	}
}

var leanKeywords = map[string]bool{"end": true, "at": true, "from": true, "fun": true, "open": true, "in": true,
	"then": true, "do": true, "match": true, "with": true, "let": true, "have": true, "show": true, "by": true,
	"where": true, "def": true, "theorem": true, "instance": true, "namespace": true, "section": true,
	"variable": true, "universe": true, "local": true, "private": true, "mutual": true, "deriving": true,
	"structure": true, "class": true, "inductive": true, "abbrev": true, "example": true, "export": true,
	"import": true, "prefix": true, "infix": true, "notation": true, "macro": true, "syntax": true,
	"set_option": true, "using": true, "fuel_": true, "xs_": true, "r_": true, "n_": true, "Type": true,
	"Prop": true, "Sort": true, "some": true, "none": true, "pure": true, "true": true, "false": true,
	"if": true, "else": true, "for": true, "return": true, "break": true, "continue": true, "mut": true,
	"try": true, "catch": true, "finally": true, "unless": true, "nomatch": true, "nofun": true, "calc": true,
	"suffices": true, "obtain": true, "attribute": true, "elab": true, "termination_by": true, "decreasing_by": true}

func (c *lctx) push() { c.scopes = append(c.scopes, map[string]*lvar{}) }
func (c *lctx) popTo(depth int) {
	if len(c.scopes) > depth {
		c.scopes = c.scopes[:depth]
	}
}

type envSave struct {
	scopes []map[string]*lvar
}

func (c *lctx) saveEnv() envSave {
	var s envSave
	for _, m := range c.scopes {
		n := map[string]*lvar{}
		for k, v := range m {
			n[k] = v
		}
		s.scopes = append(s.scopes, n)
	}
	return s
}

func (c *lctx) restoreEnv(s envSave) {
	c.scopes = nil
	for _, m := range s.scopes {
		n := map[string]*lvar{}
		for k, v := range m {
			n[k] = v
		}
		c.scopes = append(c.scopes, n)
	}
}

func (c *lctx) lookup(name string) *lvar {
	for i := len(c.scopes) - 1; i >= 0; i-- {
		if v, ok := c.scopes[i][name]; ok {
			return v
		}
	}
	return nil
}

func (c *lctx) declare(name, typ string) *lvar {
	lean := name
	if leanKeywords[lean] || strings.HasPrefix(lean, "fn_") {
		lean += "_"
	}
	if c.lookup(name) != nil || c.used[lean] && c.lookupLean(lean) {
		// shadowing declaration in an inner scope: fresh Lean name so that code duplicated after the
		// inner block still sees the outer variable
		for k := 1; ; k++ {
			cand := fmt.Sprintf("%s_%d", name, k)
			if !c.used[cand] {
				lean = cand
				break
			}
		}
	}
	c.used[lean] = true
	c.seq++
	v := &lvar{goName: name, lean: lean, typ: typ, seq: c.seq, depth: len(c.scopes)}
	if name != "_" {
		c.scopes[len(c.scopes)-1][name] = v
	}
	return v
}

// lookupLean: is a variable with this Lean name visible right now?
func (c *lctx) lookupLean(lean string) bool {
	for _, m := range c.scopes {
		for _, v := range m {
			if v.lean == lean {
				return true
			}
		}
	}
	return false
}

// goType resolves a Go type expression to an internal type ("" = unsupported)
func (c *lctx) goType(e ast.Expr) (typ string, arrLen int, ptr bool) {
	switch t := e.(type) {
	case *ast.Ident:
		switch t.Name {
		case "uint8", "byte":
			return tU8, 0, false
		case "uint16":
			return tU16, 0, false
		case "uint32":
			return tU32, 0, false
		case "uint64", "uint", "uintptr":
			return tU64, 0, false
		case "int", "int64":
			return tInt, 0, false
		case "bool":
			return tBool, 0, false
		case "error":
			return tErr, 0, false
		}
		if u, ok := c.p.types[t.Name]; ok {
			return c.goType(u)
		}
	case *ast.ArrayType:
		et, _, _ := c.goType(t.Elt)
		if et != tU8 {
			return "", 0, false
		}
		if t.Len == nil {
			return tBytes, 0, false
		}
		if n, ok := c.p.eval(t.Len, 0); ok && n > 0 {
			return tBytes, int(n), false
		}
	case *ast.StructType:
		var fs []string
		for _, f := range t.Fields.List {
			ft, _, ptr := c.goType(f.Type)
			if ptr || !(isNum(ft) || ft == tBool) || len(f.Names) == 0 {
				return "", 0, false
			}
			for range f.Names {
				fs = append(fs, ft)
			}
		}
		if len(fs) >= 2 {
			return "Struct:" + strings.Join(fs, ","), 0, false
		}
	case *ast.StarExpr:
		bt, _, _ := c.goType(t.X)
		if isUns(bt) || bt == tInt || bt == tBool {
			return bt, 0, true
		}
	case *ast.Ellipsis:
		return "", 0, false
	}
	return "", 0, false
}

func parseTypeName(s string) string {
	switch strings.TrimSpace(s) {
	case "uint8", "byte":
		return tU8
	case "uint16":
		return tU16
	case "uint32":
		return tU32
	case "uint64", "uint":
		return tU64
	case "int", "int64":
		return tInt
	case "bool":
		return tBool
	case "[]byte", "[]uint8":
		return tBytes
	case "error":
		return tErr
	}
	return ""
}

// ---------------------------------------------------------------- syntactic analyses

// walkScoped visits the statements of a loop / branch and reports, for every identifier that is
// assigned (onAssign) or read (onRead), its name — but only when the name is not declared by an
// enclosing scope *inside* the visited code.
type scopeWalker struct {
	c        *lctx
	local    []map[string]bool
	onAssign func(name string)
	onRead   func(name string)
	onText   func(e ast.Expr) bool // ambient expression? (then not descended)
}

func (w *scopeWalker) isLocal(n string) bool {
	for i := len(w.local) - 1; i >= 0; i-- {
		if w.local[i][n] {
			return true
		}
	}
	return false
}
func (w *scopeWalker) decl(n string) { w.local[len(w.local)-1][n] = true }
func (w *scopeWalker) push()         { w.local = append(w.local, map[string]bool{}) }
func (w *scopeWalker) pop()          { w.local = w.local[:len(w.local)-1] }

func (w *scopeWalker) read(e ast.Expr) {
	if e == nil {
		return
	}
	if w.onText != nil && w.onText(e) {
		return
	}
	switch x := e.(type) {
	case *ast.Ident:
		if !w.isLocal(x.Name) && w.onRead != nil {
			w.onRead(x.Name)
		}
	case *ast.BasicLit:
	case *ast.ParenExpr:
		w.read(x.X)
	case *ast.UnaryExpr:
		w.read(x.X)
	case *ast.StarExpr:
		w.read(x.X)
	case *ast.BinaryExpr:
		w.read(x.X)
		w.read(x.Y)
	case *ast.IndexExpr:
		w.read(x.X)
		w.read(x.Index)
	case *ast.SliceExpr:
		w.read(x.X)
		w.read(x.Low)
		w.read(x.High)
		w.read(x.Max)
	case *ast.SelectorExpr:
		// pkg.Name or field chain: only the root identifier can be a variable
		w.read(x.X)
	case *ast.CallExpr:
		if name := callName(x); name == "binary.Read" && len(x.Args) == 3 {
			// assigns the reader and the target
			if id, ok := x.Args[0].(*ast.Ident); ok {
				w.assignName(id.Name)
				w.read(id)
			}
			if u, ok := x.Args[2].(*ast.UnaryExpr); ok && u.Op == token.AND {
				if id, ok := u.X.(*ast.Ident); ok {
					w.assignName(id.Name)
					w.read(id)
				}
			}
			return
		} else if name == "copy" && len(x.Args) == 2 {
			if id, ok := x.Args[0].(*ast.Ident); ok {
				w.assignName(id.Name)
			}
		}
		if _, ok := x.Fun.(*ast.Ident); !ok {
			w.read(x.Fun)
		}
		for _, a := range x.Args {
			w.read(a)
		}
	case *ast.CompositeLit:
		for _, el := range x.Elts {
			w.read(el)
		}
	case *ast.KeyValueExpr:
		w.read(x.Value)
	}
}

func (w *scopeWalker) assignName(n string) {
	if n != "_" && !w.isLocal(n) && w.onAssign != nil {
		w.onAssign(n)
	}
}

func (w *scopeWalker) assignTo(e ast.Expr) {
	switch x := e.(type) {
	case *ast.Ident:
		w.assignName(x.Name)
	case *ast.IndexExpr:
		w.read(x.Index)
		if id, ok := x.X.(*ast.Ident); ok {
			w.assignName(id.Name)
			w.read(id)
		} else {
			w.read(x.X)
		}
	case *ast.StarExpr:
		if id, ok := x.X.(*ast.Ident); ok {
			w.assignName(id.Name)
		}
	case *ast.ParenExpr:
		w.assignTo(x.X)
	}
}

func (w *scopeWalker) stmt(s ast.Stmt) {
	switch x := s.(type) {
	case nil:
	case *ast.AssignStmt:
		for _, r := range x.Rhs {
			w.read(r)
		}
		if x.Tok == token.DEFINE {
			for _, l := range x.Lhs {
				if id, ok := l.(*ast.Ident); ok {
					// `a, b := …` may re-assign an existing variable of the *same* scope; inside the
					// visited code that can only be a local one, so declaring is right
					w.decl(id.Name)
				}
			}
		} else {
			for _, l := range x.Lhs {
				if x.Tok != token.ASSIGN {
					w.read(l)
				}
				w.assignTo(l)
			}
		}
	case *ast.IncDecStmt:
		w.read(x.X)
		w.assignTo(x.X)
	case *ast.DeclStmt:
		if gd, ok := x.Decl.(*ast.GenDecl); ok {
			for _, sp := range gd.Specs {
				if vs, ok := sp.(*ast.ValueSpec); ok {
					for _, v := range vs.Values {
						w.read(v)
					}
					for _, n := range vs.Names {
						w.decl(n.Name)
					}
				}
			}
		}
	case *ast.ExprStmt:
		w.read(x.X)
	case *ast.ReturnStmt:
		for _, r := range x.Results {
			w.read(r)
		}
	case *ast.BlockStmt:
		w.push()
		for _, t := range x.List {
			w.stmt(t)
		}
		w.pop()
	case *ast.IfStmt:
		w.push()
		w.stmt(x.Init)
		w.read(x.Cond)
		w.stmt(x.Body)
		if x.Else != nil {
			w.stmt(x.Else)
		}
		w.pop()
	case *ast.ForStmt:
		w.push()
		w.stmt(x.Init)
		w.read(x.Cond)
		w.stmt(x.Body)
		w.stmt(x.Post)
		w.pop()
	case *ast.RangeStmt:
		w.read(x.X)
		w.push()
		if x.Tok == token.DEFINE {
			if id, ok := x.Key.(*ast.Ident); ok {
				w.decl(id.Name)
			}
			if id, ok := x.Value.(*ast.Ident); ok {
				w.decl(id.Name)
			}
		} else {
			if x.Key != nil {
				w.assignTo(x.Key)
			}
			if x.Value != nil {
				w.assignTo(x.Value)
			}
		}
		w.stmt(x.Body)
		w.pop()
	case *ast.BranchStmt, *ast.EmptyStmt:
	case *ast.LabeledStmt:
		w.stmt(x.Stmt)
	case *ast.SwitchStmt:
		w.push()
		w.stmt(x.Init)
		w.read(x.Tag)
		w.stmt(x.Body)
		w.pop()
	case *ast.CaseClause:
		for _, e := range x.List {
			w.read(e)
		}
		w.push()
		for _, t := range x.Body {
			w.stmt(t)
		}
		w.pop()
	}
}

func callName(x *ast.CallExpr) string {
	switch f := x.Fun.(type) {
	case *ast.Ident:
		return f.Name
	case *ast.SelectorExpr:
		var parts []string
		var e ast.Expr = f
		for {
			if s, ok := e.(*ast.SelectorExpr); ok {
				parts = append([]string{s.Sel.Name}, parts...)
				e = s.X
				continue
			}
			if id, ok := e.(*ast.Ident); ok {
				parts = append([]string{id.Name}, parts...)
			}
			break
		}
		return strings.Join(parts, ".")
	}
	return ""
}

// assignedAndRead: the outer variables (visible now) assigned / referenced by the statements
func (c *lctx) assignedAndRead(stmts ...ast.Stmt) (assigned, read []*lvar) {
	am, rm := map[*lvar]bool{}, map[*lvar]bool{}
	w := &scopeWalker{c: c}
	w.push()
	w.onAssign = func(n string) {
		if v := c.lookup(n); v != nil {
			am[v] = true
		}
	}
	w.onRead = func(n string) {
		if v := c.lookup(n); v != nil {
			rm[v] = true
		}
	}
	w.onText = func(e ast.Expr) bool {
		switch e.(type) {
		case *ast.SelectorExpr, *ast.CallExpr:
			if v, ok := c.ambient[exprText(c.p.fset, e)]; ok {
				rm[v] = true
				return true
			}
		}
		return false
	}
	for _, s := range stmts {
		w.stmt(s)
	}
	for v := range am {
		assigned = append(assigned, v)
	}
	for v := range rm {
		read = append(read, v)
	}
	sort.Slice(assigned, func(i, j int) bool { return assigned[i].seq < assigned[j].seq })
	sort.Slice(read, func(i, j int) bool { return read[i].seq < read[j].seq })
	return
}

// jumps at the level of the current loop: return anywhere, break / continue not inside a nested loop
func mayJump(n ast.Node) (ret, brk, cont bool) {
	var walk func(n ast.Node, inLoop bool)
	walk = func(n ast.Node, inLoop bool) {
		ast.Inspect(n, func(m ast.Node) bool {
			switch x := m.(type) {
			case *ast.ReturnStmt:
				ret = true
			case *ast.BranchStmt:
				if !inLoop {
					if x.Tok == token.BREAK {
						brk = true
					} else if x.Tok == token.CONTINUE {
						cont = true
					}
				}
			case *ast.ForStmt:
				if m != n {
					walk(x.Body, true)
					return false
				}
			case *ast.RangeStmt:
				if m != n {
					walk(x.Body, true)
					return false
				}
			case *ast.CallExpr:
				if callName(x) == "panic" {
					// a panic ends the path but is an effect, not a jump
				}
			case *ast.FuncLit:
				return false
			}
			return true
		})
	}
	walk(n, false)
	return
}

func anyJump(n ast.Node) bool {
	if n == nil {
		return false
	}
	r, b, c := mayJump(n)
	return r || b || c
}

// alwaysJumps: every path through the statement list ends in return / break / continue / panic
func alwaysJumps(list []ast.Stmt) bool {
	if len(list) == 0 {
		return false
	}
	switch x := list[len(list)-1].(type) {
	case *ast.ReturnStmt, *ast.BranchStmt:
		return true
	case *ast.ExprStmt:
		if ce, ok := x.X.(*ast.CallExpr); ok && callName(ce) == "panic" {
			return true
		}
	case *ast.BlockStmt:
		return alwaysJumps(x.List)
	case *ast.IfStmt:
		if x.Else == nil {
			return false
		}
		var el []ast.Stmt
		switch e := x.Else.(type) {
		case *ast.BlockStmt:
			el = e.List
		case *ast.IfStmt:
			el = []ast.Stmt{e}
		}
		return alwaysJumps(x.Body.List) && alwaysJumps(el)
	case *ast.ForStmt:
		// an infinite loop without break never falls through
		if x.Cond == nil {
			_, b, _ := mayJump(x.Body)
			return !b
		}
	}
	return false
}

// effectful: does emitting this code need the Option monad?
func (c *lctx) effectful(n ast.Node) bool {
	if n == nil {
		return false
	}
	eff := false
	ast.Inspect(n, func(m ast.Node) bool {
		if eff {
			return false
		}
		switch x := m.(type) {
		case *ast.IndexExpr:
			_ = x
			eff = true
		case *ast.SliceExpr:
			eff = true
		case *ast.ForStmt:
			eff = true
		case *ast.RangeStmt:
			if c.rangeWritten(x) {
				eff = true
			}
		case *ast.CallExpr:
			name := callName(x)
			switch {
			case name == "panic":
				eff = true
			case strings.HasPrefix(name, "binary.LittleEndian.") || strings.HasPrefix(name, "binary.BigEndian."):
				eff = true
			case name == "make":
				if len(x.Args) == 2 && !c.nonNegative(x.Args[1]) {
					eff = true
				}
			default:
				if s, ok := c.known[name]; ok && s.opt {
					eff = true
				}
			}
		case *ast.FuncLit:
			return false
		}
		return true
	})
	return eff
}

// nonNegative: syntactically never negative (len, unsigned conversion, constant ≥ 0)
func (c *lctx) nonNegative(e ast.Expr) bool {
	if v, ok := c.constOf(e); ok {
		return v >= 0
	}
	switch x := e.(type) {
	case *ast.ParenExpr:
		return c.nonNegative(x.X)
	case *ast.CallExpr:
		if callName(x) == "len" {
			return true
		}
	}
	if t := c.typeOf(e); isUns(t) {
		return true
	}
	return false
}

// constArrayIndex: a[k] on a fixed-size array with a constant in-range index (cannot panic)
func (c *lctx) constArrayIndex(x *ast.IndexExpr) bool {
	id, ok := x.X.(*ast.Ident)
	if !ok {
		return false
	}
	v := c.lookup(id.Name)
	if v == nil || v.arrLen == 0 {
		return false
	}
	k, ok := c.constOf(x.Index)
	return ok && k >= 0 && int(k) < v.arrLen
}

// rangeWritten: does the body of the range loop write the slice it ranges over?
func (c *lctx) rangeWritten(x *ast.RangeStmt) bool {
	id, ok := x.X.(*ast.Ident)
	if !ok {
		return false
	}
	written := false
	w := &scopeWalker{c: c}
	w.push()
	w.onAssign = func(n string) {
		if n == id.Name {
			written = true
		}
	}
	w.stmt(x.Body)
	return written
}

// constOf: the value of a constant expression (no local variable involved)
func (c *lctx) constOf(e ast.Expr) (int64, bool) {
	local := false
	ast.Inspect(e, func(n ast.Node) bool {
		switch x := n.(type) {
		case *ast.Ident:
			if c.lookup(x.Name) != nil {
				local = true
			}
		case *ast.SelectorExpr:
			if _, ok := c.ambient[exprText(c.p.fset, x)]; ok {
				local = true
			}
			return false
		case *ast.CallExpr:
			if _, ok := c.ambient[exprText(c.p.fset, x)]; ok {
				local = true
			}
			// only conversions and len("…") fold; any other call is not a constant
			name := callName(x)
			if t, _, _ := c.goType(x.Fun); t == "" && name != "len" {
				local = true
			}
		}
		return true
	})
	if local {
		return 0, false
	}
	if v, ok := c.p.eval(e, 0); ok {
		return v, true
	}
	if sel, ok := e.(*ast.SelectorExpr); ok {
		fc := &fnCtx{p: c.p}
		return fc.constValue(sel)
	}
	// binary / unary / paren / conversion with a pkg.Const inside
	switch x := e.(type) {
	case *ast.ParenExpr:
		return c.constOf(x.X)
	case *ast.BinaryExpr:
		a, ok1 := c.constOf(x.X)
		b, ok2 := c.constOf(x.Y)
		if ok1 && ok2 {
			tmp := &ast.BinaryExpr{X: &ast.BasicLit{Kind: token.INT, Value: strconv.FormatInt(a, 10)}, Op: x.Op,
				Y: &ast.BasicLit{Kind: token.INT, Value: strconv.FormatInt(b, 10)}}
			if a < 0 || b < 0 {
				return 0, false
			}
			return c.p.eval(tmp, 0)
		}
	}
	return 0, false
}
