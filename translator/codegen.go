// codegen.go — extractor for the Boot Guard / CBnT manifest codecs (property C15).
//
// For every structure that has a checked-in generated codec (`func (s *T) ReadFrom` in a
// *_manifestcodegen.go file of the packages listed in manifestPkgs) two independent descriptions
// are regenerated as plain Lean data of the types of FianoModel/Manifest/Syntax.lean:
//
//	codec_<pkg>_<T> : GCodec   what the *statements* of the generated methods do
//	                           (ReadFrom / ReadDataFrom, WriteTo, <F>TotalSize, <F>Offset, TotalSize,
//	                           Rehash, New<T>, and for element containers the dispatch loop);
//	                           pattern-matched on the go/printer-normalised statement texts — never on
//	                           the "ManifestFieldType" comments, and blind to error message texts
//	decl_<pkg>_<T>  : GDecl    the hand-written struct declaration: resolved field types and tags
//
// plus the hand-written helper functions those refer to: the length functions named by
// `countValue` tags (translated from their bodies into CExpr) and the `rehashed…()` functions
// named by `rehashValue` tags (translated into rehash rules).
//
// Anything that stops matching is reported through Gen/report.json (tie T1 broken) and emitted
// as an empty value so that the Lean project still elaborates up to the Tie theorems.
package main

import (
	"fmt"
	"go/ast"
	"go/parser"
	"go/token"
	"path/filepath"
	"reflect"
	"regexp"
	"sort"
	"strconv"
	"strings"
)

var manifestPkgs = []string{
	"pkg/intel/metadata/bg",
	"pkg/intel/metadata/bg/bgbootpolicy",
	"pkg/intel/metadata/bg/bgkey",
	"pkg/intel/metadata/cbnt",
	"pkg/intel/metadata/cbnt/cbntbootpolicy",
	"pkg/intel/metadata/cbnt/cbntkey",
}

// The extraction kind of this file is registered through extraKinds (declared in specs_uefi.go,
// dispatched from the default case of emitter.emit in main.go).
func init() {
	extraKinds["manifestcodecs"] = emitManifestCodecs
}

// ------------------------------------------------------------------ small helpers

type xfail struct{ msg string }

func failf(format string, a ...interface{}) { panic(xfail{fmt.Sprintf(format, a...)}) }

// try runs f; an extraction failure inside (failf) is returned as a string.
func try(f func()) (why string) {
	defer func() {
		if r := recover(); r != nil {
			if x, ok := r.(xfail); ok {
				why = x.msg
				return
			}
			why = fmt.Sprint("internal: ", r)
		}
	}()
	f()
	return ""
}

var reStr = regexp.MustCompile(`"(?:[^"\\]|\\.)*"`)
var reErrf = regexp.MustCompile(`fmt\.Errorf\([^()]*(?:\([^()]*\)[^()]*)*\)`)

// blur removes what must not matter: string literal contents and fmt.Errorf arguments.
func blur(s string) string {
	s = reStr.ReplaceAllString(s, `"…"`)
	return reErrf.ReplaceAllString(s, "fmt.Errorf(…)")
}

func (p *pkgInfo) short() string { return filepath.Base(p.dir) }

func (p *pkgInfo) qual(name string) string { return p.short() + "." + name }

// otherPkg resolves a package alias used in p to the fiano package it names.
func (p *pkgInfo) otherPkg(alias string) *pkgInfo {
	for _, f := range p.files {
		if dir := p.importDir(f, alias); dir != "" {
			q, err := loadPkg(dir)
			if err != nil {
				failf("cannot load %s: %v", dir, err)
			}
			return q
		}
	}
	return nil
}

// stringConst finds a package-level string constant.
func (p *pkgInfo) stringConst(name string) (string, bool) {
	for _, f := range p.files {
		for _, d := range f.Decls {
			gd, ok := d.(*ast.GenDecl)
			if !ok || gd.Tok != token.CONST {
				continue
			}
			for _, s := range gd.Specs {
				vs := s.(*ast.ValueSpec)
				for i, n := range vs.Names {
					if n.Name == name && i < len(vs.Values) {
						if lit, ok := vs.Values[i].(*ast.BasicLit); ok && lit.Kind == token.STRING {
							v, err := strconv.Unquote(lit.Value)
							return v, err == nil
						}
					}
				}
			}
		}
	}
	return "", false
}

// constType returns the declared type name of a package-level constant ("" if untyped).
func (p *pkgInfo) constType(name string) string {
	for _, f := range p.files {
		for _, d := range f.Decls {
			gd, ok := d.(*ast.GenDecl)
			if !ok || gd.Tok != token.CONST {
				continue
			}
			var last ast.Expr
			for _, s := range gd.Specs {
				vs := s.(*ast.ValueSpec)
				if vs.Type != nil || len(vs.Values) > 0 {
					last = vs.Type
					if vs.Type == nil && len(vs.Values) == 1 {
						// X = T(…)
						if c, ok := vs.Values[0].(*ast.CallExpr); ok {
							last = c.Fun
						}
					}
				}
				for _, n := range vs.Names {
					if n.Name == name {
						if id, ok := last.(*ast.Ident); ok {
							return id.Name
						}
						return ""
					}
				}
			}
		}
	}
	return ""
}

func fileOf(p *pkgInfo, n ast.Node) string { return filepath.Base(p.fset.Position(n.Pos()).Filename) }

// ------------------------------------------------------------------ declared types

type dtype struct {
	Kind string // basic array bytes struct ptr sliceStruct sliceBasic other
	Q    string
	N    int
	Size int
	Txt  string
}

func (d dtype) lean() string {
	switch d.Kind {
	case "basic":
		return fmt.Sprintf(".basic %d", d.Size)
	case "array":
		return fmt.Sprintf(".array %d %d", d.N, d.Size)
	case "bytes":
		return ".bytes"
	case "struct":
		return ".struct " + leanStr(d.Q)
	case "ptr":
		return ".ptr " + leanStr(d.Q)
	case "sliceStruct":
		return ".sliceStruct " + leanStr(d.Q)
	case "sliceBasic":
		return fmt.Sprintf(".sliceBasic %s %d", leanStr(d.Q), d.Size)
	}
	return ".other " + leanStr(d.Txt)
}

// resolveNamed follows named types / aliases to (package, name, underlying expression).
func resolveNamed(p *pkgInfo, e ast.Expr, depth int) (*pkgInfo, string, ast.Expr) {
	if depth > 20 {
		return nil, "", nil
	}
	switch e := e.(type) {
	case *ast.Ident:
		if _, ok := basicSize[e.Name]; ok {
			return p, "", e
		}
		if t, ok := p.types[e.Name]; ok {
			switch t.(type) {
			case *ast.Ident, *ast.SelectorExpr:
				q, n, u := resolveNamed(p, t, depth+1)
				if n == "" { // named type over a basic type: keep this name
					return p, e.Name, u
				}
				if _, isStruct := u.(*ast.StructType); isStruct {
					return q, n, u // alias / definition over a struct type of another name
				}
				return p, e.Name, u
			}
			return p, e.Name, t
		}
	case *ast.SelectorExpr:
		if x, ok := e.X.(*ast.Ident); ok {
			if q := p.otherPkg(x.Name); q != nil {
				return resolveNamed(q, e.Sel, depth+1)
			}
		}
	case *ast.ParenExpr:
		return resolveNamed(p, e.X, depth+1)
	}
	return nil, "", nil
}

func resolveDType(p *pkgInfo, e ast.Expr) dtype {
	other := dtype{Kind: "other", Txt: exprText(p.fset, e)}
	switch e := e.(type) {
	case *ast.Ident, *ast.SelectorExpr:
		q, n, u := resolveNamed(p, e, 0)
		if q == nil {
			return other
		}
		switch u := u.(type) {
		case *ast.Ident:
			if s, ok := basicSize[u.Name]; ok {
				return dtype{Kind: "basic", Size: s, Q: nameOr(q, n)}
			}
		case *ast.StructType:
			return dtype{Kind: "struct", Q: q.qual(n)}
		case *ast.ArrayType:
			d := resolveDType(q, u)
			return d
		}
		return other
	case *ast.StarExpr:
		d := resolveDType(p, e.X)
		if d.Kind == "struct" {
			return dtype{Kind: "ptr", Q: d.Q}
		}
		return other
	case *ast.ArrayType:
		if e.Len != nil {
			n, ok := p.eval(e.Len, 0)
			el := resolveDType(p, e.Elt)
			if ok && el.Kind == "basic" {
				return dtype{Kind: "array", N: int(n), Size: el.Size}
			}
			return other
		}
		if id, ok := e.Elt.(*ast.Ident); ok && (id.Name == "byte" || id.Name == "uint8") {
			return dtype{Kind: "bytes"}
		}
		el := resolveDType(p, e.Elt)
		switch el.Kind {
		case "struct":
			return dtype{Kind: "sliceStruct", Q: el.Q}
		case "basic":
			return dtype{Kind: "sliceBasic", Q: el.Q, Size: el.Size}
		}
		return other
	}
	return other
}

func nameOr(q *pkgInfo, n string) string {
	if n == "" {
		return ""
	}
	return q.qual(n)
}

type dfield struct {
	Name string
	Ty   dtype
	Tag  reflect.StructTag
	Emb  bool
}

func structFields(p *pkgInfo, name string) []dfield {
	t, ok := p.types[name]
	if !ok {
		failf("type %s not found in %s", name, p.dir)
	}
	st, ok := t.(*ast.StructType)
	if !ok {
		failf("type %s is not a struct", name)
	}
	var out []dfield
	for _, f := range st.Fields.List {
		var tag reflect.StructTag
		if f.Tag != nil {
			s, err := strconv.Unquote(f.Tag.Value)
			if err != nil {
				failf("bad tag on %s", name)
			}
			tag = reflect.StructTag(s)
		}
		ty := resolveDType(p, f.Type)
		if len(f.Names) == 0 { // embedded: field name = type's base name
			n := exprText(p.fset, f.Type)
			n = strings.TrimPrefix(n, "*")
			if i := strings.LastIndex(n, "."); i >= 0 {
				n = n[i+1:]
			}
			out = append(out, dfield{n, ty, tag, true})
			continue
		}
		for _, n := range f.Names {
			out = append(out, dfield{n.Name, ty, tag, false})
		}
	}
	return out
}

// fieldPath resolves a (possibly promoted) field selector on struct T to its path and type.
func fieldPath(p *pkgInfo, T, x string) ([]string, dtype) {
	fs := structFields(p, T)
	for _, f := range fs {
		if f.Name == x {
			return []string{x}, f.Ty
		}
	}
	for _, f := range fs {
		if f.Emb && f.Ty.Kind == "struct" {
			q, n := splitQ(f.Ty.Q)
			for _, g := range structFields(q, n) {
				if g.Name == x {
					return []string{f.Name, x}, g.Ty
				}
			}
		}
	}
	failf("%s has no field %s", T, x)
	return nil, dtype{}
}

// splitQ maps "cbnt.Key" back to its package and name.
func splitQ(q string) (*pkgInfo, string) {
	i := strings.Index(q, ".")
	for _, rel := range manifestPkgs {
		if filepath.Base(rel) == q[:i] {
			p, err := loadPkg(rel)
			if err != nil {
				failf("cannot load %s", rel)
			}
			return p, q[i+1:]
		}
	}
	failf("unknown package in %s", q)
	return nil, ""
}

// ------------------------------------------------------------------ RExpr (rehash right-hand sides)

var reOffset = regexp.MustCompile(`^(\w+)Offset$`)

// rexprOf translates a Go expression on receiver recv ("" = bare, as in rehashValue tags).
func rexprOf(e ast.Expr, recv string) string {
	switch e := e.(type) {
	case *ast.ParenExpr:
		return rexprOf(e.X, recv)
	case *ast.BasicLit:
		if e.Kind == token.INT {
			v, err := strconv.ParseUint(strings.ReplaceAll(e.Value, "_", ""), 0, 64)
			if err == nil {
				return fmt.Sprintf("(.const %d)", v)
			}
		}
	case *ast.BinaryExpr:
		if e.Op == token.ADD {
			// sums are commutative: flatten and order the terms canonically (shorter paths first)
			var terms []string
			var collect func(x ast.Expr)
			collect = func(x ast.Expr) {
				if p, ok := x.(*ast.ParenExpr); ok {
					collect(p.X)
					return
				}
				if b, ok := x.(*ast.BinaryExpr); ok && b.Op == token.ADD {
					collect(b.X)
					collect(b.Y)
					return
				}
				terms = append(terms, rexprOf(x, recv))
			}
			collect(e)
			sort.SliceStable(terms, func(i, j int) bool {
				ci, cj := strings.Count(terms[i], `"`), strings.Count(terms[j], `"`)
				if ci != cj {
					return ci < cj
				}
				return terms[i] < terms[j]
			})
			out := terms[0]
			for _, t := range terms[1:] {
				out = "(.add " + out + " " + t + ")"
			}
			return out
		}
	case *ast.CallExpr:
		if id, ok := e.Fun.(*ast.Ident); ok && len(e.Args) == 1 {
			if _, isBasic := basicSize[id.Name]; isBasic { // integer conversion: width comes from the target
				return rexprOf(e.Args[0], recv)
			}
		}
		if len(e.Args) != 0 {
			break
		}
		// method call on the receiver, possibly through fields: [recv.]A.B.M()
		var path []string
		var x ast.Expr = e.Fun
		for {
			if se, ok := x.(*ast.SelectorExpr); ok {
				path = append([]string{se.Sel.Name}, path...)
				x = se.X
				continue
			}
			if id, ok := x.(*ast.Ident); ok {
				if id.Name != recv || recv == "" {
					path = append([]string{id.Name}, path...)
				}
				break
			}
			failf("unsupported rehash expression")
		}
		if len(path) == 0 {
			break
		}
		m := path[len(path)-1]
		inside := path[:len(path)-1]
		if m == "TotalSize" && len(inside) == 0 {
			return ".totalSize"
		}
		if mm := reOffset.FindStringSubmatch(m); mm != nil {
			return fmt.Sprintf("(.fieldOffset %s %s)", strList1(inside), leanStr(mm[1]))
		}
		if len(inside) == 0 {
			return "(.call " + leanStr(m) + ")"
		}
	}
	failf("unsupported rehash expression")
	return ""
}

func strList1(xs []string) string {
	var ss []string
	for _, x := range xs {
		ss = append(ss, leanStr(x))
	}
	return "[" + strings.Join(ss, ", ") + "]"
}

func rexprOfText(txt, recv string) string {
	e, err := parser.ParseExpr(txt)
	if err != nil {
		failf("tag expression %q does not parse", txt)
	}
	return rexprOf(e, recv)
}

type grule struct {
	Target []string
	Width  int
	E      string
}

func (r grule) lean() string {
	return fmt.Sprintf("{ target := %s, width := %d, e := %s }", strList1(r.Target), r.Width, r.E)
}

func rulesLean(rs []grule) string {
	var ss []string
	for _, r := range rs {
		ss = append(ss, r.lean())
	}
	return "[" + strings.Join(ss, ", ") + "]"
}

func recvOf(fd *ast.FuncDecl) string {
	if fd.Recv != nil && len(fd.Recv.List) == 1 && len(fd.Recv.List[0].Names) == 1 {
		return fd.Recv.List[0].Names[0].Name
	}
	return ""
}

func widthOf(t dtype) int {
	if t.Kind == "basic" {
		return t.Size
	}
	return 0
}

// rehashRules: the assignments of the generated Rehash().
func rehashRules(p *pkgInfo, T string) []grule {
	fd := p.funcs[T+".Rehash"]
	if fd == nil || fd.Body == nil {
		failf("%s.Rehash not found", T)
	}
	recv := recvOf(fd)
	var out []grule
	for _, st := range fd.Body.List {
		as, ok := st.(*ast.AssignStmt)
		if !ok || as.Tok != token.ASSIGN || len(as.Lhs) != 1 || len(as.Rhs) != 1 {
			failf("%s.Rehash: unexpected statement %s", T, exprText(p.fset, st))
		}
		lhs, ok := as.Lhs[0].(*ast.SelectorExpr)
		if !ok {
			failf("%s.Rehash: unexpected target", T)
		}
		if id, ok := lhs.X.(*ast.Ident); !ok || id.Name != recv {
			failf("%s.Rehash: unexpected target %s", T, exprText(p.fset, lhs))
		}
		path, ty := fieldPath(p, T, lhs.Sel.Name)
		rhs := as.Rhs[0]
		// strip a conversion to the target's own (named) type: s.F = T(…)
		if c, ok := rhs.(*ast.CallExpr); ok && len(c.Args) == 1 {
			if id, ok := c.Fun.(*ast.Ident); ok {
				if _, isType := p.types[id.Name]; isType {
					rhs = c.Args[0]
				}
			}
		}
		out = append(out, grule{path, widthOf(ty), rexprOf(rhs, recv)})
	}
	return out
}

// helperRules translates a hand-written `func (r *T) fn() F { x := r.F; x.K = …; return x }`.
func helperRules(p *pkgInfo, T, fn string) []grule {
	fd := p.funcs[T+"."+fn]
	if fd == nil || fd.Body == nil {
		failf("%s.%s not found", T, fn)
	}
	if strings.HasSuffix(fileOf(p, fd), "_manifestcodegen.go") {
		failf("%s.%s is not hand-written", T, fn)
	}
	recv := recvOf(fd)
	local, field := "", ""
	var out []grule
	for _, st := range fd.Body.List {
		switch st := st.(type) {
		case *ast.AssignStmt:
			if len(st.Lhs) != 1 || len(st.Rhs) != 1 {
				failf("%s.%s: unexpected assignment", T, fn)
			}
			if st.Tok == token.DEFINE {
				id, ok1 := st.Lhs[0].(*ast.Ident)
				se, ok2 := st.Rhs[0].(*ast.SelectorExpr)
				if !ok1 || !ok2 || local != "" {
					failf("%s.%s: unexpected definition", T, fn)
				}
				if x, ok := se.X.(*ast.Ident); !ok || x.Name != recv {
					failf("%s.%s: unexpected definition", T, fn)
				}
				local, field = id.Name, se.Sel.Name
				continue
			}
			se, ok := st.Lhs[0].(*ast.SelectorExpr)
			if !ok {
				failf("%s.%s: unexpected target", T, fn)
			}
			if x, ok := se.X.(*ast.Ident); !ok || x.Name != local || local == "" {
				failf("%s.%s: unexpected target", T, fn)
			}
			_, fty := fieldPath(p, T, field)
			if fty.Kind != "struct" {
				failf("%s.%s: %s is not a struct", T, fn, field)
			}
			q, n := splitQ(fty.Q)
			sub, ty := fieldPath(q, n, se.Sel.Name)
			out = append(out, grule{append([]string{field}, sub...), widthOf(ty), rexprOf(st.Rhs[0], recv)})
		case *ast.ReturnStmt:
			if len(st.Results) != 1 {
				failf("%s.%s: unexpected return", T, fn)
			}
			switch r := st.Results[0].(type) {
			case *ast.Ident:
				if r.Name != local || local == "" {
					failf("%s.%s: returns something else", T, fn)
				}
			case *ast.SelectorExpr:
				if x, ok := r.X.(*ast.Ident); !ok || x.Name != recv || len(out) != 0 {
					failf("%s.%s: returns something else", T, fn)
				}
				field = r.Sel.Name
			default:
				failf("%s.%s: unexpected return", T, fn)
			}
			_ = field
			return out
		default:
			failf("%s.%s: unexpected statement", T, fn)
		}
	}
	failf("%s.%s: no return", T, fn)
	return nil
}

// ------------------------------------------------------------------ CExpr (length functions)

type cctx struct {
	p        *pkgInfo
	recv     string            // receiver identifier in the function being translated
	recvT    string            // struct receiver: its type name ; "" for an integer receiver
	recvExpr string            // integer receiver: the CExpr it is bound to
	locals   map[string]string // local constants
	depth    int
}

func intConv(name string) (bits int, signed bool, ok bool) {
	s, ok := basicSize[name]
	if !ok || strings.HasPrefix(name, "float") || name == "bool" {
		return 0, false, false
	}
	return 8 * s, strings.HasPrefix(name, "int"), true
}

func clit(v int64) string {
	if v < 0 {
		return fmt.Sprintf("(.lit (%d))", v)
	}
	return fmt.Sprintf("(.lit %d)", v)
}

// typedValue classifies the receiver expression x of a method call: returns the package and
// integer type name it has and the CExpr denoting it.
func (c *cctx) typedValue(x ast.Expr) (*pkgInfo, string, string) {
	switch x := x.(type) {
	case *ast.Ident:
		if x.Name == c.recv && c.recvT == "" {
			failf("method call on the integer receiver itself is not supported")
		}
		if c.p.constOK[x.Name] {
			if t := c.p.constType(x.Name); t != "" {
				return c.p, t, clit(c.p.consts[x.Name])
			}
		}
	case *ast.SelectorExpr:
		if id, ok := x.X.(*ast.Ident); ok && id.Name == c.recv && c.recvT != "" {
			for _, f := range structFields(c.p, c.recvT) {
				if f.Name == x.Sel.Name && f.Ty.Kind == "basic" && f.Ty.Q != "" {
					q, n := splitQ(f.Ty.Q)
					return q, n, "(.fld " + leanStr(f.Name) + ")"
				}
			}
		}
	}
	failf("unsupported method receiver %s", exprText(c.p.fset, x))
	return nil, "", ""
}

func (c *cctx) call(q *pkgInfo, fname string, recvT string, recvExpr string) string {
	if c.depth > 8 {
		failf("length function nesting too deep")
	}
	fd := q.funcs[fname]
	if fd == nil || fd.Body == nil {
		failf("function %s not found", fname)
	}
	if len(fd.Type.Params.List) != 0 {
		failf("function %s takes arguments", fname)
	}
	cc := &cctx{p: q, recv: recvOf(fd), recvT: recvT, recvExpr: recvExpr, locals: map[string]string{}, depth: c.depth + 1}
	body := cc.body(fd.Body.List)
	if fd.Type.Results != nil && len(fd.Type.Results.List) == 1 {
		if id, ok := fd.Type.Results.List[0].Type.(*ast.Ident); ok {
			if bits, signed, ok := intConv(id.Name); ok {
				return fmt.Sprintf("(.conv %d %v %s)", bits, signed, body)
			}
			if id.Name == "bool" {
				return body
			}
		}
	}
	failf("function %s: unsupported result type", fname)
	return ""
}

func (c *cctx) expr(e ast.Expr) string {
	switch e := e.(type) {
	case *ast.ParenExpr:
		return c.expr(e.X)
	case *ast.BasicLit:
		if e.Kind == token.INT {
			v, ok := c.p.eval(e, 0)
			if ok {
				return clit(v)
			}
		}
	case *ast.Ident:
		if v, ok := c.locals[e.Name]; ok {
			return v
		}
		if e.Name == c.recv && c.recvT == "" {
			return c.recvExpr
		}
		if c.p.constOK[e.Name] {
			return clit(c.p.consts[e.Name])
		}
	case *ast.UnaryExpr:
		if e.Op == token.SUB {
			if v, ok := c.p.eval(e, 0); ok {
				return clit(v)
			}
			return "(.sub (.lit 0) " + c.expr(e.X) + ")"
		}
		if e.Op == token.NOT { // booleans are 0 / 1
			return "(.ite " + c.expr(e.X) + " (.lit 0) (.lit 1))"
		}
	case *ast.BinaryExpr:
		switch e.Op {
		case token.ADD:
			return "(.add " + c.expr(e.X) + " " + c.expr(e.Y) + ")"
		case token.SUB:
			return "(.sub " + c.expr(e.X) + " " + c.expr(e.Y) + ")"
		case token.MUL:
			return "(.mul " + c.expr(e.X) + " " + c.expr(e.Y) + ")"
		case token.EQL:
			return "(.eq " + c.expr(e.X) + " " + c.expr(e.Y) + ")"
		case token.LOR:
			return "(.or " + c.expr(e.X) + " " + c.expr(e.Y) + ")"
		case token.NEQ:
			return "(.ite (.eq " + c.expr(e.X) + " " + c.expr(e.Y) + ") (.lit 0) (.lit 1))"
		case token.LAND:
			return "(.ite " + c.expr(e.X) + " " + c.expr(e.Y) + " (.lit 0))"
		case token.SHR, token.SHL:
			k, ok := c.p.eval(e.Y, 0)
			if !ok || k < 0 || k > 63 {
				failf("shift by a non-constant")
			}
			op := ".shr"
			if e.Op == token.SHL {
				op = ".shl"
			}
			return fmt.Sprintf("(%s %s %d)", op, c.expr(e.X), k)
		}
	case *ast.SelectorExpr:
		if id, ok := e.X.(*ast.Ident); ok && id.Name == c.recv && c.recvT != "" {
			for _, f := range structFields(c.p, c.recvT) {
				if f.Name == e.Sel.Name && f.Ty.Kind == "basic" {
					return "(.fld " + leanStr(f.Name) + ")"
				}
			}
		}
	case *ast.CallExpr:
		if id, ok := e.Fun.(*ast.Ident); ok && len(e.Args) == 1 {
			if bits, signed, ok := intConv(id.Name); ok {
				return fmt.Sprintf("(.conv %d %v %s)", bits, signed, c.expr(e.Args[0]))
			}
			if _, n, u := resolveNamed(c.p, id, 0); n != "" {
				if b, ok := u.(*ast.Ident); ok {
					if bits, signed, ok := intConv(b.Name); ok {
						return fmt.Sprintf("(.conv %d %v %s)", bits, signed, c.expr(e.Args[0]))
					}
				}
			}
		}
		if se, ok := e.Fun.(*ast.SelectorExpr); ok && len(e.Args) == 0 {
			if id, ok := se.X.(*ast.Ident); ok && id.Name == c.recv && c.recvT != "" {
				return c.call(c.p, c.recvT+"."+se.Sel.Name, c.recvT, "")
			}
			q, tn, v := c.typedValue(se.X)
			return c.call(q, tn+"."+se.Sel.Name, "", v)
		}
	}
	failf("unsupported expression %s", exprText(c.p.fset, e))
	return ""
}

func (c *cctx) body(stmts []ast.Stmt) string {
	if len(stmts) == 0 {
		failf("control reaches the end of a length function")
	}
	rest := stmts[1:]
	switch st := stmts[0].(type) {
	case *ast.ReturnStmt:
		if len(st.Results) != 1 {
			failf("unexpected return")
		}
		return c.expr(st.Results[0])
	case *ast.BlockStmt:
		return c.body(append(append([]ast.Stmt{}, st.List...), rest...))
	case *ast.DeclStmt:
		gd, ok := st.Decl.(*ast.GenDecl)
		if !ok || gd.Tok != token.CONST {
			failf("unsupported declaration")
		}
		for _, s := range gd.Specs {
			vs := s.(*ast.ValueSpec)
			for i, n := range vs.Names {
				if i >= len(vs.Values) {
					failf("unsupported constant")
				}
				c.locals[n.Name] = c.expr(vs.Values[i])
			}
		}
		return c.body(rest)
	case *ast.IfStmt:
		if st.Init != nil {
			failf("unsupported if")
		}
		cond := c.expr(st.Cond)
		th := c.body(append(append([]ast.Stmt{}, st.Body.List...), rest...))
		var el string
		if st.Else != nil {
			el = c.body(append([]ast.Stmt{st.Else}, rest...))
		} else {
			el = c.body(rest)
		}
		return "(.ite " + cond + " " + th + " " + el + ")"
	case *ast.SwitchStmt:
		if st.Init != nil || st.Tag == nil {
			failf("unsupported switch")
		}
		tag := c.expr(st.Tag)
		var dflt []ast.Stmt
		hasDflt := false
		type arm struct {
			cond string
			body []ast.Stmt
		}
		var arms []arm
		for _, cl := range st.Body.List {
			cc := cl.(*ast.CaseClause)
			for _, s := range cc.Body {
				if _, isFall := s.(*ast.BranchStmt); isFall {
					failf("unsupported branch statement in switch")
				}
			}
			if cc.List == nil {
				dflt, hasDflt = cc.Body, true
				continue
			}
			cond := ""
			for _, v := range cc.List {
				t := "(.eq " + tag + " " + c.expr(v) + ")"
				if cond == "" {
					cond = t
				} else {
					cond = "(.or " + cond + " " + t + ")"
				}
			}
			arms = append(arms, arm{cond, cc.Body})
		}
		var out string
		if hasDflt {
			out = c.body(append(append([]ast.Stmt{}, dflt...), rest...))
		} else {
			out = c.body(rest)
		}
		for i := len(arms) - 1; i >= 0; i-- {
			out = "(.ite " + arms[i].cond + " " + c.body(append(append([]ast.Stmt{}, arms[i].body...), rest...)) + " " + out + ")"
		}
		return out
	}
	failf("unsupported statement %s", blur(exprText(c.p.fset, stmts[0])))
	return ""
}

// countExpr translates `s.<tagtext>` for receiver struct T.
func countExpr(p *pkgInfo, T, tagtext string) string {
	e, err := parser.ParseExpr("s." + tagtext)
	if err != nil {
		failf("countValue %q does not parse", tagtext)
	}
	c := &cctx{p: p, recv: "s", recvT: T, locals: map[string]string{}}
	return c.expr(e)
}

// ------------------------------------------------------------------ generated methods → observations

const errChk = `if err != nil \{ return totalN, fmt\.Errorf\(…\) \}`

func rx(s string) *regexp.Regexp {
	return regexp.MustCompile("^" + strings.ReplaceAll(s, "ERRCHK", errChk) + "$")
}

var (
	rdNum  = rx(`n, err := (\d+), binary\.Read\(r, binary\.LittleEndian, &s\.(\w+)\) ; ERRCHK ; totalN \+= int64\(n\)`)
	rdArr  = rx(`n, err := (\d+), binary\.Read\(r, binary\.LittleEndian, s\.(\w+)\[:\]\) ; ERRCHK ; totalN \+= int64\(n\)`)
	rdSub  = rx(`n, err := s\.(\w+)\.ReadFrom\(r\) ; ERRCHK ; totalN \+= int64\(n\)`)
	rdDynP = rx(`var size (\w+) ; err := binary\.Read\(r, binary\.LittleEndian, &size\) ; ERRCHK ; totalN \+= int64\(binary\.Size\(size\)\) ; s\.(\w+) = make\(\[\]byte, size\) ; n, err := len\(s\.(\w+)\), binary\.Read\(r, binary\.LittleEndian, s\.(\w+)\) ; ERRCHK ; totalN \+= int64\(n\)`)
	rdDynE = rx(`size := (\w+)\(s\.(.+)\) ; s\.(\w+) = make\(\[\]byte, size\) ; n, err := len\(s\.(\w+)\), binary\.Read\(r, binary\.LittleEndian, s\.(\w+)\) ; ERRCHK ; totalN \+= int64\(n\)`)
	rdList = rx(`var count (\w+) ; err := binary\.Read\(r, binary\.LittleEndian, &count\) ; ERRCHK ; totalN \+= int64\(binary\.Size\(count\)\) ; s\.(\w+) = make\(\[\]([\w.]+), count\) ; for idx := range s\.(\w+) \{ n, err := s\.(\w+)\[idx\]\.ReadFrom\(r\) ERRCHK totalN \+= int64\(n\) \}`)

	wrNum   = rx(`n, err := (\d+), binary\.Write\(w, binary\.LittleEndian, &s\.(\w+)\) ; ERRCHK ; totalN \+= int64\(n\)`)
	wrArr   = rx(`n, err := (\d+), binary\.Write\(w, binary\.LittleEndian, s\.(\w+)\[:\]\) ; ERRCHK ; totalN \+= int64\(n\)`)
	wrSub   = rx(`n, err := s\.(\w+)\.WriteTo\(w\) ; ERRCHK ; totalN \+= int64\(n\)`)
	wrDynP  = rx(`size := (\w+)\(len\(s\.(\w+)\)\) ; err := binary\.Write\(w, binary\.LittleEndian, size\) ; ERRCHK ; totalN \+= int64\(binary\.Size\(size\)\) ; n, err := len\(s\.(\w+)\), binary\.Write\(w, binary\.LittleEndian, s\.(\w+)\) ; ERRCHK ; totalN \+= int64\(n\)`)
	wrDynN  = rx(`n, err := len\(s\.(\w+)\), binary\.Write\(w, binary\.LittleEndian, s\.(\w+)\) ; ERRCHK ; totalN \+= int64\(n\)`)
	wrList  = rx(`count := (\w+)\(len\(s\.(\w+)\)\) ; err := binary\.Write\(w, binary\.LittleEndian, &count\) ; ERRCHK ; totalN \+= int64\(binary\.Size\(count\)\) ; for idx := range s\.(\w+) \{ n, err := s\.(\w+)\[idx\]\.WriteTo\(w\) ERRCHK totalN \+= int64\(n\) \}`)
	wrElems = rx(`for idx := range s\.(\w+) \{ n, err := s\.(\w+)\[idx\]\.WriteTo\(w\) ERRCHK totalN \+= int64\(n\) \}`)

	szConst = rx(`return (\d+)`)
	szSub   = rx(`return s\.(\w+)\.TotalSize\(\)`)
	szList  = rx(`var size uint64 ; size \+= uint64\(binary\.Size\((\w+)\(0\)\)\) ; for idx := range s\.(\w+) \{ size \+= s\.(\w+)\[idx\]\.TotalSize\(\) \} ; return size`)
	szElems = rx(`var size uint64 ; for idx := range s\.(\w+) \{ size \+= s\.(\w+)\[idx\]\.TotalSize\(\) \} ; return size`)
	szDynN  = rx(`return uint64\(len\(s\.(\w+)\)\)`)
	szDynP  = rx(`size := uint64\(binary\.Size\((\w+)\(0\)\)\) ; size \+= uint64\(len\(s\.(\w+)\)\) ; return size`)

	offZero = rx(`return 0`)
	offPrev = rx(`return s\.(\w+)Offset\(\) \+ s\.(\w+)TotalSize\(\)`)
)

func joinStmts(p *pkgInfo, stmts []ast.Stmt) string {
	var ss []string
	for _, s := range stmts {
		ss = append(ss, blur(exprText(p.fset, s)))
	}
	return strings.Join(ss, " ; ")
}

func allEq(xs ...string) bool {
	for _, x := range xs[1:] {
		if x != xs[0] {
			return false
		}
	}
	return true
}

func widthOfType(name string) int {
	if bits, _, ok := intConv(name); ok {
		return bits / 8
	}
	failf("count type %s is not an integer type", name)
	return 0
}

func atoi(s string) int {
	n, err := strconv.Atoi(s)
	if err != nil {
		failf("bad number %s", s)
	}
	return n
}

func qualIn(p *pkgInfo, t string) string {
	if strings.Contains(t, ".") {
		i := strings.Index(t, ".")
		q := p.otherPkg(t[:i])
		if q == nil {
			failf("unknown package in %s", t)
		}
		return q.qual(t[i+1:])
	}
	return p.qual(t)
}

// readObs: the field steps of ReadFrom (non-element) or ReadDataFrom (element).
func readObs(p *pkgInfo, T string, fd *ast.FuncDecl, siField string) []string {
	body := fd.Body.List
	if len(body) < 2 || blur(exprText(p.fset, body[0])) != "totalN := int64(0)" ||
		blur(exprText(p.fset, body[len(body)-1])) != "return totalN, nil" {
		failf("%s.%s: unexpected frame", T, fd.Name.Name)
	}
	var out []string
	for _, st := range body[1 : len(body)-1] {
		b, ok := st.(*ast.BlockStmt)
		if !ok {
			failf("%s.%s: statement outside a field block: %s", T, fd.Name.Name, blur(exprText(p.fset, st)))
		}
		if len(b.List) == 0 {
			if siField == "" {
				failf("%s.%s: empty field block in a non-element", T, fd.Name.Name)
			}
			out = append(out, ".si "+leanStr(siField))
			continue
		}
		txt := joinStmts(p, b.List)
		switch {
		case rdNum.MatchString(txt):
			m := rdNum.FindStringSubmatch(txt)
			out = append(out, fmt.Sprintf(".num %s %d", leanStr(m[2]), atoi(m[1])))
		case rdArr.MatchString(txt):
			m := rdArr.FindStringSubmatch(txt)
			out = append(out, fmt.Sprintf(".arr %s %d", leanStr(m[2]), atoi(m[1])))
		case rdSub.MatchString(txt):
			m := rdSub.FindStringSubmatch(txt)
			out = append(out, fmt.Sprintf(".sub %s false", leanStr(m[1])))
		case rdDynP.MatchString(txt):
			m := rdDynP.FindStringSubmatch(txt)
			if !allEq(m[2], m[3], m[4]) {
				failf("%s.%s: field names disagree in %s", T, fd.Name.Name, m[2])
			}
			out = append(out, fmt.Sprintf(".dynP %s %d", leanStr(m[2]), widthOfType(m[1])))
		case rdDynE.MatchString(txt):
			m := rdDynE.FindStringSubmatch(txt)
			if !allEq(m[3], m[4], m[5]) {
				failf("%s.%s: field names disagree in %s", T, fd.Name.Name, m[3])
			}
			out = append(out, fmt.Sprintf(".dynE %s %d %s", leanStr(m[3]), widthOfType(m[1]), leanStr(m[2])))
		case rdList.MatchString(txt):
			m := rdList.FindStringSubmatch(txt)
			if !allEq(m[2], m[4], m[5]) {
				failf("%s.%s: field names disagree in %s", T, fd.Name.Name, m[2])
			}
			out = append(out, fmt.Sprintf(".list %s %d %s", leanStr(m[2]), widthOfType(m[1]), leanStr(qualIn(p, m[3]))))
		default:
			failf("%s.%s: unrecognised field block: %s", T, fd.Name.Name, cut(txt, 160))
		}
	}
	return out
}

func cut(s string, n int) string {
	if len(s) > n {
		return s[:n] + "…"
	}
	return s
}

var reNilGuard = regexp.MustCompile(`^s\.(\w+) != nil$`)

func writeObs(p *pkgInfo, T string, fd *ast.FuncDecl) []string {
	body := fd.Body.List
	if len(body) < 3 || blur(exprText(p.fset, body[0])) != "totalN := int64(0)" ||
		blur(exprText(p.fset, body[1])) != "s.Rehash()" ||
		blur(exprText(p.fset, body[len(body)-1])) != "return totalN, nil" {
		failf("%s.WriteTo: unexpected frame", T)
	}
	var out []string
	for _, st := range body[2 : len(body)-1] {
		var b *ast.BlockStmt
		guard := ""
		switch st := st.(type) {
		case *ast.BlockStmt:
			b = st
		case *ast.IfStmt:
			m := reNilGuard.FindStringSubmatch(exprText(p.fset, st.Cond))
			if m == nil || st.Init != nil || st.Else != nil {
				failf("%s.WriteTo: unexpected if", T)
			}
			guard, b = m[1], st.Body
		default:
			failf("%s.WriteTo: statement outside a field block: %s", T, blur(exprText(p.fset, st)))
		}
		txt := joinStmts(p, b.List)
		if guard != "" && !wrSub.MatchString(txt) {
			failf("%s.WriteTo: nil guard on something that is not a sub-structure", T)
		}
		switch {
		case wrNum.MatchString(txt):
			m := wrNum.FindStringSubmatch(txt)
			out = append(out, fmt.Sprintf(".num %s %d", leanStr(m[2]), atoi(m[1])))
		case wrArr.MatchString(txt):
			m := wrArr.FindStringSubmatch(txt)
			out = append(out, fmt.Sprintf(".arr %s %d", leanStr(m[2]), atoi(m[1])))
		case wrSub.MatchString(txt):
			m := wrSub.FindStringSubmatch(txt)
			if guard != "" && guard != m[1] {
				failf("%s.WriteTo: nil guard on another field", T)
			}
			out = append(out, fmt.Sprintf(".sub %s %v", leanStr(m[1]), guard != ""))
		case wrDynP.MatchString(txt):
			m := wrDynP.FindStringSubmatch(txt)
			if !allEq(m[2], m[3], m[4]) {
				failf("%s.WriteTo: field names disagree in %s", T, m[2])
			}
			out = append(out, fmt.Sprintf(".dynP %s %d", leanStr(m[2]), widthOfType(m[1])))
		case wrDynN.MatchString(txt):
			m := wrDynN.FindStringSubmatch(txt)
			if !allEq(m[1], m[2]) {
				failf("%s.WriteTo: field names disagree in %s", T, m[1])
			}
			out = append(out, ".dynN "+leanStr(m[1]))
		case wrList.MatchString(txt):
			m := wrList.FindStringSubmatch(txt)
			if !allEq(m[2], m[3], m[4]) {
				failf("%s.WriteTo: field names disagree in %s", T, m[2])
			}
			out = append(out, fmt.Sprintf(".list %s %d \"\"", leanStr(m[2]), widthOfType(m[1])))
		case wrElems.MatchString(txt):
			m := wrElems.FindStringSubmatch(txt)
			if !allEq(m[1], m[2]) {
				failf("%s.WriteTo: field names disagree in %s", T, m[1])
			}
			out = append(out, ".elems "+leanStr(m[1]))
		default:
			failf("%s.WriteTo: unrecognised field block: %s", T, cut(txt, 160))
		}
	}
	return out
}

func sizeObs(p *pkgInfo, T, F string) string {
	fd := p.funcs[T+"."+F+"TotalSize"]
	if fd == nil || fd.Body == nil {
		failf("%s.%sTotalSize not found", T, F)
	}
	txt := joinStmts(p, fd.Body.List)
	switch {
	case szConst.MatchString(txt):
		return fmt.Sprintf(".const %s %d", leanStr(F), atoi(szConst.FindStringSubmatch(txt)[1]))
	case szSub.MatchString(txt):
		if m := szSub.FindStringSubmatch(txt); m[1] == F {
			return fmt.Sprintf(".sub %s false", leanStr(F))
		}
	case szList.MatchString(txt):
		if m := szList.FindStringSubmatch(txt); allEq(F, m[2], m[3]) {
			return fmt.Sprintf(".list %s %d \"\"", leanStr(F), widthOfType(m[1]))
		}
	case szElems.MatchString(txt):
		if m := szElems.FindStringSubmatch(txt); allEq(F, m[1], m[2]) {
			return ".elems " + leanStr(F)
		}
	case szDynN.MatchString(txt):
		if m := szDynN.FindStringSubmatch(txt); m[1] == F {
			return ".dynN " + leanStr(F)
		}
	case szDynP.MatchString(txt):
		if m := szDynP.FindStringSubmatch(txt); m[2] == F {
			return fmt.Sprintf(".dynP %s %d", leanStr(F), widthOfType(m[1]))
		}
	}
	failf("%s.%sTotalSize: unrecognised body: %s", T, F, cut(txt, 160))
	return ""
}

var reSizeAdd = regexp.MustCompile(`^size \+= s\.(\w+)TotalSize\(\)$`)

func totalObs(p *pkgInfo, T string) []string {
	fd := p.funcs[T+".TotalSize"]
	if fd == nil || fd.Body == nil {
		failf("%s.TotalSize not found", T)
	}
	b := fd.Body.List
	if len(b) < 3 || blur(exprText(p.fset, b[0])) != "if s == nil { return 0 }" ||
		blur(exprText(p.fset, b[1])) != "var size uint64" || blur(exprText(p.fset, b[len(b)-1])) != "return size" {
		failf("%s.TotalSize: unexpected frame", T)
	}
	var out []string
	for _, st := range b[2 : len(b)-1] {
		m := reSizeAdd.FindStringSubmatch(blur(exprText(p.fset, st)))
		if m == nil {
			failf("%s.TotalSize: unexpected statement", T)
		}
		out = append(out, m[1])
	}
	return out
}

var reNew = regexp.MustCompile(`^s\.(\w+) = \*((?:\w+\.)?)New(\w+)\(\)$`)

func newsObs(p *pkgInfo, T string) [][2]string {
	fd := p.funcs["New"+T]
	if fd == nil || fd.Body == nil {
		failf("New%s not found", T)
	}
	var out [][2]string
	for _, st := range fd.Body.List {
		if m := reNew.FindStringSubmatch(exprText(p.fset, st)); m != nil {
			out = append(out, [2]string{m[1], qualIn(p, m[2]+m[3])})
		}
	}
	return out
}

// ---- element containers

var (
	reCaseSlice  = rx(`var el ([\w.]+) ; el\.SetStructInfo\(structInfo\) ; n, err = el\.ReadDataFrom\(r\) ; s\.(\w+) = append\(s\.(\w+), el\) ; if err != nil \{ return totalN, fmt\.Errorf\(…\) \}`)
	reCaseSingle = rx(`if fieldIndex == previousFieldIndex \{ return totalN, fmt\.Errorf\(…\) \} ; s\.(\w+)\.SetStructInfo\(structInfo\) ; n, err = s\.(\w+)\.ReadDataFrom\(r\) ; if err != nil \{ return totalN, fmt\.Errorf\(…\) \}`)
	reCasePtr    = rx(`if fieldIndex == previousFieldIndex \{ return totalN, fmt\.Errorf\(…\) \} ; s\.(\w+) = &([\w.]+)\{\} ; s\.(\w+)\.SetStructInfo\(structInfo\) ; n, err = s\.(\w+)\.ReadDataFrom\(r\) ; if err != nil \{ return totalN, fmt\.Errorf\(…\) \}`)
	reMissing    = regexp.MustCompile(`^var missingFieldsByIndices = \[(\d+)\]bool\{(.*)\}$`)
	reStrict     = regexp.MustCompile(`^if ((?:\w+\.)?)StrictOrderCheck && fieldIndex < previousFieldIndex \{ return totalN, fmt\.Errorf\(…\) \}$`)
	reSIVar      = regexp.MustCompile(`^var structInfo ([\w.]+)$`)
)

const deferTxt = `defer func() { if returnErr != nil { return } for fieldIndex, v := range missingFieldsByIndices { if v { returnErr = fmt.Errorf(…) break } } }()`

type gslot struct {
	Idx            int
	ID, Field, Typ string
	Kind           string
}

type gcontainer struct {
	SI       string
	Required []int
	Slots    []gslot
	Strict   bool
}

func (c *gcontainer) lean() string {
	if c == nil {
		return "none"
	}
	var req []string
	for _, r := range c.Required {
		req = append(req, strconv.Itoa(r))
	}
	var sl []string
	for _, s := range c.Slots {
		sl = append(sl, fmt.Sprintf("{ idx := %d, id := %s, field := %s, typ := %s, kind := .%s }", s.Idx, leanStr(s.ID), leanStr(s.Field), leanStr(s.Typ), s.Kind))
	}
	return fmt.Sprintf("some { siType := %s, required := [%s], slots := [%s], strictOrder := %v }", leanStr(c.SI), strings.Join(req, ", "), strings.Join(sl, ",\n      "), c.Strict)
}

func containerObs(p *pkgInfo, T string, fd *ast.FuncDecl, news [][2]string) *gcontainer {
	c := &gcontainer{}
	b := fd.Body.List
	if len(b) != 5 {
		failf("%s.ReadFrom (container): unexpected frame", T)
	}
	m := reMissing.FindStringSubmatch(blur(exprText(p.fset, b[0])))
	if m == nil {
		failf("%s.ReadFrom: missingFieldsByIndices not found", T)
	}
	nFields := atoi(m[1])
	for _, kv := range strings.Split(m[2], ",") {
		kv = strings.TrimSpace(kv)
		if kv == "" {
			continue
		}
		parts := strings.Split(kv, ":")
		if len(parts) != 2 || strings.TrimSpace(parts[1]) != "true" {
			failf("%s.ReadFrom: unexpected missingFieldsByIndices entry %q", T, kv)
		}
		c.Required = append(c.Required, atoi(strings.TrimSpace(parts[0])))
	}
	if blur(exprText(p.fset, b[1])) != deferTxt {
		failf("%s.ReadFrom: deferred missing-field check changed", T)
	}
	if blur(exprText(p.fset, b[2])) != "var totalN int64" || blur(exprText(p.fset, b[3])) != "previousFieldIndex := int(-1)" {
		failf("%s.ReadFrom: unexpected loop prologue", T)
	}
	loop, ok := b[4].(*ast.ForStmt)
	if !ok || loop.Init != nil || loop.Cond != nil || loop.Post != nil {
		failf("%s.ReadFrom: dispatch loop not found", T)
	}
	l := loop.Body.List
	if len(l) != 14 {
		failf("%s.ReadFrom: dispatch loop has %d statements, expected 14", T, len(l))
	}
	txt := func(i int) string { return blur(exprText(p.fset, l[i])) }
	ms := reSIVar.FindStringSubmatch(txt(0))
	if ms == nil {
		failf("%s.ReadFrom: struct-info variable not found", T)
	}
	c.SI = qualIn(p, ms[1])
	want := map[int]string{
		1:  "err := binary.Read(r, binary.LittleEndian, &structInfo)",
		2:  "if err == io.EOF || err == io.ErrUnexpectedEOF { return totalN, nil }",
		3:  "if err != nil { return totalN, fmt.Errorf(…) }",
		4:  "totalN += int64(binary.Size(structInfo))",
		5:  "structID := structInfo.ID.String()",
		6:  "fieldIndex := s.fieldIndexByStructID(structID)",
		7:  "if fieldIndex < 0 { continue }",
		9:  "missingFieldsByIndices[fieldIndex] = false",
		10: "var n int64",
		12: "totalN += n",
		13: "previousFieldIndex = fieldIndex",
	}
	for i, w := range want {
		if txt(i) != w {
			failf("%s.ReadFrom: dispatch loop statement %d changed: %s", T, i, cut(txt(i), 120))
		}
	}
	mo := reStrict.FindStringSubmatch(txt(8))
	if mo == nil {
		failf("%s.ReadFrom: order check changed: %s", T, cut(txt(8), 120))
	}
	cfg := p
	if mo[1] != "" {
		cfg = p.otherPkg(strings.TrimSuffix(mo[1], "."))
	}
	if cfg == nil {
		failf("%s.ReadFrom: StrictOrderCheck package not found", T)
	}
	if v, ok := cfg.vars["StrictOrderCheck"].(*ast.Ident); ok && (v.Name == "true" || v.Name == "false") {
		c.Strict = v.Name == "true"
	} else {
		failf("StrictOrderCheck is not a boolean literal")
	}
	// fieldIndexByStructID
	fi := p.funcs[T+".fieldIndexByStructID"]
	if fi == nil || len(fi.Body.List) != 2 || blur(exprText(p.fset, fi.Body.List[1])) != "return -1" {
		failf("%s.fieldIndexByStructID: unexpected shape", T)
	}
	sw, ok := fi.Body.List[0].(*ast.SwitchStmt)
	if !ok || exprText(p.fset, sw.Tag) != "structID" {
		failf("%s.fieldIndexByStructID: unexpected shape", T)
	}
	index := map[string]int{}
	for _, cl := range sw.Body.List {
		cc := cl.(*ast.CaseClause)
		if len(cc.List) != 1 || len(cc.Body) != 1 {
			failf("%s.fieldIndexByStructID: unexpected case", T)
		}
		r, ok := cc.Body[0].(*ast.ReturnStmt)
		if !ok || len(r.Results) != 1 {
			failf("%s.fieldIndexByStructID: unexpected case", T)
		}
		v, ok := p.eval(r.Results[0], 0)
		if !ok {
			failf("%s.fieldIndexByStructID: unexpected case", T)
		}
		index[exprText(p.fset, cc.List[0])] = int(v)
	}
	if len(index) != nFields {
		failf("%s: %d dispatch indices for %d fields", T, len(index), nFields)
	}
	// the dispatch switch
	ds, ok := l[11].(*ast.SwitchStmt)
	if !ok || exprText(p.fset, ds.Tag) != "structID" {
		failf("%s.ReadFrom: dispatch switch not found", T)
	}
	newsOf := map[string]string{}
	for _, n := range news {
		newsOf[n[0]] = n[1]
	}
	for _, cl := range ds.Body.List {
		cc := cl.(*ast.CaseClause)
		if cc.List == nil {
			if joinStmts(p, cc.Body) != "return totalN, fmt.Errorf(…)" {
				failf("%s.ReadFrom: default case changed", T)
			}
			continue
		}
		if len(cc.List) != 1 {
			failf("%s.ReadFrom: unexpected case list", T)
		}
		cname := exprText(p.fset, cc.List[0])
		idx, ok := index[cname]
		if !ok {
			failf("%s.ReadFrom: case %s has no index", T, cname)
		}
		id, ok := p.stringConst(cname)
		if !ok {
			failf("%s: constant %s not found", T, cname)
		}
		body := joinStmts(p, cc.Body)
		s := gslot{Idx: idx, ID: id}
		switch {
		case reCaseSlice.MatchString(body):
			m := reCaseSlice.FindStringSubmatch(body)
			if m[2] != m[3] {
				failf("%s.ReadFrom: case %s appends to another field", T, cname)
			}
			s.Field, s.Typ, s.Kind = m[2], qualIn(p, m[1]), "list"
		case reCaseSingle.MatchString(body):
			m := reCaseSingle.FindStringSubmatch(body)
			if m[1] != m[2] {
				failf("%s.ReadFrom: case %s mixes fields", T, cname)
			}
			s.Field, s.Typ, s.Kind = m[1], newsOf[m[1]], "single"
		case reCasePtr.MatchString(body):
			m := reCasePtr.FindStringSubmatch(body)
			if !allEq(m[1], m[3], m[4]) {
				failf("%s.ReadFrom: case %s mixes fields", T, cname)
			}
			s.Field, s.Typ, s.Kind = m[1], qualIn(p, m[2]), "ptr"
		default:
			failf("%s.ReadFrom: case %s not recognised: %s", T, cname, cut(body, 200))
		}
		c.Slots = append(c.Slots, s)
	}
	sort.Slice(c.Slots, func(i, j int) bool { return c.Slots[i].Idx < c.Slots[j].Idx })
	return c
}

const elemReadFrom = `var totalN int64 ; err := binary.Read(r, binary.LittleEndian, &s.SIFIELD) ; if err != nil { return totalN, fmt.Errorf(…) } ; totalN += int64(binary.Size(s.SIFIELD)) ; n, err := s.ReadDataFrom(r) ; if err != nil { return totalN, fmt.Errorf(…) } ; totalN += n ; return totalN, nil`

var reSIRead = regexp.MustCompile(`binary\.Read\(r, binary\.LittleEndian, &s\.(\w+)\)`)

type gcodec struct {
	Name, SI           string
	Read, Write, Sizes []string
	Offsets            [][2]string
	Total              []string
	Rehash             []grule
	News               [][2]string
	Container          *gcontainer
}

func obsList(xs []string) string {
	if len(xs) == 0 {
		return "[]"
	}
	return "[" + strings.Join(xs, ", ") + "]"
}

func pairList(xs [][2]string) string {
	var ss []string
	for _, x := range xs {
		ss = append(ss, "("+leanStr(x[0])+", "+leanStr(x[1])+")")
	}
	return "[" + strings.Join(ss, ", ") + "]"
}

func (c *gcodec) lean() string {
	var b strings.Builder
	fmt.Fprintf(&b, "{ name := %s\n    siType := %s\n", leanStr(c.Name), leanStr(c.SI))
	fmt.Fprintf(&b, "    read := %s\n", obsList(c.Read))
	fmt.Fprintf(&b, "    write := %s\n", obsList(c.Write))
	fmt.Fprintf(&b, "    sizes := %s\n", obsList(c.Sizes))
	fmt.Fprintf(&b, "    offsets := %s\n", pairList(c.Offsets))
	fmt.Fprintf(&b, "    total := %s\n", strList1(c.Total))
	fmt.Fprintf(&b, "    rehash := %s\n", rulesLean(c.Rehash))
	fmt.Fprintf(&b, "    news := %s\n", pairList(c.News))
	fmt.Fprintf(&b, "    container := %s }", c.Container.lean())
	return b.String()
}

func extractCodec(p *pkgInfo, T string) *gcodec {
	c := &gcodec{Name: p.qual(T)}
	rf := p.funcs[T+".ReadFrom"]
	c.News = newsObs(p, T)
	isContainer := p.funcs[T+".fieldIndexByStructID"] != nil
	if gs := p.funcs[T+".GetStructInfo"]; gs != nil {
		c.SI = qualIn(p, exprText(p.fset, gs.Type.Results.List[0].Type))
	}
	switch {
	case isContainer:
		c.Container = containerObs(p, T, rf, c.News)
		c.SI = ""
	case p.funcs[T+".ReadDataFrom"] != nil:
		txt := joinStmts(p, rf.Body.List)
		m := reSIRead.FindStringSubmatch(txt)
		if m == nil || txt != strings.ReplaceAll(elemReadFrom, "SIFIELD", m[1]) {
			failf("%s.ReadFrom (element): unexpected body", T)
		}
		if c.SI == "" {
			failf("%s: element without GetStructInfo", T)
		}
		// ReadFrom reads the struct-info first, whatever its declared position
		c.Read = append([]string{".sub " + leanStr(m[1]) + " false"}, readObs(p, T, p.funcs[T+".ReadDataFrom"], m[1])...)
	default:
		c.Read = readObs(p, T, rf, "")
	}
	wf := p.funcs[T+".WriteTo"]
	if wf == nil || wf.Body == nil {
		failf("%s.WriteTo not found", T)
	}
	c.Write = writeObs(p, T, wf)
	c.Total = totalObs(p, T)
	for i, f := range c.Total {
		c.Sizes = append(c.Sizes, sizeObs(p, T, f))
		fd := p.funcs[T+"."+f+"Offset"]
		if fd == nil || fd.Body == nil {
			failf("%s.%sOffset not found", T, f)
		}
		txt := joinStmts(p, fd.Body.List)
		switch {
		case offZero.MatchString(txt):
			c.Offsets = append(c.Offsets, [2]string{f, ""})
		case offPrev.MatchString(txt):
			m := offPrev.FindStringSubmatch(txt)
			if m[1] != m[2] {
				failf("%s.%sOffset adds the size of another field than the one whose offset it takes", T, f)
			}
			c.Offsets = append(c.Offsets, [2]string{f, m[1]})
		default:
			failf("%s.%sOffset: unrecognised body", T, f)
		}
		_ = i
	}
	c.Rehash = rehashRules(p, T)
	return c
}

// ------------------------------------------------------------------ declarations

func optR(txt, recv string) string {
	if txt == "" {
		return "none"
	}
	return "some " + rexprOfText(txt, recv)
}

func declLean(p *pkgInfo, T string) string {
	var fs []string
	for _, f := range structFields(p, T) {
		s := fmt.Sprintf("{ name := %s, ty := %s", leanStr(f.Name), f.Ty.lean())
		if ct, ok := f.Tag.Lookup("countType"); ok {
			s += fmt.Sprintf(", countType := %d", widthOfType(ct))
		}
		if cv, ok := f.Tag.Lookup("countValue"); ok {
			s += ", countValue := " + leanStr(cv)
		}
		if rv, ok := f.Tag.Lookup("rehashValue"); ok {
			s += ", rehashValue := " + optR(rv, "")
		}
		if id, ok := f.Tag.Lookup("id"); ok {
			s += ", id := " + leanStr(id)
		}
		if v, ok := f.Tag.Lookup("var0"); ok {
			s += ", var0 := " + optR(v, "s")
		}
		if v, ok := f.Tag.Lookup("var1"); ok {
			s += ", var1 := " + optR(v, "s")
		}
		fs = append(fs, s+" }")
	}
	return fmt.Sprintf("{ name := %s\n    fields := [\n      %s] }", leanStr(p.qual(T)), strings.Join(fs, ",\n      "))
}

// ------------------------------------------------------------------ emission

func emitManifestCodecs(em *emitter, _ *pkgInfo, it Item) {
	// The generated file holds data of the hand-written types of FianoModel/Manifest/Syntax.lean, so it
	// must import that module; Lean wants imports before everything else.  This item is the only one
	// of its area: re-emit the header main.go wrote, with the import in front of the namespace.
	hdr := em.b.String()
	em.b.Reset()
	if i := strings.Index(hdr, "namespace "); i >= 0 {
		em.b.WriteString(hdr[:i] + "import FianoModel.Manifest.Syntax\n" + hdr[i:])
	} else {
		em.b.WriteString(hdr)
	}
	fmt.Fprintf(&em.b, "open Fiano.Manifest\n\n")
	type st struct {
		p *pkgInfo
		T string
	}
	var structs []st
	for _, rel := range manifestPkgs {
		p, err := loadPkg(rel)
		if err != nil {
			em.failed = append(em.failed, "manifestcodecs:"+rel+" (package does not parse: "+err.Error()+")")
			continue
		}
		var names []string
		for name, fd := range p.funcs {
			if strings.HasSuffix(name, ".ReadFrom") && strings.HasSuffix(fileOf(p, fd), "_manifestcodegen.go") {
				T := strings.TrimSuffix(name, ".ReadFrom")
				if _, ok := p.types[T].(*ast.StructType); ok {
					names = append(names, T)
				}
			}
		}
		sort.Strings(names)
		for _, n := range names {
			structs = append(structs, st{p, n})
		}
	}
	fail := func(what, why string) {
		em.failed = append(em.failed, "manifestcodecs:"+what+" ("+why+")")
	}
	var codecNames, declNames, all []string
	type cx struct{ q, txt, e string }
	var cexprs []cx
	type hf struct {
		q, fn string
		rules []grule
	}
	var helpers []hf
	for _, s := range structs {
		q := s.p.qual(s.T)
		ln := leanName(q)
		all = append(all, leanStr(q))
		// codec
		var c *gcodec
		if why := try(func() { c = extractCodec(s.p, s.T) }); why != "" {
			fail("codec "+q, why)
			fmt.Fprintf(&em.b, "-- EXTRACTION FAILED: %s\n", why)
			c = &gcodec{Name: q}
		}
		fmt.Fprintf(&em.b, "def codec_%s : GCodec :=\n  %s\n\n", ln, c.lean())
		codecNames = append(codecNames, "codec_"+ln)
		// declaration
		var d string
		if why := try(func() { d = declLean(s.p, s.T) }); why != "" {
			fail("decl "+q, why)
			fmt.Fprintf(&em.b, "-- EXTRACTION FAILED: %s\n", why)
			d = fmt.Sprintf("{ name := %s, fields := [] }", leanStr(q))
		}
		fmt.Fprintf(&em.b, "def decl_%s : GDecl :=\n  %s\n\n", ln, d)
		declNames = append(declNames, "decl_"+ln)
		// hand-written helpers referred to by tags
		why := try(func() {
			for _, f := range structFields(s.p, s.T) {
				if cv, ok := f.Tag.Lookup("countValue"); ok {
					var e string
					if w := try(func() { e = countExpr(s.p, s.T, cv) }); w != "" {
						fail("countValue "+q+"."+cv, w)
						e = "(.lit 0)"
					}
					cexprs = append(cexprs, cx{q, cv, e})
				}
				if rv, ok := f.Tag.Lookup("rehashValue"); ok {
					r := rexprOfText(rv, "")
					if strings.HasPrefix(r, "(.call ") {
						fn := strings.TrimSuffix(rv, "()")
						var rules []grule
						if w := try(func() { rules = helperRules(s.p, s.T, fn) }); w != "" {
							fail("rehash helper "+q+"."+fn, w)
						}
						helpers = append(helpers, hf{q, fn, rules})
					}
				}
			}
		})
		if why != "" {
			fail("helpers of "+q, why)
		}
	}
	fmt.Fprintf(&em.b, "/-- every structure with a generated codec, in package / name order -/\ndef structNames : List String := [%s]\n\n", strings.Join(all, ", "))
	fmt.Fprintf(&em.b, "def codecs : List GCodec := [%s]\n\n", strings.Join(codecNames, ", "))
	fmt.Fprintf(&em.b, "def decls : List GDecl := [%s]\n\n", strings.Join(declNames, ", "))
	var ss []string
	for _, c := range cexprs {
		ss = append(ss, fmt.Sprintf("((%s, %s),\n    %s)", leanStr(c.q), leanStr(c.txt), c.e))
	}
	fmt.Fprintf(&em.b, "/-- the hand-written length functions named by countValue tags, translated from their bodies -/\n")
	fmt.Fprintf(&em.b, "def countExprs : List ((String × String) × CExpr) := [\n  %s]\n\n", strings.Join(ss, ",\n  "))
	ss = nil
	for _, h := range helpers {
		ss = append(ss, fmt.Sprintf("((%s, %s), %s)", leanStr(h.q), leanStr(h.fn), rulesLean(h.rules)))
	}
	fmt.Fprintf(&em.b, "/-- the hand-written functions named by rehashValue tags, as assignments to sub-fields -/\n")
	fmt.Fprintf(&em.b, "def rehashHelpers : List ((String × String) × List GRule) := [\n  %s]\n\n", strings.Join(ss, ",\n  "))
	_ = it
}
