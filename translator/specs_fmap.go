package main

func init() {
	specs = append(specs, Spec{Area: "Fmap", Pkg: "pkg/fmap", Items: []Item{
		{Kind: "bytesvar", Name: "Signature"},
		{Kind: "const", Name: "FmapAreaStatic"},
		{Kind: "const", Name: "FmapAreaCompressed"},
		{Kind: "const", Name: "FmapAreaReadOnly"},
		{Kind: "layout", Name: "Header"},
		{Kind: "layout", Name: "Area"},
		{Kind: "layout", Name: "String"},
		{Kind: "calls", Name: "readField", Arg: "binary.Read"},
		{Kind: "calls", Name: "Write", Arg: "binary.Write"},
		{Kind: "sites", Name: "Read"},
		{Kind: "sites", Name: "FMap.ReadArea"},
		{Kind: "sites", Name: "FMap.WriteArea"},
	}})
}
