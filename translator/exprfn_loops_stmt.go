package main

// loopfn, part 3: statements, loops, function emission.

import (
	"fmt"
	"go/ast"
	"go/parser"
	"go/token"
	"path/filepath"
	"sort"
	"strings"
)

type cont func() []string

func ind(lines []string, n int) []string {
	pad := strings.Repeat(" ", n)
	out := make([]string, len(lines))
	for i, l := range lines {
		out[i] = pad + l
	}
	return out
}

// paren wraps a block that is used as a term (pure units only)
func paren(lines []string) []string {
	if len(lines) == 0 {
		return lines
	}
	out := append([]string{}, lines...)
	out[0] = "(" + out[0]
	for i := 1; i < len(out); i++ {
		out[i] = " " + out[i]
	}
	out[len(out)-1] += ")"
	return out
}

func tupleOf(vs []*lvar, hideBelow int) string {
	var ns []string
	for _, v := range vs {
		if hideBelow > 0 && v.depth > hideBelow {
			ns = append(ns, "_")
		} else {
			ns = append(ns, v.lean)
		}
	}
	switch len(ns) {
	case 0:
		return "()"
	case 1:
		return ns[0]
	}
	return "(" + strings.Join(ns, ", ") + ")"
}

func tupleType(vs []*lvar) string {
	var ts []string
	for _, v := range vs {
		ts = append(ts, leanTy(v.typ))
	}
	switch len(ts) {
	case 0:
		return "Unit"
	case 1:
		return ts[0]
	}
	return strings.Join(ts, " × ")
}

func (c *lctx) pure(v string) string {
	if c.opt {
		return "pure " + v
	}
	return v
}

// ---------------------------------------------------------------- returning

// retValue: what `return e1, e2` yields at function level (declared results + extra outputs)
func (c *lctx) retValue(results []ast.Expr) (pre []string, val string) {
	var vs []string
	if len(results) == 0 {
		for _, v := range c.named {
			vs = append(vs, v.lean)
		}
		if len(c.named) == 0 && len(c.resTys) > 0 {
			c.fail("bare return in a function with unnamed results")
		}
	} else {
		if len(results) != len(c.resTys) {
			c.fail("return with %d values, %d expected", len(results), len(c.resTys))
			return nil, "()"
		}
		for i, r := range results {
			pre = append(pre, c.errArgEffects(r)...)
			vs = append(vs, c.ex(r, c.resTys[i]))
		}
	}
	for _, o := range c.outs {
		if v := c.lookup(o.goName); v != nil {
			vs = append(vs, v.lean)
		} else {
			vs = append(vs, o.lean)
		}
	}
	switch len(vs) {
	case 0:
		return pre, "()"
	case 1:
		return pre, vs[0]
	}
	return pre, "(" + strings.Join(vs, ", ") + ")"
}

// wrapRet: a function-level result value as the terminal of the unit being emitted
func (c *lctx) wrapRet(val string) string {
	if c.cur != nil && !c.cur.noFall {
		return c.pure("(GoRt.Exit.ret " + val + ")")
	}
	return c.pure(val)
}

func (c *lctx) returnLines(results []ast.Expr) []string {
	pre, val := c.retValue(results)
	return append(pre, c.wrapRet(val))
}

func (c *lctx) fnEnd() []string {
	if !c.noRes && len(c.named) == 0 {
		c.fail("the function may fall off its end")
		return []string{"()"}
	}
	return c.returnLines(nil)
}

// ---------------------------------------------------------------- simple statements

func (c *lctx) tmp() string {
	c.tmpN++
	return fmt.Sprintf("t%d_", c.tmpN)
}

func (c *lctx) letLine(v *lvar, rhs string) string {
	return "let " + v.lean + " : " + leanTy(v.typ) + " := " + rhs
}

var readFns = map[string]string{tU8: "readU8", tU16: "read%s16", tU32: "read%s32", tU64: "read%s64"}

// binaryRead: [lhs :=|=] binary.Read(r, binary.XEndian, &v)
func (c *lctx) binaryRead(ce *ast.CallExpr, lhs ast.Expr, define bool) []string {
	rid, ok1 := ce.Args[0].(*ast.Ident)
	order := exprText(c.p.fset, ce.Args[1])
	u, ok2 := ce.Args[2].(*ast.UnaryExpr)
	if !ok1 || !ok2 || u.Op != token.AND {
		c.fail("unsupported binary.Read form %s", exprText(c.p.fset, ce))
		return nil
	}
	tid, ok := u.X.(*ast.Ident)
	r := c.lookup(rid.Name)
	if !ok || r == nil || r.typ != tReader {
		c.fail("binary.Read needs a bytes.Reader variable and &variable: %s", exprText(c.p.fset, ce))
		return nil
	}
	t := c.lookup(tid.Name)
	if t == nil || !isUns(t.typ) {
		c.fail("binary.Read target must be an unsigned fixed-width variable: %s", exprText(c.p.fset, ce))
		return nil
	}
	e := "LE"
	switch order {
	case "binary.LittleEndian":
	case "binary.BigEndian":
		e = "BE"
	default:
		c.fail("unknown byte order %s", order)
	}
	fn := readFns[t.typ]
	if strings.Contains(fn, "%s") {
		fn = fmt.Sprintf(fn, e)
	}
	errName := "_"
	if lhs != nil {
		id, ok := lhs.(*ast.Ident)
		if !ok {
			c.fail("unsupported target of binary.Read")
			return nil
		}
		if id.Name != "_" {
			var ev *lvar
			if define && (c.lookup(id.Name) == nil || c.scopes[len(c.scopes)-1][id.Name] == nil) {
				ev = c.declare(id.Name, tErr)
			} else {
				ev = c.lookup(id.Name)
			}
			if ev == nil || ev.typ != tErr {
				c.fail("binary.Read result must go to an error variable")
				return nil
			}
			errName = ev.lean
		}
	}
	return []string{fmt.Sprintf("let (%s, %s, %s) := GoRt.%s %s %s", t.lean, r.lean, errName, fn, r.lean, t.lean)}
}

// assignOne: lines for `lhs = rhsText` (rhs already rendered at the right type by the caller when typ != "")
func (c *lctx) assignTarget(l ast.Expr, rhs func(t string) string) []string {
	switch x := l.(type) {
	case *ast.Ident:
		if x.Name == "_" {
			t := rhs("")
			if strings.Contains(t, "←") {
				return []string{"let _ := " + t}
			}
			return nil
		}
		v := c.lookup(x.Name)
		if v == nil {
			c.fail("assignment to unknown variable %s", x.Name)
			return nil
		}
		if v.ptr {
			c.fail("assignment to the pointer %s itself", x.Name)
			return nil
		}
		if v.typ == tReader {
			c.fail("assignment to a reader variable")
			return nil
		}
		return []string{c.letLine(v, rhs(v.typ))}
	case *ast.StarExpr:
		if id, ok := x.X.(*ast.Ident); ok {
			if v := c.lookup(id.Name); v != nil && v.ptr {
				return []string{c.letLine(v, rhs(v.typ))}
			}
		}
	case *ast.ParenExpr:
		return c.assignTarget(x.X, rhs)
	case *ast.IndexExpr:
		id, ok := x.X.(*ast.Ident)
		if !ok {
			break
		}
		v := c.lookup(id.Name)
		if v == nil || v.typ != tBytes {
			break
		}
		val := rhs(tU8)
		if k, ok := c.constOf(x.Index); ok && k >= 0 {
			return []string{c.letLine(v, c.eff(fmt.Sprintf("GoRt.setN %s %d %s", v.lean, k, val)))}
		}
		it := c.typeOf(x.Index)
		if isUns(it) {
			return []string{c.letLine(v, c.eff("GoRt.setN "+v.lean+" ("+c.ex(x.Index, it)+").toNat "+val))}
		}
		return []string{c.letLine(v, c.eff("GoRt.set "+v.lean+" "+c.ex(x.Index, tInt)+" "+val))}
	}
	c.fail("unsupported assignment target %s", exprText(c.p.fset, l))
	return nil
}

var opOfAssign = map[token.Token]token.Token{token.ADD_ASSIGN: token.ADD, token.SUB_ASSIGN: token.SUB,
	token.MUL_ASSIGN: token.MUL, token.QUO_ASSIGN: token.QUO, token.REM_ASSIGN: token.REM,
	token.AND_ASSIGN: token.AND, token.OR_ASSIGN: token.OR, token.XOR_ASSIGN: token.XOR,
	token.SHL_ASSIGN: token.SHL, token.SHR_ASSIGN: token.SHR, token.AND_NOT_ASSIGN: token.AND_NOT}

func (c *lctx) zero(t string) string {
	if strings.HasPrefix(t, "Struct:") {
		var vs []string
		for _, f := range tupleFields(t) {
			vs = append(vs, c.zero(f))
		}
		return "(" + strings.Join(vs, ", ") + ")"
	}
	switch t {
	case tBool:
		return "false"
	case tBytes:
		return "([] : List UInt8)"
	case tErr:
		return "GoRt.nilErr"
	}
	return numLit(0, t)
}

func (c *lctx) simple(s ast.Stmt) []string {
	switch x := s.(type) {
	case nil, *ast.EmptyStmt:
		return nil
	case *ast.IncDecStmt:
		op := token.ADD
		if x.Tok == token.DEC {
			op = token.SUB
		}
		return c.assignTarget(x.X, func(t string) string {
			return c.ex(&ast.BinaryExpr{X: x.X, Op: op, Y: &ast.BasicLit{Kind: token.INT, Value: "1"}}, t)
		})
	case *ast.DeclStmt:
		gd, ok := x.Decl.(*ast.GenDecl)
		if !ok || gd.Tok != token.VAR {
			break
		}
		var out []string
		for _, sp := range gd.Specs {
			vs := sp.(*ast.ValueSpec)
			typ := ""
			if vs.Type != nil {
				t, _, ptr := c.goType(vs.Type)
				if t == "" || ptr {
					c.fail("unsupported variable type %s", exprText(c.p.fset, vs.Type))
					return nil
				}
				typ = t
			}
			var rhs []string
			var tys []string
			for i, n := range vs.Names {
				t := typ
				if i < len(vs.Values) {
					if t == "" {
						t = c.typeOf(vs.Values[i])
						if t == "" {
							t = tInt
						}
					}
					rhs = append(rhs, c.ex(vs.Values[i], t))
				} else {
					if t == "" {
						c.fail("var %s without type and value", n.Name)
						return nil
					}
					rhs = append(rhs, c.zero(t))
				}
				tys = append(tys, t)
			}
			for i, n := range vs.Names {
				v := c.declare(n.Name, tys[i])
				if n.Name != "_" {
					out = append(out, c.letLine(v, rhs[i]))
				}
			}
		}
		return out
	case *ast.ExprStmt:
		ce, ok := x.X.(*ast.CallExpr)
		if !ok {
			break
		}
		switch callName(ce) {
		case "copy":
			if len(ce.Args) == 2 {
				if id, ok := ce.Args[0].(*ast.Ident); ok {
					if v := c.lookup(id.Name); v != nil && v.typ == tBytes {
						return []string{c.letLine(v, "GoRt.copy "+v.lean+" "+c.ex(ce.Args[1], tBytes))}
					}
				}
			}
		case "binary.Read":
			if len(ce.Args) == 3 {
				return c.binaryRead(ce, nil, false)
			}
		}
	case *ast.AssignStmt:
		return c.assign(x)
	}
	c.fail("unsupported statement %s", strings.SplitN(exprText(c.p.fset, s), "\n", 2)[0])
	return nil
}

func (c *lctx) assign(x *ast.AssignStmt) []string {
	// err := binary.Read(...)
	if len(x.Lhs) == 1 && len(x.Rhs) == 1 {
		if ce, ok := x.Rhs[0].(*ast.CallExpr); ok && callName(ce) == "binary.Read" && len(ce.Args) == 3 {
			return c.binaryRead(ce, x.Lhs[0], x.Tok == token.DEFINE)
		}
		if ce, ok := x.Rhs[0].(*ast.CallExpr); ok && callName(ce) == "bytes.NewReader" && len(ce.Args) == 1 && x.Tok == token.DEFINE {
			id, ok := x.Lhs[0].(*ast.Ident)
			src, ok2 := c.simpleBytes(ce.Args[0])
			if ok && ok2 {
				v := c.declare(id.Name, tReader)
				return []string{c.letLine(v, src)}
			}
		}
	}
	if len(x.Lhs) != len(x.Rhs) {
		c.fail("unsupported assignment %s", exprText(c.p.fset, x))
		return nil
	}
	if op, ok := opOfAssign[x.Tok]; ok {
		if len(x.Lhs) != 1 {
			c.fail("unsupported assignment %s", exprText(c.p.fset, x))
			return nil
		}
		return c.assignTarget(x.Lhs[0], func(t string) string {
			return c.ex(&ast.BinaryExpr{X: x.Lhs[0], Op: op, Y: x.Rhs[0]}, t)
		})
	}
	// do the right-hand sides read anything the statement assigns?
	needTmp := false
	if len(x.Lhs) > 1 {
		names := map[string]bool{}
		for _, l := range x.Lhs {
			root := l
			for {
				switch y := root.(type) {
				case *ast.IndexExpr:
					root = y.X
					continue
				case *ast.StarExpr:
					root = y.X
					continue
				case *ast.ParenExpr:
					root = y.X
					continue
				}
				break
			}
			if id, ok := root.(*ast.Ident); ok {
				names[id.Name] = true
			}
		}
		w := &scopeWalker{c: c}
		w.push()
		w.onRead = func(n string) {
			if names[n] {
				needTmp = true
			}
		}
		for _, r := range x.Rhs {
			w.read(r)
		}
		for _, l := range x.Lhs {
			if ix, ok := l.(*ast.IndexExpr); ok {
				w.read(ix.Index)
			}
		}
	}
	var out []string
	if x.Tok == token.DEFINE {
		// types and right-hand sides first (in the environment before the declarations)
		var tys, rhs []string
		for i, l := range x.Lhs {
			id, ok := l.(*ast.Ident)
			if !ok {
				c.fail("unsupported := target")
				return nil
			}
			t := ""
			if old := c.scopes[len(c.scopes)-1][id.Name]; old != nil {
				t = old.typ // re-assignment of a variable of the same scope in a mixed `:=`
			} else {
				t = c.typeOf(x.Rhs[i])
				if t == "" {
					t = tInt
				}
			}
			tys = append(tys, t)
			rhs = append(rhs, c.ex(x.Rhs[i], t))
		}
		if needTmp {
			for i := range rhs {
				tn := c.tmp()
				out = append(out, "let "+tn+" : "+leanTy(tys[i])+" := "+rhs[i])
				rhs[i] = tn
			}
		}
		for i, l := range x.Lhs {
			id := l.(*ast.Ident)
			if id.Name == "_" {
				if strings.Contains(rhs[i], "←") {
					out = append(out, "let _ := "+rhs[i])
				}
				continue
			}
			v := c.scopes[len(c.scopes)-1][id.Name]
			if v == nil {
				v = c.declare(id.Name, tys[i])
			}
			out = append(out, c.letLine(v, rhs[i]))
		}
		return out
	}
	if x.Tok != token.ASSIGN {
		c.fail("unsupported assignment %s", exprText(c.p.fset, x))
		return nil
	}
	if !needTmp {
		for i, l := range x.Lhs {
			r := x.Rhs[i]
			out = append(out, c.assignTarget(l, func(t string) string { return c.ex(r, t) })...)
		}
		return out
	}
	// tuple assignment: all right-hand sides (and index operands) first, then the stores left to right
	var tmps []string
	for i, l := range x.Lhs {
		t := c.typeOf(l)
		if t == "" {
			t = c.typeOf(x.Rhs[i])
		}
		if t == "" {
			t = tInt
		}
		tn := c.tmp()
		out = append(out, "let "+tn+" : "+leanTy(t)+" := "+c.ex(x.Rhs[i], t))
		tmps = append(tmps, tn)
	}
	for i, l := range x.Lhs {
		tn := tmps[i]
		out = append(out, c.assignTarget(l, func(string) string { return tn })...)
	}
	return out
}

// ---------------------------------------------------------------- statement lists

func (c *lctx) block(list []ast.Stmt, k cont) []string {
	depth := len(c.scopes)
	c.push()
	return c.stmts(list, func() []string {
		c.popTo(depth)
		return k()
	})
}

func (c *lctx) stmts(list []ast.Stmt, k cont) []string {
	if c.err != "" {
		return []string{"()"}
	}
	if len(list) == 0 {
		return k()
	}
	s := list[0]
	rest := list[1:]
	next := func() []string { return c.stmts(rest, k) }
	switch x := s.(type) {
	case *ast.ReturnStmt:
		return c.returnLines(x.Results)
	case *ast.BranchStmt:
		if x.Label != nil || c.cur == nil {
			c.fail("unsupported branch statement %s", exprText(c.p.fset, x))
			return []string{"()"}
		}
		switch x.Tok {
		case token.BREAK:
			return c.fallLines(c.cur)
		case token.CONTINUE:
			return c.cur.call()
		}
		c.fail("unsupported branch statement %s", x.Tok)
		return []string{"()"}
	case *ast.BlockStmt:
		return c.block(x.List, next)
	case *ast.IfStmt:
		return c.ifStmt(x, next)
	case *ast.ForStmt:
		return c.forStmt(x, next)
	case *ast.RangeStmt:
		return c.rangeStmt(x, next)
	case *ast.ExprStmt:
		if ce, ok := x.X.(*ast.CallExpr); ok && callName(ce) == "panic" {
			if !c.opt {
				c.fail("internal: panic in a pure unit")
			}
			return []string{"none"}
		}
	}
	lines := c.simple(s)
	return append(lines, next()...)
}

// fallLines: leave the loop normally with the current state
func (c *lctx) fallLines(l *loopCtx) []string {
	save := c.saveEnv()
	c.popTo(l.depth)
	st := tupleOf(l.state, 0)
	c.restoreEnv(save)
	if l.noFall {
		c.fail("internal: break in a loop classified as never falling through")
	}
	if l.hasRet {
		return []string{c.pure("(GoRt.Exit.fall " + st + ")")}
	}
	return []string{c.pure(st)}
}

func (c *lctx) ifStmt(s *ast.IfStmt, next cont) []string {
	depth := len(c.scopes)
	c.push()
	var pre []string
	if s.Init != nil {
		pre = c.simple(s.Init)
	}
	A := s.Body.List
	var B []ast.Stmt
	var elseNode ast.Node
	switch e := s.Else.(type) {
	case *ast.BlockStmt:
		B = e.List
		elseNode = e
	case *ast.IfStmt:
		B = []ast.Stmt{e}
		elseNode = e
	}
	afterIf := func() []string {
		c.popTo(depth)
		return next()
	}
	cond := c.ex(s.Cond, tBool)
	if !anyJump(s.Body) && !anyJump(elseNode) {
		// both branches only compute: merge the variables they assign
		all := append(append([]ast.Stmt{}, A...), B...)
		assigned, _ := c.assignedAndRead(all...)
		effectful := c.effectful(s.Body) || c.effectful(elseNode)
		var lines []string
		// `if c { x = e }` → let x := if c then e else x
		if len(assigned) == 1 && len(A) == 1 && len(B) == 0 && !effectful {
			if as, ok := A[0].(*ast.AssignStmt); ok && as.Tok != token.DEFINE && len(as.Lhs) == 1 && len(as.Rhs) == 1 {
				if id, ok := as.Lhs[0].(*ast.Ident); ok && c.lookup(id.Name) == assigned[0] {
					v := assigned[0]
					rhs := ""
					if op, ok := opOfAssign[as.Tok]; ok {
						rhs = c.ex(&ast.BinaryExpr{X: as.Lhs[0], Op: op, Y: as.Rhs[0]}, v.typ)
					} else if as.Tok == token.ASSIGN {
						rhs = c.ex(as.Rhs[0], v.typ)
					}
					if rhs != "" {
						lines = []string{c.letLine(v, "if "+cond+" then "+rhs+" else "+v.lean)}
						return append(append(pre, lines...), afterIf()...)
					}
				}
			}
		}
		tup := tupleOf(assigned, 0)
		fin := func() []string {
			if effectful {
				return []string{"pure " + tupleOf(assigned, 0)}
			}
			return []string{tupleOf(assigned, 0)}
		}
		save := c.saveEnv()
		a := c.block(A, fin)
		c.restoreEnv(save)
		b := c.block(B, fin)
		c.restoreEnv(save)
		if effectful {
			if !c.opt {
				c.fail("internal: effectful branch in a pure unit")
			}
			lines = append(lines, "let "+tup+" ← (if "+cond+" then do")
			lines = append(lines, ind(a, 6)...)
			lines = append(lines, "    else do")
			lines = append(lines, ind(b, 6)...)
			lines[len(lines)-1] += ")"
		} else {
			lines = append(lines, "let "+tup+" := (if "+cond+" then")
			lines = append(lines, ind(paren(a), 6)...)
			lines = append(lines, "    else")
			lines = append(lines, ind(paren(b), 6)...)
			lines[len(lines)-1] += ")"
		}
		return append(append(pre, lines...), afterIf()...)
	}
	// a branch jumps: every path that falls through continues with the rest (duplicated if both do)
	save := c.saveEnv()
	a := c.block(A, afterIf)
	c.restoreEnv(save)
	b := c.block(B, afterIf)
	c.restoreEnv(save)
	if !c.opt {
		a, b = paren(a), paren(b)
	}
	lines := append(pre, "if "+cond+" then")
	lines = append(lines, ind(a, 2)...)
	lines = append(lines, "else")
	lines = append(lines, ind(b, 2)...)
	return lines
}

// ---------------------------------------------------------------- loops

// pos: the file of a node — without the line number, so that edits elsewhere in the file do not
// change the generated text (content-stable output keeps Lake's cache warm)
func (c *lctx) pos(n ast.Node) string {
	p := c.p.fset.Position(n.Pos())
	return filepath.Base(p.Filename)
}

func (c *lctx) loopHeader(n ast.Node) string {
	t := exprText(c.p.fset, n)
	if i := strings.Index(t, "{"); i >= 0 {
		t = strings.TrimSpace(t[:i])
	}
	return strings.ReplaceAll(t, "-/", "- /")
}

func paramList(vs []*lvar) string {
	var ss []string
	for _, v := range vs {
		ss = append(ss, "("+v.lean+" : "+leanTy(v.typ)+")")
	}
	return strings.Join(ss, " ")
}

func defHead(name string, caps []*lvar) string {
	if len(caps) == 0 {
		return name
	}
	return name + " " + paramList(caps)
}

func names(vs []*lvar) string {
	var ss []string
	for _, v := range vs {
		ss = append(ss, v.lean)
	}
	return strings.Join(ss, " ")
}

func minus(a, b []*lvar) []*lvar {
	in := map[*lvar]bool{}
	for _, v := range b {
		in[v] = true
	}
	var out []*lvar
	for _, v := range a {
		if !in[v] {
			out = append(out, v)
		}
	}
	return out
}

func (c *lctx) addOuts(read []*lvar) []*lvar {
	seen := map[*lvar]bool{}
	for _, v := range read {
		seen[v] = true
	}
	for _, o := range append(append([]*lvar{}, c.outs...), c.named...) {
		if v := c.lookup(o.goName); v != nil && !seen[v] {
			read = append(read, v)
			seen[v] = true
		}
	}
	sort.Slice(read, func(i, j int) bool { return read[i].seq < read[j].seq })
	return read
}

// defaultFuel derives a fuel expression from a condition `a < b` etc. (evaluated at loop entry)
func (c *lctx) defaultFuel(cond ast.Expr) string {
	be, ok := cond.(*ast.BinaryExpr)
	if !ok {
		if p, ok := cond.(*ast.ParenExpr); ok {
			return c.defaultFuel(p.X)
		}
		return ""
	}
	if be.Op == token.LAND {
		if f := c.defaultFuel(be.X); f != "" {
			return f
		}
		return c.defaultFuel(be.Y)
	}
	var hi, lo ast.Expr
	extra := 1
	switch be.Op {
	case token.LSS:
		hi, lo = be.Y, be.X
	case token.LEQ:
		hi, lo, extra = be.Y, be.X, 2
	case token.GTR:
		hi, lo = be.X, be.Y
	case token.GEQ:
		hi, lo, extra = be.X, be.Y, 2
	default:
		return ""
	}
	if c.effectful(hi) || c.effectful(lo) {
		return ""
	}
	t := c.typeOf(hi)
	if t == "" {
		t = c.typeOf(lo)
	}
	if t == "" {
		t = tInt
	}
	if isUns(t) {
		return fmt.Sprintf("((%s).toNat - (%s).toNat + %d)", c.ex(hi, t), c.ex(lo, t), extra)
	}
	return fmt.Sprintf("((%s - %s).toNat + %d)", c.ex(hi, tInt), c.ex(lo, tInt), extra)
}

func (c *lctx) resultType(l *loopCtx) string {
	r := tupleType(l.state)
	if l.noFall {
		r = c.retTy
	} else if l.hasRet {
		r = "GoRt.Exit (" + r + ") (" + c.retTy + ")"
	}
	return r
}

// afterLoop: lines in the caller that receive the helper's result and go on
func (c *lctx) afterLoop(l *loopCtx, callText string, lopt bool, depth0 int, next cont) []string {
	bind := " := "
	scrut := callText
	if lopt {
		bind = " ← "
		scrut = "(← " + callText + ")"
	}
	if l.noFall {
		c.popTo(depth0)
		if c.cur != nil && !c.cur.noFall {
			return []string{"let r_" + bind + callText, c.pure("(GoRt.Exit.ret r_)")}
		}
		if lopt == c.opt {
			return []string{callText}
		}
		return []string{"pure (" + callText + ")"}
	}
	pat := tupleOf(l.state, depth0)
	if !l.hasRet {
		lines := []string{"let " + pat + bind + callText}
		c.popTo(depth0)
		return append(lines, next()...)
	}
	lines := []string{"match " + scrut + " with", "| GoRt.Exit.ret r_ => " + c.wrapRet("r_"), "| GoRt.Exit.fall " + pat + " =>"}
	c.popTo(depth0)
	rest := next()
	lines = append(lines, ind(rest, 2)...)
	if !c.opt {
		lines = paren(lines)
	}
	return lines
}

func (c *lctx) forStmt(s *ast.ForStmt, next cont) []string {
	depth0 := len(c.scopes)
	c.push()
	var lines []string
	if s.Init != nil {
		lines = append(lines, c.simple(s.Init)...)
	}
	c.loopN++
	n := c.loopN
	l := &loopCtx{name: fmt.Sprintf("%s.loop%d", c.fname, n), depth: len(c.scopes)}
	var condStmt ast.Stmt
	if s.Cond != nil {
		condStmt = &ast.ExprStmt{X: s.Cond}
	}
	assigned, read := c.assignedAndRead(s.Body, s.Post, condStmt)
	hasRet, hasBrk, _ := mayJump(s.Body)
	l.hasRet = hasRet
	l.noFall = s.Cond == nil && !hasBrk
	if l.noFall && !hasRet {
		c.fail("loop %d (%s) never ends", n, c.pos(s))
		return []string{"()"}
	}
	if hasRet {
		read = c.addOuts(read)
	}
	l.state = assigned
	caps := minus(read, assigned)
	// fuel at loop entry
	fuel := ""
	if f, ok := c.fuel[n]; ok {
		fe, err := parser.ParseExpr(f)
		if err != nil {
			c.fail("fuel%d does not parse: %v", n, err)
			return []string{"()"}
		}
		fuel = c.asNat(fe)
	} else if s.Cond != nil {
		fuel = c.defaultFuel(s.Cond)
	}
	if fuel == "" {
		c.fail("loop %d (%s) needs a fuel expression (option fuel%d=…)", n, c.pos(s), n)
		return []string{"()"}
	}
	// the helper
	saveOpt, saveCur, saveEnv := c.opt, c.cur, c.saveEnv()
	c.opt, c.cur = true, l
	callNext := l.name
	if len(caps) > 0 {
		callNext += " " + names(caps)
	}
	l.call = func() []string {
		sv := c.saveEnv()
		c.popTo(l.depth)
		var out []string
		if s.Post != nil {
			out = c.simple(s.Post)
		}
		out = append(out, callNext+" fuel_ "+names(l.state))
		c.restoreEnv(sv)
		return out
	}
	body := c.block(s.Body.List, l.call)
	var hl []string
	if s.Cond != nil {
		c.restoreEnv(saveEnv)
		cond := c.ex(s.Cond, tBool)
		hl = append(hl, "if "+cond+" then")
		hl = append(hl, ind(body, 2)...)
		hl = append(hl, "else")
		hl = append(hl, ind(c.fallLines(l), 2)...)
	} else {
		hl = body
	}
	c.restoreEnv(saveEnv)
	wild := strings.TrimSpace(strings.Repeat("_, ", len(l.state)))
	wild = strings.TrimSuffix(wild, ",")
	var h strings.Builder
	fmt.Fprintf(&h, "/-- loop %d of `func %s` (%s): `%s`; state (%s); `none` = out of fuel or a run-time panic -/\n",
		n, c.it.Name, c.pos(s), c.loopHeader(s), strings.ReplaceAll(names(l.state), " ", ", "))
	sig := "Nat"
	for _, v := range l.state {
		sig += " → " + leanTy(v.typ)
	}
	fmt.Fprintf(&h, "def %s : %s → Option (%s)\n", defHead(l.name, caps), sig, c.resultType(l))
	pats := "0"
	if wild != "" {
		pats += ", " + wild
	}
	fmt.Fprintf(&h, "  | %s => none\n", pats)
	pats = "fuel_ + 1"
	if len(l.state) > 0 {
		pats += ", " + strings.ReplaceAll(names(l.state), " ", ", ")
	}
	fmt.Fprintf(&h, "  | %s => do\n", pats)
	for _, ln := range ind(hl, 4) {
		h.WriteString(ln + "\n")
	}
	c.helpers = append(c.helpers, h.String())
	c.opt, c.cur = saveOpt, saveCur
	if !c.opt {
		c.fail("internal: fuel loop in a pure unit")
	}
	call := l.name
	if len(caps) > 0 {
		call += " " + names(caps)
	}
	call += " " + fuel
	if len(l.state) > 0 {
		call += " " + names(l.state)
	}
	return append(lines, c.afterLoop(l, call, true, depth0, next)...)
}

func (c *lctx) rangeStmt(s *ast.RangeStmt, next cont) []string {
	depth0 := len(c.scopes)
	xs, ok := c.simpleBytes(s.X)
	if !ok {
		c.fail("range over something that is not a plain []byte variable: %s", exprText(c.p.fset, s.X))
		return []string{"()"}
	}
	if s.Tok != token.DEFINE && (s.Key != nil || s.Value != nil) {
		c.fail("range with = instead of :=")
		return []string{"()"}
	}
	keyName, valName := "", ""
	if id, ok := s.Key.(*ast.Ident); ok && id.Name != "_" {
		keyName = id.Name
	}
	if id, ok := s.Value.(*ast.Ident); ok && id.Name != "_" {
		valName = id.Name
	}
	written := c.rangeWritten(s)
	if id, ok := s.X.(*ast.Ident); ok && written {
		// only element writes keep the length: `b = …` inside the body is refused
		bad := false
		ast.Inspect(s.Body, func(n ast.Node) bool {
			if as, ok := n.(*ast.AssignStmt); ok {
				for _, lh := range as.Lhs {
					if li, ok := lh.(*ast.Ident); ok && li.Name == id.Name {
						bad = true
					}
				}
			}
			return true
		})
		if bad {
			c.fail("the ranged slice is re-assigned inside its loop")
			return []string{"()"}
		}
	}
	c.loopN++
	n := c.loopN
	l := &loopCtx{name: fmt.Sprintf("%s.loop%d", c.fname, n), depth: len(c.scopes) + 1}
	c.push()
	var key, val *lvar
	if keyName != "" {
		key = c.declare(keyName, tInt)
	}
	if valName != "" {
		val = c.declare(valName, tU8)
	}
	assigned, read := c.assignedAndRead(s.Body)
	for _, v := range assigned {
		if v == key {
			c.fail("the range index %s is assigned inside the loop", keyName)
			return []string{"()"}
		}
	}
	hasRet, _, _ := mayJump(s.Body)
	l.hasRet = hasRet
	if hasRet {
		read = c.addOuts(read)
	}
	l.state = minus(assigned, []*lvar{val})
	caps := minus(minus(read, assigned), []*lvar{key, val})
	lopt := c.effectful(s.Body) || (written && val != nil)
	bodyEff := lopt
	if lopt && !c.opt {
		c.fail("internal: effectful range loop in a pure unit")
	}
	stateNames := strings.ReplaceAll(names(l.state), " ", ", ")

	// List.foldl for the plainest shape
	if !written && key == nil && !anyJump(s.Body) && !lopt && len(l.state) >= 1 {
		saveCur := c.cur
		vn := "_"
		if val != nil {
			vn = val.lean
		}
		st := tupleOf(l.state, 0)
		var lines []string
		saveOpt := c.opt
		c.opt = false
		if len(l.state) == 1 && len(s.Body.List) == 1 {
			if as, ok := s.Body.List[0].(*ast.AssignStmt); ok && len(as.Lhs) == 1 {
				if id, ok := as.Lhs[0].(*ast.Ident); ok && c.lookup(id.Name) == l.state[0] && as.Tok != token.DEFINE {
					v := l.state[0]
					var rhs string
					if op, ok := opOfAssign[as.Tok]; ok {
						rhs = c.ex(&ast.BinaryExpr{X: as.Lhs[0], Op: op, Y: as.Rhs[0]}, v.typ)
					} else {
						rhs = c.ex(as.Rhs[0], v.typ)
					}
					lines = []string{fmt.Sprintf("let %s : %s := %s.foldl (fun %s %s => %s) %s", v.lean, leanTy(v.typ), xs, v.lean, vn, rhs, v.lean)}
				}
			}
		}
		if lines == nil {
			body := c.block(s.Body.List, func() []string { return []string{st} })
			lines = append(lines, fmt.Sprintf("let %s := %s.foldl (fun %s %s =>", st, xs, st, vn))
			lines = append(lines, ind(paren(body), 4)...)
			lines[len(lines)-1] += ") " + st
		}
		c.opt, c.cur = saveOpt, saveCur
		c.popTo(depth0)
		return append(lines, next()...)
	}

	saveOpt, saveCur, saveEnv := c.opt, c.cur, c.saveEnv()
	c.opt, c.cur = lopt, l
	callNext := l.name
	if len(caps) > 0 {
		callNext += " " + names(caps)
	}
	keyArg := ""
	var h strings.Builder
	resTy := c.resultType(l)
	if lopt {
		resTy = "Option (" + resTy + ")"
	}
	sig := ""
	for _, v := range l.state {
		sig += " → " + leanTy(v.typ)
	}
	doKw := ""
	if lopt {
		doKw = " do"
	}
	kn := "k_"
	if key != nil {
		kn = key.lean
	}
	if !written {
		// structural recursion on the list
		if key != nil {
			keyArg = " (" + key.lean + " + 1)"
		}
		l.call = func() []string {
			return []string{strings.TrimSpace(callNext + " xs_" + keyArg + " " + names(l.state))}
		}
		body := c.block(s.Body.List, l.call)
		c.restoreEnv(saveEnv)
		fmt.Fprintf(&h, "/-- loop %d of `func %s` (%s): `%s`; structural recursion on the slice; state (%s) -/\n",
			n, c.it.Name, c.pos(s), c.loopHeader(s), stateNames)
		ks, kp0, kp1 := "", "", ""
		if key != nil {
			ks, kp0, kp1 = " → Int", ", _", ", "+key.lean
		}
		fmt.Fprintf(&h, "def %s : List UInt8%s%s → %s\n", defHead(l.name, caps), ks, sig, resTy)
		sp := ""
		if len(l.state) > 0 {
			sp = ", " + stateNames
		}
		fmt.Fprintf(&h, "  | []%s%s => %s\n", kp0, sp, strings.Join(c.fallLines(l), " "))
		vn := "_"
		if val != nil {
			vn = val.lean
		}
		fmt.Fprintf(&h, "  | %s :: xs_%s%s =>%s\n", vn, kp1, sp, doKw)
		for _, ln := range ind(body, 4) {
			h.WriteString(ln + "\n")
		}
	} else {
		// the slice is written in the body: count len(slice) iterations and read the element live
		l.call = func() []string {
			return []string{strings.TrimSpace(callNext + " n_ (" + kn + " + 1) " + names(l.state))}
		}
		body := c.block(s.Body.List, l.call)
		c.restoreEnv(saveEnv)
		if val != nil {
			body = append([]string{"let " + val.lean + " : UInt8 := (← GoRt.idx " + xs + " " + kn + ")"}, body...)
		}
		fmt.Fprintf(&h, "/-- loop %d of `func %s` (%s): `%s`; the slice is written in the body, so the loop counts `len` iterations; state (%s) -/\n",
			n, c.it.Name, c.pos(s), c.loopHeader(s), stateNames)
		fmt.Fprintf(&h, "def %s : Nat → Int%s → %s\n", defHead(l.name, caps), sig, resTy)
		sp := ""
		if len(l.state) > 0 {
			sp = ", " + stateNames
		}
		fmt.Fprintf(&h, "  | 0, _%s => %s\n", sp, strings.Join(c.fallLines(l), " "))
		fmt.Fprintf(&h, "  | n_ + 1, %s%s =>%s\n", kn, sp, doKw)
		for _, ln := range ind(body, 4) {
			h.WriteString(ln + "\n")
		}
	}
	_ = bodyEff
	c.helpers = append(c.helpers, h.String())
	c.opt, c.cur = saveOpt, saveCur
	c.restoreEnv(saveEnv)
	call := l.name
	if len(caps) > 0 {
		call += " " + names(caps)
	}
	if !written {
		call += " " + xs
		if key != nil {
			call += " (0 : Int)"
		}
	} else {
		call += " " + xs + ".length (0 : Int)"
	}
	if len(l.state) > 0 {
		call += " " + names(l.state)
	}
	return c.afterLoop(l, call, lopt, depth0, next)
}
