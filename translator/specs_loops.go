package main

// Go functions with loops over byte slices translated *as code* (kind loopfn, exprfn_loops*.go).
// The tie theorems `∀ x, model x = Gen.Code<Area>.fn_F x` live in lean/FianoModel/<Area>/CodeTie.lean.
func init() {
	specs = append(specs,
		Spec{Area: "CodeUefi", Pkg: "pkg/uefi", Items: []Item{
			{Kind: "loopfn", Name: "Checksum8"},
			{Kind: "loopfn", Name: "Checksum16"},
			{Kind: "loopfn", Name: "Erase", Arg: "in=Attributes.ErasePolarity:uint8"},
			{Kind: "loopfn", Name: "IsErased"},
			{Kind: "loopfn", Name: "FindFirmwareVolumeOffset"},
			{Kind: "loopfn", Name: "FindSignature"},
			{Kind: "loopfn", Name: "FindMEDescriptor"},
			{Kind: "loopfn", Name: "Read3Size"},
			{Kind: "loopfn", Name: "Write3Size"},
			{Kind: "loopfn", Name: "fileAttr.IsLarge"},
			{Kind: "loopfn", Name: "fileAttr.GetAlignment"},
			{Kind: "loopfn", Name: "fileAttr.setLarge"},
			{Kind: "loopfn", Name: "fileAttr.HasChecksum"},
			{Kind: "loopfn", Name: "NVarAttribute.IsValid"},
			{Kind: "loopfn", Name: "NVar.parseExtendedHeader", As: "frag_nvarChecksum",
				Arg: "from=calculatedChecksum := uint8(0);to=for;in=v.buf:[]byte,v.Header.Size:uint16;out=calculatedChecksum"},
		}},
		Spec{Area: "CodeAmd", Pkg: "pkg/amd/manifest", Items: []Item{
			{Kind: "loopfn", Name: "fletcherCRC32", Arg: "fuel2=blockLen"},
			{Kind: "loopfn", Name: "CalculatePSPDirectoryCheckSum"},
			{Kind: "loopfn", Name: "CalculateBiosDirectoryCheckSum"},
		}},
		Spec{Area: "CodeCompression", Pkg: "pkg/compression", Items: []Item{
			{Kind: "loopfn", Name: "test86MSByte"},
			{Kind: "loopfn", Name: "x86Convert", Arg: "fuel1=len(data)+1"},
		}},
		Spec{Area: "CodeFit", Pkg: "pkg/intel/metadata/fit", Items: []Item{
			{Kind: "loopfn", Name: "EntryHeaders.CalculateChecksum", As: "frag_headerByteSum",
				Arg: "from=result := uint8(0);to=for;in=buf.Bytes():[]byte;out=result"},
			{Kind: "loopfn", Name: "TypeAndIsChecksumValid.IsChecksumValid"},
			{Kind: "loopfn", Name: "TypeAndIsChecksumValid.Type"},
			{Kind: "loopfn", Name: "TypeAndIsChecksumValid.SetType"},
			{Kind: "loopfn", Name: "TypeAndIsChecksumValid.SetIsChecksumValid"},
			{Kind: "loopfn", Name: "GetPointerCoordinates"},
		}},
		Spec{Area: "CodeGuid", Pkg: "pkg/guid", Items: []Item{
			{Kind: "loopfn", Name: "reverse"},
		}},
		Spec{Area: "CodePsb", Pkg: "pkg/amd/psb", Items: []Item{
			{Kind: "loopfn", Name: "reverse"},
			{Kind: "loopfn", Name: "checkBoundaries"},
			{Kind: "loopfn", Name: "parsePlatformBinding"},
			{Kind: "loopfn", Name: "parseSecurityFeatureVector"},
		}},
		Spec{Area: "CodeCbnt", Pkg: "pkg/intel/metadata/cbnt", Items: []Item{
			{Kind: "loopfn", Name: "reverseBytes"},
			{Kind: "loopfn", Name: "BitSize.InBits"},
			{Kind: "loopfn", Name: "BitSize.InBytes"},
		}},
		Spec{Area: "CodeCbfs", Pkg: "pkg/cbfs", Items: []Item{
			{Kind: "loopfn", Name: "ffbyte"},
		}},
	)
}
