package main

// C12 (tighten_me): constants, packed layouts and statement inventories of the anchored code.
func init() {
	specs = append(specs, Spec{Area: "TightenMe", Pkg: "pkg/uefi", Items: []Item{
		{Kind: "const", Name: "RegionBlockSize"},
		{Kind: "const", Name: "FlashDescriptorLength"},
		{Kind: "const", Name: "FlashDescriptorMapSize"},
		{Kind: "const", Name: "FlashRegionSectionSize"},
		{Kind: "const", Name: "FlashMasterSectionSize"},
		{Kind: "const", Name: "MEPartitionDescriptorMinLength"},
		{Kind: "const", Name: "MEPartitionTableEntryLength"},
		{Kind: "const", Name: "FirmwareVolumeFixedHeaderSize"},
		{Kind: "const", Name: "FirmwareVolumeMinSize"},
		{Kind: "const", Name: "FirmwareVolumeExtHeaderMinSize"},
		{Kind: "const", Name: "FileHeaderMinLength"},
		{Kind: "const", Name: "poisonedPolarity"},
		{Kind: "const", Name: "RegionTypeBIOS"},
		{Kind: "const", Name: "RegionTypeME"},
		{Kind: "bytesvar", Name: "FlashSignature"},
		{Kind: "bytesvar", Name: "MEFPTSignature"},
		{Kind: "layout", Name: "FlashRegion"},
		{Kind: "layout", Name: "FlashRegionSection"},
		{Kind: "layout", Name: "FlashDescriptorMap"},
		{Kind: "layout", Name: "RegionPermissions"},
		{Kind: "layout", Name: "FlashMasterSection"},
		{Kind: "layout", Name: "MEPartitionEntry"},
		{Kind: "layout", Name: "Block"},
		{Kind: "calls", Name: "NewFlashRegionSection", Arg: "binary.Read"},
		{Kind: "calls", Name: "NewMEFPT", Arg: "binary.Read"},
		{Kind: "calls", Name: "MEFPT.parsePartitions", Arg: "binary.Read"},
		{Kind: "sites", Name: "NewFlashImage"},
		{Kind: "sites", Name: "FlashImage.fillRegionGaps"},
		{Kind: "sites", Name: "FlashDescriptor.ParseFlashDescriptor"},
		{Kind: "sites", Name: "NewMEFPT"},
		{Kind: "sites", Name: "NewMERegion"},
		{Kind: "assigns", Name: "NewMERegion"},
	}})
	specs = append(specs, Spec{Area: "TightenMeVis", Pkg: "pkg/visitors", Items: []Item{
		{Kind: "sites", Name: "TightenME.process"},
		{Kind: "assigns", Name: "TightenME.process"},
		{Kind: "calls", Name: "TightenME.process", Arg: "fmt.Errorf"},
		{Kind: "calls", Name: "TightenME.process", Arg: "uefi.IsErased"},
		{Kind: "calls", Name: "TightenME.process", Arg: "uefi.NewBIOSPadding"},
		{Kind: "calls", Name: "TightenME.process", Arg: "uint16"},
	}})
}
