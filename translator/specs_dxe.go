package main

// C11 (DXE cleaner).  The model is a symbolic state machine, so there is little to regenerate:
// the file-type constants the code branches on (the model's `Kind` constructors must stay
// distinct values), and two call inventories that pin down *how* the cleaner removes
// (by GUID predicate; PEIM → one CreatePadFile site).  Only package-qualified / top-level
// callees are used, so renaming locals or receivers does not disturb the facts.
func init() {
	specs = append(specs, Spec{Area: "Dxe", Pkg: "pkg/visitors", Items: []Item{
		{Kind: "calls", Name: "Remove.Visit", Arg: "uefi.CreatePadFile"},
		{Kind: "calls", Name: "DXECleaner.Run", Arg: "FindFileGUIDPredicate"},
	}})
	specs = append(specs, Spec{Area: "DxeUefi", Pkg: "pkg/uefi", Items: []Item{
		{Kind: "const", Name: "FVFileTypeDriver"},
		{Kind: "const", Name: "FVFileTypePEIM"},
		{Kind: "const", Name: "FVFileTypePad"},
		{Kind: "const", Name: "FVFileTypeApplication"},
		{Kind: "const", Name: "FileHeaderMinLength"},
	}})
}
