package main

import (
	"os"
	"testing"
)

// go test -run LoopFn      (LOOPFN_LEAN=../lean enables the semantic part; default: ../lean if present)
func TestLoopFnSelfTest(t *testing.T) {
	dir := os.Getenv("LOOPFN_LEAN")
	if dir == "" {
		if _, err := os.Stat("../lean/lakefile.toml"); err == nil {
			dir = "../lean"
		}
	}
	fails, n := loopfnSelfTest(dir, os.Stderr)
	t.Logf("%d checks", n)
	for _, f := range fails {
		t.Error(f)
	}
}
