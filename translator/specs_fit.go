package main

// C14 (FIT): constants, packed layouts, the entry-type registry and call inventories of the
// anchored functions of pkg/intel/metadata/fit, its sub-packages consts and check, and
// cmds/fittool/commands.  Compared with the model in lean/FianoModel/Fit/Tie.lean.
func init() {
	fitItems := []Item{
		{Kind: "layout", Name: "EntryHeaders"},
		{Kind: "layout", Name: "Uint24"},
		{Kind: "layout", Name: "EntrySACMDataCommon"},
	}
	for _, c := range []string{"EntryTypeFITHeaderEntry", "EntryTypeMicrocodeUpdateEntry", "EntryTypeStartupACModuleEntry",
		"EntryTypeDiagnosticACModuleEntry", "EntryTypeBIOSStartupModuleEntry", "EntryTypeTPMPolicyRecord",
		"EntryTypeBIOSPolicyRecord", "EntryTypeTXTPolicyRecord", "EntryTypeKeyManifestRecord",
		"EntryTypeBootPolicyManifest", "EntryTypeCSESecureBoot", "EntryTypeFeaturePolicyDeliveryRecord",
		"EntryTypeJMPDebugPolicy", "EntryTypeSkip"} {
		fitItems = append(fitItems, Item{Kind: "const", Name: c})
	}
	// Call inventories: only callees that are package-level names (stable under renaming of
	// locals / parameters); Fit/Tie.lean compares counts, order and key tokens of the arguments
	// (byte order, shifts, whence), not whole texts.
	fitItems = append(fitItems,
		// the registry: TYPE value -> Go type
		Item{Kind: "calls", Name: "init", Arg: "RegisterEntryType"},
		// header codec: one packed little-endian record per header
		Item{Kind: "calls", Name: "EntryHeaders.WriteTo", Arg: "binary.Write"},
		Item{Kind: "calls", Name: "ParseEntryHeadersFrom", Arg: "binary.Read"},
		Item{Kind: "calls", Name: "ParseTable", Arg: "ParseEntryHeadersFrom"},
		Item{Kind: "calls", Name: "EntryHeaders.CalculateChecksum", Arg: "binary.Write"},
		// the []byte encoders (as repaired): copy into b, advance by n
		Item{Kind: "calls", Name: "EntryHeaders.Write", Arg: "copy"},
		Item{Kind: "calls", Name: "EntryHeaders.Write", Arg: "bytes.NewBuffer"},
		Item{Kind: "sites", Name: "Table.Write"},
		// Inject: pointer value and its encoding
		Item{Kind: "calls", Name: "Entries.InjectTo", Arg: "binary.Write"},
		Item{Kind: "calls", Name: "Entries.InjectTo", Arg: "CalculatePhysAddrFromOffset"},
		Item{Kind: "calls", Name: "Address64.Offset", Arg: "CalculateOffsetFromPhysAddr"},
		Item{Kind: "calls", Name: "Address64.SetOffset", Arg: "CalculatePhysAddrFromOffset"},
		// locating the table
		Item{Kind: "calls", Name: "GetHeadersTableRangeFrom", Arg: "check.BytesRange"},
		Item{Kind: "calls", Name: "GetHeadersTableRangeFrom", Arg: "GetPointerCoordinates"},
		Item{Kind: "calls", Name: "GetHeadersTableRangeFrom", Arg: "binary.LittleEndian.Uint64"},
		Item{Kind: "calls", Name: "GetHeadersTableRangeFrom", Arg: "CalculateTailOffsetFromPhysAddr"},
		Item{Kind: "calls", Name: "GetHeadersTableRangeFrom", Arg: "binary.Read"},
		Item{Kind: "calls", Name: "GetHeadersTableRangeFrom", Arg: "bytes.Equal"},
		Item{Kind: "calls", Name: "GetHeadersTableRangeFrom", Arg: "uint64"},
		Item{Kind: "calls", Name: "GetTableFrom", Arg: "sliceOrCopyBytesFrom"},
		Item{Kind: "calls", Name: "sliceOrCopyBytesFrom", Arg: "check.BytesRange"},
		Item{Kind: "sites", Name: "sliceOrCopyBytesFrom"},
		Item{Kind: "calls", Name: "entryInitDataSegmentBytes", Arg: "sliceOrCopyBytesFrom"},
		// per-type data size rules
		Item{Kind: "calls", Name: "EntryHeaders.mostCommonGetDataSegmentSize", Arg: "uint64"},
		Item{Kind: "calls", Name: "EntryKeyManifestRecord.CustomGetDataSegmentSize", Arg: "uint64"},
		Item{Kind: "calls", Name: "EntryBootPolicyManifestRecord.CustomGetDataSegmentSize", Arg: "uint64"},
		Item{Kind: "calls", Name: "EntryBIOSPolicyRecord.CustomGetDataSegmentSize", Arg: "uint64"},
		Item{Kind: "calls", Name: "EntryFITHeaderEntry.CustomGetDataSegmentSize", Arg: "fmt.Errorf"},
		Item{Kind: "calls", Name: "EntryTXTPolicyRecord.CustomGetDataSegmentSize", Arg: "fmt.Errorf"},
		Item{Kind: "calls", Name: "EntryTPMPolicyRecord.CustomGetDataSegmentSize", Arg: "fmt.Errorf"},
		Item{Kind: "calls", Name: "EntryDiagnosticACM.CustomGetDataSegmentSize", Arg: "fmt.Errorf"},
		Item{Kind: "calls", Name: "EntrySACM.CustomGetDataSegmentSize", Arg: "EntrySACMParseSizeFrom"},
		Item{Kind: "calls", Name: "EntrySACMParseSizeFrom", Arg: "binary.Read"},
		// RecalculateHeaders
		Item{Kind: "assigns", Name: "mostCommonRecalculateHeadersOfEntry"},
		Item{Kind: "calls", Name: "mostCommonRecalculateHeadersOfEntry", Arg: "uint32"},
		Item{Kind: "calls", Name: "mostCommonRecalculateHeadersOfEntry", Arg: "EntryVersion"},
		Item{Kind: "calls", Name: "EntryKeyManifestRecord.CustomRecalculateHeaders", Arg: "uint32"},
		Item{Kind: "calls", Name: "EntryBootPolicyManifestRecord.CustomRecalculateHeaders", Arg: "uint32"},
		Item{Kind: "calls", Name: "EntryBIOSPolicyRecord.CustomRecalculateHeaders", Arg: "uint32"},
		Item{Kind: "calls", Name: "EntryKeyManifestRecord.CustomRecalculateHeaders", Arg: "mostCommonRecalculateHeadersOfEntry"},
		Item{Kind: "calls", Name: "EntryBootPolicyManifestRecord.CustomRecalculateHeaders", Arg: "mostCommonRecalculateHeadersOfEntry"},
		Item{Kind: "calls", Name: "EntryBIOSPolicyRecord.CustomRecalculateHeaders", Arg: "mostCommonRecalculateHeadersOfEntry"},
		Item{Kind: "calls", Name: "EntryFITHeaderEntry.CustomRecalculateHeaders", Arg: "mostCommonRecalculateHeadersOfEntry"},
		Item{Kind: "calls", Name: "EntrySACM.CustomRecalculateHeaders", Arg: "mostCommonRecalculateHeadersOfEntry"},
		Item{Kind: "calls", Name: "EntryTXTPolicyRecord.CustomRecalculateHeaders", Arg: "mostCommonRecalculateHeadersOfEntry"},
		Item{Kind: "calls", Name: "Entries.RecalculateHeaders", Arg: "uint32"},
	)
	specs = append(specs, Spec{Area: "Fit", Pkg: "pkg/intel/metadata/fit", Items: fitItems})
	specs = append(specs, Spec{Area: "FitConsts", Pkg: "pkg/intel/metadata/fit/consts", Items: []Item{
		{Kind: "const", Name: "BasePhysAddr"},
		{Kind: "const", Name: "FITPointerOffset"},
		{Kind: "const", Name: "FITPointerPhysAddr"},
		{Kind: "const", Name: "FITPointerSize"},
	}})
	specs = append(specs, Spec{Area: "FitToolInit", Pkg: "cmds/fittool/commands/init", Items: []Item{
		{Kind: "calls", Name: "Command.Execute", Arg: "fit.Address64"},
		{Kind: "calls", Name: "Command.Execute", Arg: "uint64"},
	}})
	specs = append(specs, Spec{Area: "FitToolAdd", Pkg: "cmds/fittool/commands/addrawheaders", Items: []Item{
		{Kind: "calls", Name: "Command.Execute", Arg: "fit.EntryVersion"},
		{Kind: "calls", Name: "Command.Execute", Arg: "uint32"},
	}})
}
