package main

func init() {
	items := []Item{
		{Kind: "strconst", Name: "FileMagic"},
		{Kind: "varexpr", Name: "Endian"},
		{Kind: "const", Name: "FileSize"},
		{Kind: "const", Name: "Alignment"},
		{Kind: "const", Name: "None"},
		{Kind: "const", Name: "LZMA"},
		{Kind: "const", Name: "LZ4"},
		{Kind: "const", Name: "Unused"},
		{Kind: "const", Name: "Unused2"},
		{Kind: "const", Name: "Compressed"},
		{Kind: "const", Name: "SegEntry"},
	}
	for _, t := range []string{"TypeDeleted2", "TypeDeleted", "TypeBootBlock", "TypeMaster", "TypeLegacyStage", "TypeStage",
		"TypeSELF", "TypeFIT", "TypeOptionRom", "TypeBootSplash", "TypeRaw", "TypeVSA", "TypeMBI", "TypeMicroCode", "TypeFSP",
		"TypeMRC", "TypeMMA", "TypeEFI", "TypeStruct", "TypeCMOS", "TypeSPD", "TypeMRCCache", "TypeCMOSLayout"} {
		items = append(items, Item{Kind: "const", Name: t})
	}
	for _, l := range []string{"FileHeader", "FileAttr", "FileAttrCompression", "StageHeader", "PayloadHeader", "MasterHeader"} {
		items = append(items, Item{Kind: "layout", Name: l})
	}
	items = append(items,
		// byte order of every decoder
		Item{Kind: "calls", Name: "Read", Arg: "binary.Read"},
		Item{Kind: "calls", Name: "ReadLE", Arg: "binary.Read"},
		Item{Kind: "calls", Name: "NewFile", Arg: "Read"},
		Item{Kind: "calls", Name: "LegacyStageRecord.Read", Arg: "ReadLE"},
		Item{Kind: "calls", Name: "PayloadRecord.Read", Arg: "Read"},
		Item{Kind: "calls", Name: "File.FindAttribute", Arg: "binary.Read"},
		Item{Kind: "calls", Name: "File.Compression", Arg: "binary.Read"},
		// how the variable-length parts are read
		Item{Kind: "calls", Name: "ReadName", Arg: "io.ReadFull"},
		Item{Kind: "calls", Name: "ReadAttributes", Arg: "io.ReadFull"},
		Item{Kind: "calls", Name: "ReadData", Arg: "io.ReadFull"},
		// what the record constructors overwrite
		Item{Kind: "assigns", Name: "NewEmptyRecord"},
		Item{Kind: "assigns", Name: "NewUnknownRecord"},
		Item{Kind: "assigns", Name: "PayloadRecord.Read"},
		Item{Kind: "assigns", Name: "LegacyStageRecord.Read"},
		Item{Kind: "assigns", Name: "NewFile"},
		Item{Kind: "assigns", Name: "Image.WriteFile"},
	)
	specs = append(specs, Spec{Area: "Cbfs", Pkg: "pkg/cbfs", Items: items})
}
