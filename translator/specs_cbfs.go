package main

import (
	"fmt"
	"go/ast"
	"go/token"
	"sort"
	"strconv"
	"strings"
)

// Extraction kinds of the cbfs area (follow-up wp-c19b: write-back and presentation). All of them
// drop the receiver / local variable names, so a rename does not change the fact.
//
//	cbfs_switchstr  T.String      -> List (Nat × String): the (case constant, returned literal) pairs of its
//	                                 switch, sorted by the constant (the order of the cases does not matter)
//	cbfs_fields     T             -> List String: the field names of the struct, in declaration order
//	cbfs_keyedlit   F             -> List String: "Key=expr" of the first keyed composite literal in F, the
//	                                 receiver prefix removed from expr
//	cbfs_records    NewImage      -> List (Nat × String × String × String × String): one row per RegisterFileReader
//	                                 call of the package (and one with type 2^32 for the fallback constructor used
//	                                 by NewImage), sorted by type: (type, constructor, record type, what its Write
//	                                 emits, the arguments of recString in its String)
func recvName(fd *ast.FuncDecl) string {
	if fd.Recv != nil && len(fd.Recv.List) == 1 && len(fd.Recv.List[0].Names) == 1 {
		return fd.Recv.List[0].Names[0].Name
	}
	return ""
}

// recvType: the (struct) type name of the receiver
func recvType(fd *ast.FuncDecl) string {
	if fd.Recv == nil || len(fd.Recv.List) != 1 {
		return ""
	}
	t := fd.Recv.List[0].Type
	if s, ok := t.(*ast.StarExpr); ok {
		t = s.X
	}
	if id, ok := t.(*ast.Ident); ok {
		return id.Name
	}
	return ""
}

func typeNameOf(e ast.Expr) string {
	if s, ok := e.(*ast.StarExpr); ok {
		e = s.X
	}
	if id, ok := e.(*ast.Ident); ok {
		return id.Name
	}
	return ""
}

// lookupSel resolves the selector `name` (a field, or a method when call is set) on the named type tn by
// Go's rule for promoted fields and methods: the shallowest depth at which it is declared, unique there.
// It returns the canonical path (embedded fields spelled out) and the name of the result type.
func lookupSel(p *pkgInfo, tn, name string, call bool) ([]string, string, bool) {
	type node struct {
		tn     string
		prefix []string
	}
	level := []node{{tn, nil}}
	seen := map[string]bool{}
	for depth := 0; depth < 6 && len(level) > 0; depth++ {
		type match struct {
			path []string
			res  string
		}
		var ms []match
		var next []node
		for _, nd := range level {
			if seen[nd.tn] {
				continue
			}
			seen[nd.tn] = true
			if call {
				if fd, ok := p.funcs[nd.tn+"."+name]; ok {
					res := ""
					if fd.Type.Results != nil && len(fd.Type.Results.List) > 0 {
						res = typeNameOf(fd.Type.Results.List[0].Type)
					}
					ms = append(ms, match{append(append([]string(nil), nd.prefix...), name+"()"), res})
				}
			}
			st, ok := p.types[nd.tn].(*ast.StructType)
			if !ok {
				continue
			}
			for _, f := range st.Fields.List {
				ft := typeNameOf(f.Type)
				if len(f.Names) == 0 { // embedded
					if ft == "" {
						continue
					}
					if !call && ft == name {
						ms = append(ms, match{append(append([]string(nil), nd.prefix...), name), ft})
					}
					next = append(next, node{ft, append(append([]string(nil), nd.prefix...), ft)})
					continue
				}
				if call {
					continue
				}
				for _, n := range f.Names {
					if n.Name == name {
						ms = append(ms, match{append(append([]string(nil), nd.prefix...), name), ft})
					}
				}
			}
		}
		if len(ms) == 1 {
			return ms[0].path, ms[0].res, true
		}
		if len(ms) > 1 {
			return nil, "", false // ambiguous: does not compile
		}
		level = next
	}
	return nil, "", false
}

// selText: an expression that is a chain of selectors / method calls on the receiver, as its CANONICAL
// path from the receiver's type (promoted fields and methods spelled out: r.Size and r.File.Size are both
// "File.FileHeader.Size" on a RawRecord, but r.Size is "StageHeader.Size" on a LegacyStageRecord). A string
// literal is quoted; anything else is its source text with the receiver prefix removed.
func selText(p *pkgInfo, e ast.Expr, recv string, recvT string) string {
	if l, ok := e.(*ast.BasicLit); ok {
		return l.Value
	}
	type seg struct {
		name string
		call bool
	}
	var segs []seg
	cur := e
	okChain := true
	for okChain {
		switch x := cur.(type) {
		case *ast.CallExpr:
			sel, ok := x.Fun.(*ast.SelectorExpr)
			if !ok || len(x.Args) != 0 {
				okChain = false
				break
			}
			segs = append([]seg{{sel.Sel.Name, true}}, segs...)
			cur = sel.X
		case *ast.SelectorExpr:
			segs = append([]seg{{x.Sel.Name, false}}, segs...)
			cur = x.X
		case *ast.Ident:
			if x.Name != recv || recv == "" {
				okChain = false
				break
			}
			tn := recvT
			var path []string
			for _, sg := range segs {
				pp, res, ok := lookupSel(p, tn, sg.name, sg.call)
				if !ok {
					okChain = false
					break
				}
				path = append(path, pp...)
				tn = res
			}
			if okChain {
				return strings.Join(path, ".")
			}
		default:
			okChain = false
		}
	}
	t := exprText(p.fset, e)
	if recv != "" && strings.HasPrefix(t, recv+".") {
		return t[len(recv)+1:]
	}
	return t
}

// writeDesc: what a Write method emits: "Write:FData", "WriteLE:StageHeader+Write:Data", …
func writeDesc(p *pkgInfo, fd *ast.FuncDecl) string {
	var out []string
	recv := recvName(fd)
	ast.Inspect(fd.Body, func(n ast.Node) bool {
		if c, ok := n.(*ast.CallExpr); ok {
			if id, ok := c.Fun.(*ast.Ident); ok && (id.Name == "Write" || id.Name == "WriteLE") && len(c.Args) == 2 {
				out = append(out, id.Name+":"+selText(p, c.Args[1], recv, recvType(fd)))
			}
		}
		return true
	})
	return strings.Join(out, "+")
}

// stringDesc: the arguments of the first recString call of a String method, receiver removed;
// plus "+segs" when further recString calls follow (the payload's segment lines)
func stringDesc(p *pkgInfo, fd *ast.FuncDecl) string {
	recv := recvName(fd)
	var calls []*ast.CallExpr
	ast.Inspect(fd.Body, func(n ast.Node) bool {
		if c, ok := n.(*ast.CallExpr); ok {
			if id, ok := c.Fun.(*ast.Ident); ok && id.Name == "recString" {
				calls = append(calls, c)
			}
		}
		return true
	})
	if len(calls) == 0 {
		return "?"
	}
	var as []string
	for _, a := range calls[0].Args {
		as = append(as, selText(p, a, recv, recvType(fd)))
	}
	d := strings.Join(as, ",")
	if len(calls) > 1 {
		d += "+segs"
	}
	return d
}

func init() {
	extraKinds["cbfs_switchstr"] = func(em *emitter, p *pkgInfo, it Item) {
		name := "switch_" + leanName(it.Name)
		fd, ok := p.funcs[it.Name]
		if !ok || fd.Body == nil {
			em.fail(Item{Kind: it.Kind, Name: it.Name, As: name}, "List (Nat × String)", "[]", "function not found")
			return
		}
		type srow struct {
			v uint32
			s string
		}
		var rows []srow
		bad := false
		ast.Inspect(fd.Body, func(n ast.Node) bool {
			cc, ok := n.(*ast.CaseClause)
			if !ok || len(cc.List) == 0 {
				return true
			}
			var lit string
			found := false
			for _, st := range cc.Body {
				if r, ok := st.(*ast.ReturnStmt); ok && len(r.Results) == 1 {
					if l, ok := r.Results[0].(*ast.BasicLit); ok && l.Kind == token.STRING {
						lit, _ = strconv.Unquote(l.Value)
						found = true
					}
				}
			}
			if !found {
				bad = true
				return true
			}
			for _, e := range cc.List {
				v, ok := p.eval(e, 0)
				if !ok {
					bad = true
					continue
				}
				rows = append(rows, srow{uint32(v), leanStr(lit)})
			}
			return true
		})
		if bad || len(rows) == 0 {
			em.fail(Item{Kind: it.Kind, Name: it.Name, As: name}, "List (Nat × String)", "[]", "switch is not a table of constant cases returning literals")
			return
		}
		// the order of the cases of a switch over constants does not matter: sorted by value
		sort.SliceStable(rows, func(i, j int) bool { return rows[i].v < rows[j].v })
		var ss []string
		for _, r := range rows {
			ss = append(ss, fmt.Sprintf("(%d, %s)", r.v, r.s))
		}
		fmt.Fprintf(&em.b, "def %s : List (Nat × String) := [%s]\n\n", name, strings.Join(ss, ", "))
	}
	extraKinds["cbfs_fields"] = func(em *emitter, p *pkgInfo, it Item) {
		name := "fields_" + leanName(it.Name)
		st, ok := p.types[it.Name].(*ast.StructType)
		if !ok {
			em.fail(Item{Kind: it.Kind, Name: it.Name, As: name}, "List String", "[]", "struct type not found")
			return
		}
		var out []string
		for _, f := range st.Fields.List {
			for _, n := range f.Names {
				out = append(out, n.Name)
			}
			if len(f.Names) == 0 {
				out = append(out, exprText(p.fset, f.Type))
			}
		}
		fmt.Fprintf(&em.b, "def %s : List String := %s\n\n", name, strList(out))
	}
	extraKinds["cbfs_keyedlit"] = func(em *emitter, p *pkgInfo, it Item) {
		name := "keyedlit_" + leanName(it.Name)
		fd, ok := p.funcs[it.Name]
		if !ok || fd.Body == nil {
			em.fail(Item{Kind: it.Kind, Name: it.Name, As: name}, "List String", "[]", "function not found")
			return
		}
		recv := recvName(fd)
		var out []string
		done := false
		ast.Inspect(fd.Body, func(n ast.Node) bool {
			if cl, ok := n.(*ast.CompositeLit); ok && !done && len(cl.Elts) > 0 {
				if _, ok := cl.Elts[0].(*ast.KeyValueExpr); !ok {
					return true
				}
				for _, el := range cl.Elts {
					if kv, ok := el.(*ast.KeyValueExpr); ok {
						out = append(out, exprText(p.fset, kv.Key)+"="+selText(p, kv.Value, recv, recvType(fd)))
					}
				}
				done = true
			}
			return true
		})
		if !done {
			em.fail(Item{Kind: it.Kind, Name: it.Name, As: name}, "List String", "[]", "no keyed composite literal")
			return
		}
		fmt.Fprintf(&em.b, "def %s : List String := %s\n\n", name, strList(out))
	}
	extraKinds["cbfs_records"] = func(em *emitter, p *pkgInfo, it Item) {
		name := "records"
		failIt := Item{Kind: it.Kind, Name: it.Name, As: name}
		// constructor -> record type: the first composite literal with a type name in its body
		recOf := func(ctor string) (string, bool) {
			fd, ok := p.funcs[ctor]
			if !ok || fd.Body == nil {
				return "", false
			}
			t := ""
			ast.Inspect(fd.Body, func(n ast.Node) bool {
				if cl, ok := n.(*ast.CompositeLit); ok && t == "" {
					if id, ok := cl.Type.(*ast.Ident); ok {
						t = id.Name
					}
				}
				return true
			})
			return t, t != ""
		}
		row := func(typ uint64, ctor string) (string, bool) {
			rt, ok := recOf(ctor)
			if !ok {
				return "", false
			}
			w, ok1 := p.funcs[rt+".Write"]
			s, ok2 := p.funcs[rt+".String"]
			if !ok1 || !ok2 || w.Body == nil || s.Body == nil {
				return "", false
			}
			return fmt.Sprintf("(%d, %s, %s, %s, %s)", typ, leanStr(ctor), leanStr(rt), leanStr(writeDesc(p, w)), leanStr(stringDesc(p, s))), true
		}
		type reg struct {
			typ uint64
			row string
		}
		var regs []reg
		bad := ""
		for _, f := range p.files {
			ast.Inspect(f, func(n ast.Node) bool {
				c, ok := n.(*ast.CallExpr)
				if !ok {
					return true
				}
				id, ok := c.Fun.(*ast.Ident)
				if !ok || id.Name != "RegisterFileReader" || len(c.Args) != 1 {
					return true
				}
				u, ok := c.Args[0].(*ast.UnaryExpr)
				if !ok {
					bad = "RegisterFileReader argument is not &SegReader{…}"
					return true
				}
				cl, ok := u.X.(*ast.CompositeLit)
				if !ok {
					bad = "RegisterFileReader argument is not &SegReader{…}"
					return true
				}
				var typ uint64
				ctor := ""
				okT := false
				for _, el := range cl.Elts {
					kv, ok := el.(*ast.KeyValueExpr)
					if !ok {
						continue
					}
					switch exprText(p.fset, kv.Key) {
					case "Type":
						v, ok := p.eval(kv.Value, 0)
						typ, okT = uint64(uint32(v)), ok
					case "New":
						ctor = exprText(p.fset, kv.Value)
					}
				}
				if !okT || ctor == "" {
					bad = "SegReader literal without constant Type / New"
					return true
				}
				r, ok := row(typ, ctor)
				if !ok {
					bad = "constructor " + ctor + ": record type, Write or String not found"
					return true
				}
				regs = append(regs, reg{typ, r})
				return true
			})
		}
		// the fallback of NewImage: &SegReader{…, New: NewUnknownRecord}
		if fd, ok := p.funcs[it.Name]; ok && fd.Body != nil {
			ast.Inspect(fd.Body, func(n ast.Node) bool {
				if cl, ok := n.(*ast.CompositeLit); ok && exprText(p.fset, cl.Type) == "SegReader" {
					for _, el := range cl.Elts {
						if kv, ok := el.(*ast.KeyValueExpr); ok && exprText(p.fset, kv.Key) == "New" {
							if r, ok := row(1<<32, exprText(p.fset, kv.Value)); ok {
								regs = append(regs, reg{1 << 32, r})
							} else {
								bad = "fallback constructor not resolved"
							}
						}
					}
				}
				return true
			})
		}
		if bad != "" || len(regs) == 0 {
			em.fail(failIt, "List (Nat × String × String × String × String)", "[]", "registration table: "+bad)
			return
		}
		sort.Slice(regs, func(i, j int) bool { return regs[i].typ < regs[j].typ })
		var rows []string
		for _, r := range regs {
			rows = append(rows, r.row)
		}
		fmt.Fprintf(&em.b, "def %s : List (Nat × String × String × String × String) := [\n  %s]\n\n", name, strings.Join(rows, ",\n  "))
	}


	items := []Item{
		{Kind: "strconst", Name: "FileMagic"},
		{Kind: "varexpr", Name: "Endian"},
		{Kind: "const", Name: "FileSize"},
		{Kind: "const", Name: "Alignment"},
		{Kind: "const", Name: "None"},
		{Kind: "const", Name: "LZMA"},
		{Kind: "const", Name: "LZ4"},
		{Kind: "const", Name: "Unused"},
		{Kind: "const", Name: "Unused2"},
		{Kind: "const", Name: "Compressed"},
		{Kind: "const", Name: "SegEntry"},
	}
	for _, t := range []string{"TypeDeleted2", "TypeDeleted", "TypeBootBlock", "TypeMaster", "TypeLegacyStage", "TypeStage",
		"TypeSELF", "TypeFIT", "TypeOptionRom", "TypeBootSplash", "TypeRaw", "TypeVSA", "TypeMBI", "TypeMicroCode", "TypeFSP",
		"TypeMRC", "TypeMMA", "TypeEFI", "TypeStruct", "TypeCMOS", "TypeSPD", "TypeMRCCache", "TypeCMOSLayout"} {
		items = append(items, Item{Kind: "const", Name: t})
	}
	for _, l := range []string{"FileHeader", "FileAttr", "FileAttrCompression", "StageHeader", "PayloadHeader", "MasterHeader"} {
		items = append(items, Item{Kind: "layout", Name: l})
	}
	items = append(items,
		// byte order of every decoder
		Item{Kind: "calls", Name: "Read", Arg: "binary.Read"},
		Item{Kind: "calls", Name: "ReadLE", Arg: "binary.Read"},
		Item{Kind: "calls", Name: "NewFile", Arg: "Read"},
		Item{Kind: "calls", Name: "LegacyStageRecord.Read", Arg: "ReadLE"},
		Item{Kind: "calls", Name: "PayloadRecord.Read", Arg: "Read"},
		Item{Kind: "calls", Name: "File.FindAttribute", Arg: "binary.Read"},
		Item{Kind: "calls", Name: "File.Compression", Arg: "binary.Read"},
		// how the variable-length parts are read
		Item{Kind: "calls", Name: "ReadName", Arg: "io.ReadFull"},
		Item{Kind: "calls", Name: "ReadAttributes", Arg: "io.ReadFull"},
		Item{Kind: "calls", Name: "ReadData", Arg: "io.ReadFull"},
		// what the record constructors overwrite
		Item{Kind: "assigns", Name: "NewEmptyRecord"},
		Item{Kind: "assigns", Name: "NewUnknownRecord"},
		Item{Kind: "assigns", Name: "PayloadRecord.Read"},
		Item{Kind: "assigns", Name: "LegacyStageRecord.Read"},
		Item{Kind: "assigns", Name: "NewFile"},
		Item{Kind: "assigns", Name: "Image.WriteFile"},
		// follow-up wp-c19c: which fields Image.Remove sets on the record it creates
		Item{Kind: "assigns", Name: "Image.Remove"},
		// follow-up wp-c19b: the write-back …
		Item{Kind: "cbfs_records", Name: "NewImage"},
		Item{Kind: "builtins", Name: "Image.Update"},
		Item{Kind: "calls", Name: "Image.Update", Arg: "Write"},
		Item{Kind: "calls", Name: "Write", Arg: "binary.Write"},
		Item{Kind: "calls", Name: "WriteLE", Arg: "binary.Write"},
		Item{Kind: "const", Name: "MasterHeaderLen"},
		// … and the presentation: format strings, name tables, JSON field order
		Item{Kind: "strlits", Name: "recString"},
		Item{Kind: "strlits", Name: "Image.String"},
		Item{Kind: "strlits", Name: "PayloadRecord.String"},
		Item{Kind: "strlits", Name: "FileType.String"},
		Item{Kind: "cbfs_switchstr", Name: "FileType.String"},
		Item{Kind: "cbfs_switchstr", Name: "Compression.String"},
		Item{Kind: "cbfs_switchstr", Name: "SegmentType.String"},
		Item{Kind: "strlits", Name: "Compression.String"},
		Item{Kind: "strlits", Name: "SegmentType.String"},
		Item{Kind: "cbfs_fields", Name: "mImage"},
		Item{Kind: "cbfs_fields", Name: "mFile"},
		Item{Kind: "cbfs_fields", Name: "mPayloadRecord"},
		Item{Kind: "cbfs_fields", Name: "mPayloadHeader"},
		Item{Kind: "cbfs_keyedlit", Name: "Image.MarshalJSON"},
		Item{Kind: "cbfs_keyedlit", Name: "File.MarshalJSON"},
		Item{Kind: "cbfs_keyedlit", Name: "PayloadRecord.MarshalJSON"},
		Item{Kind: "cbfs_keyedlit", Name: "PayloadHeader.MarshalJSON"},
	)
	specs = append(specs, Spec{Area: "Cbfs", Pkg: "pkg/cbfs", Items: items})
}
