package main

// Facts regenerated for the UEFI core model (lean/FianoModel/Uefi, properties C01 …):
// constants, tables, GUIDs, packed layouts of pkg/uefi, and the patch offsets / size boundaries
// used by pkg/visitors/assemble.go and pkg/uefi/file.go.
//
// Extraction kinds added here (all independent of identifier names in the Go source, so that a
// rename is not an alarm):
//   guidvar   var X = guid.MustParse("…") | *guid.MustParse("…")  -> the 16 bytes as guid.Parse stores them
//   boolmap   var X = map[K]bool{const: true|false, …}             -> List (Nat × Bool), sorted by key
//   guidkeys  var X = map[guid.GUID]T{*A: …, *B: …}                -> List String (the variable names), sorted
//   strmap    var X = map[byte]S{0x0: "…", …}                      -> List (Nat × String), sorted by key
//   putsites  func F: every binary.LittleEndian.PutUintN(x[k:], …) -> List (Nat × Nat) = (N, k) in source order
//   copysites func F: every copy(x[a:b], …) with literal a, b      -> List (Nat × Nat)
//   cmplits   func F: every comparison with an integer literal     -> List (String × Nat) = (operator, literal)

import (
	"encoding/hex"
	"fmt"
	"go/ast"
	"go/token"
	"sort"
	"strconv"
	"strings"
)

// extraKinds lets an area's specs_<area>.go add extraction kinds of its own (registered in init);
// translator/main.go dispatches to it from the default case of emitter.emit.
var extraKinds = map[string]func(em *emitter, p *pkgInfo, it Item){}

func guidBytes(s string) ([]int64, bool) {
	dec, err := hex.DecodeString(strings.ReplaceAll(s, "-", ""))
	if err != nil || len(dec) != 16 {
		return nil, false
	}
	// pkg/guid.Parse: the fields 4-2-2 are stored little endian, the rest as written
	i := 0
	for _, l := range []int{4, 2, 2, 1, 1, 1, 1, 1, 1, 1, 1} {
		for a, b := i, i+l-1; a < b; a, b = a+1, b-1 {
			dec[a], dec[b] = dec[b], dec[a]
		}
		i += l
	}
	var out []int64
	for _, b := range dec {
		out = append(out, int64(b))
	}
	return out, true
}

func guidOfExpr(e ast.Expr) ([]int64, bool) {
	if s, ok := e.(*ast.StarExpr); ok {
		e = s.X
	}
	c, ok := e.(*ast.CallExpr)
	if !ok || len(c.Args) != 1 {
		return nil, false
	}
	if sel, ok := c.Fun.(*ast.SelectorExpr); !ok || sel.Sel.Name != "MustParse" {
		return nil, false
	}
	lit, ok := c.Args[0].(*ast.BasicLit)
	if !ok || lit.Kind != token.STRING {
		return nil, false
	}
	s, err := strconv.Unquote(lit.Value)
	if err != nil {
		return nil, false
	}
	return guidBytes(s)
}

func init() {
	extraKinds["guidvar"] = func(em *emitter, p *pkgInfo, it Item) {
		e, ok := p.vars[it.Name]
		if !ok {
			em.fail(it, "List Nat", "[]", "variable not found")
			return
		}
		bs, ok := guidOfExpr(e)
		if !ok {
			em.fail(it, "List Nat", "[]", "not a guid.MustParse literal")
			return
		}
		fmt.Fprintf(&em.b, "def %s : List Nat := %s\n\n", em.name(it), natList(bs))
	}
	extraKinds["boolmap"] = func(em *emitter, p *pkgInfo, it Item) {
		cl, ok := p.vars[it.Name].(*ast.CompositeLit)
		if !ok {
			em.fail(it, "List (Nat × Bool)", "[]", "not a composite literal")
			return
		}
		type kv struct {
			k int64
			v string
		}
		var kvs []kv
		for _, el := range cl.Elts {
			x, ok := el.(*ast.KeyValueExpr)
			if !ok {
				em.fail(it, "List (Nat × Bool)", "[]", "not a map literal")
				return
			}
			k, ok1 := p.eval(x.Key, 0)
			id, ok2 := x.Value.(*ast.Ident)
			if !ok1 || !ok2 || (id.Name != "true" && id.Name != "false") {
				em.fail(it, "List (Nat × Bool)", "[]", "entry not foldable")
				return
			}
			kvs = append(kvs, kv{k, id.Name})
		}
		sort.Slice(kvs, func(i, j int) bool { return kvs[i].k < kvs[j].k })
		var ss []string
		for _, x := range kvs {
			ss = append(ss, fmt.Sprintf("(%d, %s)", x.k, x.v))
		}
		fmt.Fprintf(&em.b, "def %s : List (Nat × Bool) := [%s]\n\n", em.name(it), strings.Join(ss, ", "))
	}
	extraKinds["guidkeys"] = func(em *emitter, p *pkgInfo, it Item) {
		cl, ok := p.vars[it.Name].(*ast.CompositeLit)
		if !ok {
			em.fail(it, "List String", "[]", "not a composite literal")
			return
		}
		var names []string
		for _, el := range cl.Elts {
			x, ok := el.(*ast.KeyValueExpr)
			if !ok {
				em.fail(it, "List String", "[]", "not a map literal")
				return
			}
			k := x.Key
			if s, ok := k.(*ast.StarExpr); ok {
				k = s.X
			}
			id, ok := k.(*ast.Ident)
			if !ok {
				em.fail(it, "List String", "[]", "key is not a variable")
				return
			}
			names = append(names, id.Name)
		}
		sort.Strings(names)
		fmt.Fprintf(&em.b, "def %s : List String := %s\n\n", em.name(it), strList(names))
	}
	extraKinds["strmap"] = func(em *emitter, p *pkgInfo, it Item) {
		cl, ok := p.vars[it.Name].(*ast.CompositeLit)
		if !ok {
			em.fail(it, "List (Nat × String)", "[]", "not a composite literal")
			return
		}
		type kv struct {
			k int64
			v string
		}
		var kvs []kv
		for _, el := range cl.Elts {
			x, ok := el.(*ast.KeyValueExpr)
			if !ok {
				em.fail(it, "List (Nat × String)", "[]", "not a map literal")
				return
			}
			k, ok1 := p.eval(x.Key, 0)
			lit, ok2 := x.Value.(*ast.BasicLit)
			if !ok1 || !ok2 || lit.Kind != token.STRING {
				em.fail(it, "List (Nat × String)", "[]", "entry not foldable")
				return
			}
			s, _ := strconv.Unquote(lit.Value)
			kvs = append(kvs, kv{k, s})
		}
		sort.Slice(kvs, func(i, j int) bool { return kvs[i].k < kvs[j].k })
		var ss []string
		for _, x := range kvs {
			ss = append(ss, fmt.Sprintf("(%d, %s)", x.k, leanStr(x.v)))
		}
		fmt.Fprintf(&em.b, "def %s : List (Nat × String) := [%s]\n\n", em.name(it), strings.Join(ss, ", "))
	}
	pairs := func(kind string, match func(p *pkgInfo, c *ast.CallExpr) (int64, int64, bool)) {
		extraKinds[kind] = func(em *emitter, p *pkgInfo, it Item) {
			fd, ok := p.funcs[it.Name]
			if !ok || fd.Body == nil {
				em.fail(it, "List (Nat × Nat)", "[]", "function not found")
				return
			}
			var ss []string
			ast.Inspect(fd.Body, func(n ast.Node) bool {
				if c, ok := n.(*ast.CallExpr); ok {
					if a, b, ok := match(p, c); ok {
						ss = append(ss, fmt.Sprintf("(%d, %d)", a, b))
					}
				}
				return true
			})
			fmt.Fprintf(&em.b, "def %s : List (Nat × Nat) := [%s]\n\n", kind+"_"+leanName(it.Name), strings.Join(ss, ", "))
		}
	}
	pairs("putsites", func(p *pkgInfo, c *ast.CallExpr) (int64, int64, bool) {
		f := exprText(p.fset, c.Fun)
		if !strings.HasPrefix(f, "binary.LittleEndian.PutUint") || len(c.Args) < 1 {
			return 0, 0, false
		}
		bits, err := strconv.Atoi(strings.TrimPrefix(f, "binary.LittleEndian.PutUint"))
		sl, ok := c.Args[0].(*ast.SliceExpr)
		if err != nil || !ok || sl.Low == nil {
			return 0, 0, false
		}
		lo, ok := p.eval(sl.Low, 0)
		return int64(bits), lo, ok
	})
	pairs("copysites", func(p *pkgInfo, c *ast.CallExpr) (int64, int64, bool) {
		if id, ok := c.Fun.(*ast.Ident); !ok || id.Name != "copy" || len(c.Args) < 1 {
			return 0, 0, false
		}
		sl, ok := c.Args[0].(*ast.SliceExpr)
		if !ok || sl.Low == nil || sl.High == nil {
			return 0, 0, false
		}
		lo, ok1 := p.eval(sl.Low, 0)
		hi, ok2 := p.eval(sl.High, 0)
		return lo, hi, ok1 && ok2
	})
	extraKinds["cmplits"] = func(em *emitter, p *pkgInfo, it Item) {
		fd, ok := p.funcs[it.Name]
		if !ok || fd.Body == nil {
			em.fail(it, "List (String × Nat)", "[]", "function not found")
			return
		}
		var ss []string
		ast.Inspect(fd.Body, func(n ast.Node) bool {
			b, ok := n.(*ast.BinaryExpr)
			if !ok {
				return true
			}
			switch b.Op {
			case token.LSS, token.LEQ, token.GTR, token.GEQ, token.EQL, token.NEQ:
			default:
				return true
			}
			if lit, ok := b.Y.(*ast.BasicLit); ok && lit.Kind == token.INT {
				if v, ok := p.eval(lit, 0); ok {
					ss = append(ss, fmt.Sprintf("(%s, %d)", leanStr(b.Op.String()), v))
				}
			}
			return true
		})
		fmt.Fprintf(&em.b, "def cmplits_%s : List (String × Nat) := [%s]\n\n", leanName(it.Name), strings.Join(ss, ", "))
	}

	specs = append(specs, Spec{Area: "Uefi", Pkg: "pkg/uefi", Items: []Item{
		{Kind: "const", Name: "FileHeaderMinLength"},
		{Kind: "const", Name: "FileHeaderExtMinLength"},
		{Kind: "const", Name: "EmptyBodyChecksum"},
		{Kind: "const", Name: "FirmwareVolumeFixedHeaderSize"},
		{Kind: "const", Name: "FirmwareVolumeMinSize"},
		{Kind: "const", Name: "FirmwareVolumeExtHeaderMinSize"},
		{Kind: "const", Name: "FlashDescriptorLength"},
		{Kind: "const", Name: "FlashDescriptorMapSize"},
		{Kind: "const", Name: "FlashRegionSectionSize"},
		{Kind: "const", Name: "FlashMasterSectionSize"},
		{Kind: "const", Name: "RegionBlockSize"},
		{Kind: "const", Name: "SectionMinLength"},
		{Kind: "const", Name: "SectionExtMinLength"},
		{Kind: "const", Name: "poisonedPolarity"},
		{Kind: "const", Name: "FVFileTypePad"},
		{Kind: "const", Name: "FVFileTypeRaw"},
		{Kind: "const", Name: "FileStateValid"},
		{Kind: "const", Name: "GUIDEDSectionProcessingRequired"},
		{Kind: "const", Name: "SectionTypeGUIDDefined"},
		{Kind: "const", Name: "SectionTypeDXEDepEx"},
		{Kind: "const", Name: "SectionTypeVersion"},
		{Kind: "const", Name: "SectionTypeUserInterface"},
		{Kind: "const", Name: "SectionTypeFirmwareVolumeImage"},
		{Kind: "const", Name: "SectionTypePEIDepEx"},
		{Kind: "const", Name: "SectionMMDepEx"},
		{Kind: "const", Name: "SectionTypeRaw"},
		{Kind: "const", Name: "SectionTypeCompatibility16"},
		{Kind: "const", Name: "SectionTypePE32"},
		{Kind: "const", Name: "SectionTypeDisposable"},
		{Kind: "const", Name: "RegionTypeBIOS"},
		{Kind: "const", Name: "RegionTypeME"},
		{Kind: "const", Name: "RegionTypePTT"},
		{Kind: "const", Name: "RegionTypeUnknown"},
		{Kind: "bytesvar", Name: "FlashSignature"},
		{Kind: "inttable", Name: "fileAlignments"},
		{Kind: "boolmap", Name: "SupportedFiles"},
		{Kind: "guidkeys", Name: "supportedFVs"},
		{Kind: "strmap", Name: "DepExOpCodes"},
		{Kind: "guidvar", Name: "FFS2"},
		{Kind: "guidvar", Name: "FFS3"},
		{Kind: "guidvar", Name: "NVAR"},
		{Kind: "guidvar", Name: "ZeroGUID"},
		{Kind: "guidvar", Name: "FFGUID"},
		{Kind: "layout", Name: "FirmwareVolumeFixedHeader"},
		{Kind: "layout", Name: "FirmwareVolumeExtHeader"},
		{Kind: "layout", Name: "Block"},
		{Kind: "layout", Name: "IntegrityCheck"},
		{Kind: "layout", Name: "FileHeader"},
		{Kind: "layout", Name: "FileHeaderExtended"},
		{Kind: "layout", Name: "SectionHeader"},
		{Kind: "layout", Name: "SectionExtHeader"},
		{Kind: "layout", Name: "SectionGUIDDefinedHeader"},
		{Kind: "layout", Name: "FlashRegion"},
		{Kind: "layout", Name: "FlashRegionSection"},
		{Kind: "layout", Name: "FlashDescriptorMap"},
		{Kind: "layout", Name: "RegionPermissions"},
		{Kind: "layout", Name: "FlashMasterSection"},
		{Kind: "cmplits", Name: "File.SetSize"},
		{Kind: "cmplits", Name: "Write3Size"},
		{Kind: "cmplits", Name: "Section.GenSecHeader"},
		{Kind: "cmplits", Name: "CreatePadFile"},
		{Kind: "cmplits", Name: "FindFirmwareVolumeOffset"},
		{Kind: "cmplits", Name: "FlashRegion.Valid"},
	}})
	specs = append(specs, Spec{Area: "UefiAsm", Pkg: "pkg/visitors", Items: []Item{
		{Kind: "putsites", Name: "Assemble.Visit"},
		{Kind: "copysites", Name: "Assemble.Visit"},
		{Kind: "cmplits", Name: "Assemble.Visit"},
	}})
	specs = append(specs, Spec{Area: "UefiCodec", Pkg: "pkg/compression", Items: []Item{
		{Kind: "guidvar", Name: "BROTLIGUID"},
		{Kind: "guidvar", Name: "LZMAGUID"},
		{Kind: "guidvar", Name: "LZMAX86GUID"},
		{Kind: "guidvar", Name: "ZLIBGUID"},
	}})
}
