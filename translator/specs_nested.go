package main

// Facts regenerated for property C06 (compressed / nested content; lean/FianoModel/Uefi/Nested*.lean).
//
// Two extraction kinds are added here; both are insensitive to the names of receivers, parameters and
// locals (printed as `_`), so that a rename is not an alarm, and the Tie theorems that use them state
// membership / counts, so that reordering independent statements is not one either:
//
//	selcallshape  func F, Arg = method or function *name* M: the text of every call `x.M(…)` / `M(…)`
//	              in F, identifiers declared inside F (receiver, parameters, results, := / var / range
//	              variables) blanked in the callee and in the arguments            -> List String
//	guidswitch    func F: for the `switch` of F whose tag is a dereferenced parameter, every case as
//	              "<case expression> => <returned expression>" (locals blanked), sorted   -> List String
//
// Items: how a GUID selects a compressor (CompressorFromGUID); what the parser hands the decoder and
// where decoded content is parsed again (NewSection); what Assemble re-encodes, how it grows a nested
// volume (Align to Blocks[0].Size, Blocks[0].Count, Length), which header fields it regenerates
// (GenSecHeader), what repack builds (repackFV).

import (
	"fmt"
	"go/ast"
	"go/token"
	"sort"
	"strings"
)

func localsOf(fd *ast.FuncDecl) map[string]bool {
	locals := map[string]bool{}
	add := func(fl *ast.FieldList) {
		if fl == nil {
			return
		}
		for _, f := range fl.List {
			for _, n := range f.Names {
				locals[n.Name] = true
			}
		}
	}
	add(fd.Recv)
	add(fd.Type.Params)
	add(fd.Type.Results)
	ast.Inspect(fd.Body, func(n ast.Node) bool {
		switch x := n.(type) {
		case *ast.AssignStmt:
			if x.Tok == token.DEFINE {
				for _, l := range x.Lhs {
					if id, ok := l.(*ast.Ident); ok {
						locals[id.Name] = true
					}
				}
			}
		case *ast.ValueSpec:
			for _, id := range x.Names {
				locals[id.Name] = true
			}
		case *ast.RangeStmt:
			if x.Tok == token.DEFINE {
				for _, e := range []ast.Expr{x.Key, x.Value} {
					if id, ok := e.(*ast.Ident); ok {
						locals[id.Name] = true
					}
				}
			}
		case *ast.TypeSwitchStmt:
			if a, ok := x.Assign.(*ast.AssignStmt); ok {
				for _, l := range a.Lhs {
					if id, ok := l.(*ast.Ident); ok {
						locals[id.Name] = true
					}
				}
			}
		}
		return true
	})
	return locals
}

// blankedText prints e with the identifiers in `locals` replaced by `_` (selected field and method
// names are never touched) and restores the tree afterwards (the parsed package is shared).
func blankedText(p *pkgInfo, e ast.Node, locals map[string]bool) string {
	type saved struct {
		id   *ast.Ident
		name string
	}
	var sv []saved
	var walk func(n ast.Node)
	walk = func(n ast.Node) {
		ast.Inspect(n, func(m ast.Node) bool {
			switch y := m.(type) {
			case *ast.SelectorExpr:
				walk(y.X)
				return false
			case *ast.KeyValueExpr:
				walk(y.Value) // field names of composite literals stay
				return false
			case *ast.Ident:
				if locals[y.Name] {
					sv = append(sv, saved{y, y.Name})
					y.Name = "_"
				}
			}
			return true
		})
	}
	walk(e)
	txt := exprText(p.fset, e)
	for _, x := range sv {
		x.id.Name = x.name
	}
	txt = strings.Join(strings.Fields(txt), " ")
	return strings.ReplaceAll(strings.ReplaceAll(txt, "( ", "("), ", )", ")")
}

func init() {
	extraKinds["selcallshape"] = func(em *emitter, p *pkgInfo, it Item) {
		fd, ok := p.funcs[it.Name]
		if !ok || fd.Body == nil {
			em.fail(it, "List String", "[]", "function not found")
			return
		}
		locals := localsOf(fd)
		var out []string
		ast.Inspect(fd.Body, func(n ast.Node) bool {
			c, ok := n.(*ast.CallExpr)
			if !ok {
				return true
			}
			name := ""
			switch f := c.Fun.(type) {
			case *ast.Ident:
				name = f.Name
			case *ast.SelectorExpr:
				name = f.Sel.Name
			}
			if name == it.Arg {
				out = append(out, blankedText(p, c, locals))
			}
			return true
		})
		fmt.Fprintf(&em.b, "def %s : List String := %s\n\n", em.name(it), strList(out))
	}
	extraKinds["guidswitch"] = func(em *emitter, p *pkgInfo, it Item) {
		fd, ok := p.funcs[it.Name]
		if !ok || fd.Body == nil {
			em.fail(it, "List String", "[]", "function not found")
			return
		}
		locals := localsOf(fd)
		var out []string
		found := false
		ast.Inspect(fd.Body, func(n ast.Node) bool {
			sw, ok := n.(*ast.SwitchStmt)
			if !ok || sw.Tag == nil {
				return true
			}
			if _, isStar := sw.Tag.(*ast.StarExpr); !isStar {
				return true
			}
			found = true
			for _, st := range sw.Body.List {
				cc := st.(*ast.CaseClause)
				ret := "-"
				for _, s := range cc.Body {
					if r, ok := s.(*ast.ReturnStmt); ok && len(r.Results) == 1 {
						ret = blankedText(p, r.Results[0], locals)
					}
				}
				for _, e := range cc.List {
					out = append(out, blankedText(p, e, locals)+" => "+ret)
				}
			}
			return false
		})
		if !found {
			em.fail(it, "List String", "[]", "no switch on a dereferenced parameter")
			return
		}
		sort.Strings(out)
		fmt.Fprintf(&em.b, "def %s : List String := %s\n\n", em.name(it), strList(out))
	}

	sel := func(fn, m string) Item {
		return Item{Kind: "selcallshape", Name: fn, Arg: m, As: "calls_" + leanName(fn) + "_" + leanName(m)}
	}
	specs = append(specs, Spec{Area: "NestedCodec", Pkg: "pkg/compression", Items: []Item{
		{Kind: "guidswitch", Name: "CompressorFromGUID", As: "guidswitch_CompressorFromGUID"},
		sel("CompressorFromGUID", "LookPath"),
		sel("LZMAX86.Encode", "x86Convert"), sel("LZMAX86.Decode", "x86Convert"),
		sel("LZMAX86.Encode", "Encode"), sel("LZMAX86.Decode", "Decode"),
		sel("SystemLZMA.Decode", "Decode"),
	}})
	specs = append(specs, Spec{Area: "NestedSec", Pkg: "pkg/uefi", Items: []Item{
		sel("NewSection", "CompressorFromGUID"), sel("NewSection", "Decode"), sel("NewSection", "Name"),
		sel("NewSection", "NewSection"), sel("NewSection", "NewFirmwareVolume"), sel("NewSection", "Align4"),
		sel("Section.GenSecHeader", "Write3Size"), sel("Section.GenSecHeader", "GetBinHeaderLen"),
		{Kind: "cmplits", Name: "Section.GenSecHeader"},
		{Kind: "writes", Name: "Section.GenSecHeader"},
	}})
	specs = append(specs, Spec{Area: "NestedAsm", Pkg: "pkg/visitors", Items: []Item{
		sel("Assemble.Visit", "CompressorFromGUID"), sel("Assemble.Visit", "Encode"), sel("Assemble.Visit", "Align"),
		sel("Assemble.Visit", "GenSecHeader"), sel("Assemble.Visit", "SetSize"), sel("Assemble.Visit", "ChecksumAndAssemble"),
		sel("Assemble.Visit", "Checksum16"), sel("Assemble.Visit", "CreatePadFile"),
		{Kind: "writes", Name: "Assemble.Visit"},
		sel("repackFV", "CreateSection"), sel("createFirmwareVolume", "Sizeof"),
		{Kind: "writes", Name: "createFirmwareVolume"},
		sel("removeFileCompression", "append"),
	}})
}
