package main

// Facts regenerated for the edit-operation model (lean/FianoModel/Uefi/Visitors.lean, properties
// C02 and C03) from pkg/visitors and pkg/uefi.
//
// Extraction kinds added here.  Identifiers are normalised, so that renaming a receiver, a
// parameter or a local is not an alarm:
//     recv   the method receiver
//     node   a parameter of the function, anything bound from one (type switch / type assertion /
//            range over / := from an expression rooted in a node identifier), and anything bound from a
//            *field* of the receiver (a visitor field may hold nodes: Matches, List, currentFile) — in
//            a visitor these are the firmware nodes; a copy of the receiver itself (`v2 := *v`) is recv
//     local  every other identifier declared inside the function
//   writes     func F: the target of every assignment (=, op=, ++, --) that goes through a selector,
//              an index or a pointer, normalised, in source order                     -> List String
//   nodewrites func F: those targets that can reach a firmware node: rooted in `node`, or rooted in
//              `recv` more than one step deep (a visitor field that holds nodes); plus every call of a
//              method whose name is in the mutator list (SetBuf, SetSize, GenSecHeader, …), as
//              "call <name>"                                                           -> List String
//   callseq    func F: the callee of every method / package-qualified call (builtins and conversions
//              are not listed), normalised, in source order                           -> List String
//   bytelits   func F: the string literals converted with []byte("…")                  -> List String
//   clireg     package: (command name, number of arguments) of every RegisterCLI call whose name is
//              a string literal, sorted by name                                        -> List (String × Nat)
//   nodeeffects func F (follow-up wp-c03b): everything by which F can change a firmware node, in source order:
//              "write <target>"  every assignment / ++ / -- whose target reaches a node (as nodewrites),
//              "append <arg0>"   every append(x, …) whose first argument is rooted in a node (append
//                                writes into the spare capacity of the node's slice),
//              "copy <dst>"      every copy(dst, …) whose destination is rooted in a node,
//              "delete <map>"    every delete(m, …) on a node-rooted map,
//              "addr <expr>"     every &x of a node-rooted location that is not a call argument's
//                                receiver (a pointer into a node escapes)               -> List String
//   nodeptrcalls func F: the sorted set of method names M such that F calls x.M(…) with x rooted in a node
//              and M is declared in pkg/uefi with a POINTER receiver (for any type)    -> List String
//   nodepasses func F: the sorted set of callees (normalised) of plain / package-qualified / method calls
//              that receive a node itself (the bare identifier, possibly with & or *) as an argument
//                                                                                        -> List String

import (
	"fmt"
	"go/ast"
	"go/token"
	"sort"
	"strconv"
	"strings"
)

var mutatorMethods = map[string]bool{"SetBuf": true, "SetSize": true, "SetState": true, "SetType": true,
	"SetFlashRegion": true, "GenSecHeader": true, "ChecksumAndAssemble": true, "InsertFile": true,
	"Assemble": true, "SetErasePolarity": true, "ParseFlashDescriptor": true}

// roles classifies the identifiers of a function: recv / node / local.
func roles(fd *ast.FuncDecl) map[string]string {
	role := map[string]string{}
	if fd.Recv != nil {
		for _, f := range fd.Recv.List {
			for _, n := range f.Names {
				role[n.Name] = "recv"
			}
		}
	}
	if fd.Type.Params != nil {
		for _, f := range fd.Type.Params.List {
			for _, n := range f.Names {
				role[n.Name] = "node"
			}
		}
	}
	rootOf := func(e ast.Expr) string {
		for {
			switch x := e.(type) {
			case *ast.Ident:
				return x.Name
			case *ast.SelectorExpr:
				e = x.X
			case *ast.IndexExpr:
				e = x.X
			case *ast.SliceExpr:
				e = x.X
			case *ast.StarExpr:
				e = x.X
			case *ast.ParenExpr:
				e = x.X
			case *ast.TypeAssertExpr:
				e = x.X
			case *ast.UnaryExpr:
				e = x.X
			default:
				return ""
			}
		}
	}
	bind := func(name string, from ast.Expr) bool {
		if name == "_" {
			return false
		}
		r := "local"
		if from != nil {
			switch role[rootOf(from)] {
			case "node":
				r = "node"
			case "recv":
				r = "node"
				bare := from
				for {
					if st, ok := bare.(*ast.StarExpr); ok {
						bare = st.X
					} else if pe, ok := bare.(*ast.ParenExpr); ok {
						bare = pe.X
					} else {
						break
					}
				}
				if _, ok := bare.(*ast.Ident); ok {
					r = "recv"
				}
			}
		}
		if old, ok := role[name]; ok && (old == r || old == "node" || old == "recv") {
			return false // a node stays a node (shadowing by the type switch), the receiver the receiver
		}
		role[name] = r
		return true
	}
	// to a fixed point (a local may be bound from a node that is classified later in source order)
	for round := 0; round < 8; round++ {
		changed := false
		ast.Inspect(fd.Body, func(n ast.Node) bool {
			switch x := n.(type) {
			case *ast.AssignStmt:
				if x.Tok == token.DEFINE {
					for i, l := range x.Lhs {
						id, ok := l.(*ast.Ident)
						if !ok {
							continue
						}
						var from ast.Expr
						if len(x.Rhs) == len(x.Lhs) {
							from = x.Rhs[i]
						} else if len(x.Rhs) == 1 {
							from = x.Rhs[0]
						}
						if bind(id.Name, from) {
							changed = true
						}
					}
				}
			case *ast.RangeStmt:
				if x.Tok == token.DEFINE {
					for _, l := range []ast.Expr{x.Key, x.Value} {
						if id, ok := l.(*ast.Ident); ok {
							if bind(id.Name, x.X) {
								changed = true
							}
						}
					}
				}
			case *ast.TypeSwitchStmt:
				if a, ok := x.Assign.(*ast.AssignStmt); ok && len(a.Lhs) == 1 && len(a.Rhs) == 1 {
					if id, ok := a.Lhs[0].(*ast.Ident); ok {
						if bind(id.Name, a.Rhs[0]) {
							changed = true
						}
					}
				}
			case *ast.FuncLit:
				if x.Type.Params != nil {
					for _, f := range x.Type.Params.List {
						for _, n := range f.Names {
							if bind(n.Name, nil) {
								changed = true
							}
						}
					}
				}
			case *ast.DeclStmt:
				if g, ok := x.Decl.(*ast.GenDecl); ok && g.Tok == token.VAR {
					for _, s := range g.Specs {
						vs := s.(*ast.ValueSpec)
						for i, n := range vs.Names {
							var from ast.Expr
							if i < len(vs.Values) {
								from = vs.Values[i]
							}
							if bind(n.Name, from) {
								changed = true
							}
						}
					}
				}
			}
			return true
		})
		if !changed {
			break
		}
	}
	return role
}

// normExpr prints an expression with its root identifier replaced by its role; depth = number of
// selector / index / pointer steps between the root and the written location.
func normExpr(p *pkgInfo, role map[string]string, e ast.Expr) (text string, root string, depth int) {
	var rec func(e ast.Expr) string
	rec = func(e ast.Expr) string {
		switch x := e.(type) {
		case *ast.Ident:
			if r, ok := role[x.Name]; ok {
				root = r
				return r
			}
			root = "pkg"
			return x.Name
		case *ast.SelectorExpr:
			depth++
			return rec(x.X) + "." + x.Sel.Name
		case *ast.IndexExpr:
			depth++
			return rec(x.X) + "[·]"
		case *ast.SliceExpr:
			return rec(x.X) + "[:]"
		case *ast.StarExpr:
			depth++
			return "*" + rec(x.X)
		case *ast.ParenExpr:
			return "(" + rec(x.X) + ")"
		case *ast.TypeAssertExpr:
			return rec(x.X) + ".(T)"
		case *ast.CallExpr:
			if id, ok := x.Fun.(*ast.Ident); ok && (id.Name == "make" || id.Name == "new") {
				root = "fresh"
				return id.Name + "()"
			}
			root = "call"
			return rec(x.Fun) + "()"
		case *ast.CompositeLit:
			root = "fresh" // a new value, not (part of) a firmware node
			return "lit"
		}
		root = "expr"
		return exprText(p.fset, e)
	}
	text = rec(e)
	return
}

func collectWrites(p *pkgInfo, fd *ast.FuncDecl, onlyNode bool) []string {
	role := roles(fd)
	var out []string
	target := func(l ast.Expr) {
		switch l.(type) {
		case *ast.SelectorExpr, *ast.IndexExpr, *ast.StarExpr:
		default:
			return
		}
		text, root, depth := normExpr(p, role, l)
		if onlyNode && !(root == "node" || (root == "recv" && depth > 1) || root == "call" || root == "expr") {
			return
		}
		out = append(out, text)
	}
	ast.Inspect(fd.Body, func(n ast.Node) bool {
		switch x := n.(type) {
		case *ast.AssignStmt:
			if x.Tok != token.DEFINE {
				for _, l := range x.Lhs {
					target(l)
				}
			}
		case *ast.IncDecStmt:
			target(x.X)
		case *ast.CallExpr:
			if onlyNode {
				if sel, ok := x.Fun.(*ast.SelectorExpr); ok && mutatorMethods[sel.Sel.Name] {
					out = append(out, "call "+sel.Sel.Name)
				}
			}
		}
		return true
	})
	return out
}

// ptrMethodsOfUefi: names of the methods pkg/uefi declares with a pointer receiver.
func ptrMethodsOfUefi() (map[string]bool, error) {
	up, err := loadPkg("pkg/uefi")
	if err != nil {
		return nil, err
	}
	out := map[string]bool{}
	for _, f := range up.files {
		for _, d := range f.Decls {
			fd, ok := d.(*ast.FuncDecl)
			if !ok || fd.Recv == nil || len(fd.Recv.List) != 1 {
				continue
			}
			if _, ok := fd.Recv.List[0].Type.(*ast.StarExpr); ok {
				out[fd.Name.Name] = true
			}
		}
	}
	return out, nil
}

func nodeRooted(root string, depth int) bool {
	return root == "node" || (root == "recv" && depth > 1)
}

// collectEffects: see the kind `nodeeffects` above.
func collectEffects(p *pkgInfo, fd *ast.FuncDecl, recvIsNode bool) []string {
	role := roles(fd)
	if recvIsNode {
		for k, v := range role {
			if v == "recv" {
				role[k] = "node"
			}
		}
	}
	var out []string
	ast.Inspect(fd.Body, func(n ast.Node) bool {
		switch x := n.(type) {
		case *ast.AssignStmt:
			if x.Tok != token.DEFINE {
				for _, l := range x.Lhs {
					switch l.(type) {
					case *ast.SelectorExpr, *ast.IndexExpr, *ast.StarExpr:
						text, root, depth := normExpr(p, role, l)
						if nodeRooted(root, depth) || root == "call" || root == "expr" {
							out = append(out, "write "+text)
						}
					}
				}
			}
		case *ast.IncDecStmt:
			switch x.X.(type) {
			case *ast.SelectorExpr, *ast.IndexExpr, *ast.StarExpr:
				text, root, depth := normExpr(p, role, x.X)
				if nodeRooted(root, depth) || root == "call" || root == "expr" {
					out = append(out, "write "+text)
				}
			}
		case *ast.CallExpr:
			if id, ok := x.Fun.(*ast.Ident); ok && len(x.Args) > 0 {
				if _, shadow := role[id.Name]; !shadow {
					switch id.Name {
					case "append", "copy", "delete", "clear":
						text, root, depth := normExpr(p, role, x.Args[0])
						if nodeRooted(root, depth) || root == "call" || root == "expr" {
							out = append(out, id.Name+" "+text)
						}
					}
				}
			}
		case *ast.UnaryExpr:
			if x.Op == token.AND {
				switch x.X.(type) {
				case *ast.SelectorExpr, *ast.IndexExpr:
					text, root, depth := normExpr(p, role, x.X)
					if nodeRooted(root, depth) {
						out = append(out, "addr "+text)
					}
				}
			}
		}
		return true
	})
	return out
}

func sortedSet(m map[string]bool) []string {
	var out []string
	for k := range m {
		out = append(out, k)
	}
	sort.Strings(out)
	return out
}

// collectPtrCalls: see the kind `nodeptrcalls` above.
func collectPtrCalls(p *pkgInfo, fd *ast.FuncDecl, ptr map[string]bool, recvIsNode bool) []string {
	role := roles(fd)
	if recvIsNode {
		for k, v := range role {
			if v == "recv" {
				role[k] = "node"
			}
		}
	}
	set := map[string]bool{}
	ast.Inspect(fd.Body, func(n ast.Node) bool {
		c, ok := n.(*ast.CallExpr)
		if !ok {
			return true
		}
		sel, ok := c.Fun.(*ast.SelectorExpr)
		if !ok || !ptr[sel.Sel.Name] {
			return true
		}
		_, root, depth := normExpr(p, role, sel.X)
		if nodeRooted(root, depth) || root == "call" {
			set[sel.Sel.Name] = true
		}
		return true
	})
	return sortedSet(set)
}

// collectPasses: see the kind `nodepasses` above.
func collectPasses(p *pkgInfo, fd *ast.FuncDecl) []string {
	role := roles(fd)
	set := map[string]bool{}
	bare := func(e ast.Expr) bool {
		for {
			switch x := e.(type) {
			case *ast.ParenExpr:
				e = x.X
			case *ast.StarExpr:
				e = x.X
			case *ast.UnaryExpr:
				if x.Op != token.AND {
					return false
				}
				e = x.X
			case *ast.Ident:
				return role[x.Name] == "node"
			default:
				return false
			}
		}
	}
	ast.Inspect(fd.Body, func(n ast.Node) bool {
		c, ok := n.(*ast.CallExpr)
		if !ok {
			return true
		}
		for _, a := range c.Args {
			if bare(a) {
				t, _, _ := normExpr(p, role, c.Fun)
				set[t] = true
				break
			}
		}
		return true
	})
	return sortedSet(set)
}

func init() {
	ef := func(kind string, collect func(p *pkgInfo, fd *ast.FuncDecl) ([]string, error)) {
		extraKinds[kind] = func(em *emitter, p *pkgInfo, it Item) {
			fd, ok := p.funcs[it.Name]
			if !ok || fd.Body == nil {
				fmt.Fprintf(&em.b, "-- EXTRACTION FAILED: function not found\ndef %s_%s : List String := [\"<missing>\"]\n\n", kind, leanName(it.Name))
				em.failed = append(em.failed, it.Kind+":"+it.Name+" (function not found)")
				return
			}
			xs, err := collect(p, fd)
			if err != nil {
				em.failed = append(em.failed, it.Kind+":"+it.Name+" ("+err.Error()+")")
			}
			fmt.Fprintf(&em.b, "def %s_%s : List String := %s\n\n", kind, leanName(it.Name), strList(xs))
		}
	}
	ef("nodeeffects", func(p *pkgInfo, fd *ast.FuncDecl) ([]string, error) { return collectEffects(p, fd, false), nil })
	ef("nodeptrcalls", func(p *pkgInfo, fd *ast.FuncDecl) ([]string, error) {
		ptr, err := ptrMethodsOfUefi()
		if err != nil {
			return nil, err
		}
		return collectPtrCalls(p, fd, ptr, false), nil
	})
	ef("nodepasses", func(p *pkgInfo, fd *ast.FuncDecl) ([]string, error) { return collectPasses(p, fd), nil })
	declName := func(fd *ast.FuncDecl) string {
		name := fd.Name.Name
		if fd.Recv != nil && len(fd.Recv.List) == 1 {
			t := fd.Recv.List[0].Type
			if s, ok := t.(*ast.StarExpr); ok {
				t = s.X
			}
			if id, ok := t.(*ast.Ident); ok {
				name = id.Name + "." + name
			}
		}
		return name
	}
	pairList := func(ps [][2]string) string {
		if len(ps) == 0 {
			return "[]"
		}
		var ss []string
		for _, p := range ps {
			ss = append(ss, "("+leanStr(p[0])+", "+p[1]+")")
		}
		return "[\n  " + strings.Join(ss, ",\n  ") + "]"
	}
	// roinventory: EVERY function declared in the files of the eight read-only commands (Arg = file
	// names), so that a helper added later is inventoried too
	extraKinds["roinventory"] = func(em *emitter, p *pkgInfo, it Item) {
		want := map[string]bool{}
		for _, n := range strings.Split(it.Arg, ",") {
			want[n] = true
		}
		ptr, err := ptrMethodsOfUefi()
		if err != nil {
			em.failed = append(em.failed, "roinventory ("+err.Error()+")")
		}
		var fds []*ast.FuncDecl
		for _, f := range p.files {
			base := p.fset.Position(f.Pos()).Filename
			if i := strings.LastIndex(base, "/"); i >= 0 {
				base = base[i+1:]
			}
			if !want[base] {
				continue
			}
			delete(want, base)
			for _, d := range f.Decls {
				if fd, ok := d.(*ast.FuncDecl); ok && fd.Body != nil && fd.Name.Name != "init" {
					fds = append(fds, fd)
				}
			}
		}
		for n := range want {
			em.failed = append(em.failed, "roinventory (file "+n+" not found)")
		}
		sort.Slice(fds, func(i, j int) bool { return declName(fds[i]) < declName(fds[j]) })
		var eff [][2]string
		calls, passes := map[string]bool{}, map[string]bool{}
		declared := map[string]bool{} // functions and methods of these files: inventoried themselves
		for _, fd := range fds {
			declared[fd.Name.Name] = true
		}
		for _, fd := range fds {
			eff = append(eff, [2]string{declName(fd), strings.ReplaceAll(strList(collectEffects(p, fd, false)), "\n", "")})
			for _, c := range collectPtrCalls(p, fd, ptr, false) {
				calls[c] = true
			}
			for _, c := range collectPasses(p, fd) {
				last := c
				if i := strings.LastIndex(c, "."); i >= 0 {
					last = c[i+1:]
				}
				if !declared[last] {
					passes[c] = true
				}
			}
		}
		if len(fds) == 0 {
			em.failed = append(em.failed, "roinventory (no function found)")
		}
		fmt.Fprintf(&em.b, "def roeffects : List (String × List String) := %s\n\n", pairList(eff))
		fmt.Fprintf(&em.b, "def roptrcalls : List String := %s\n\n", strList(sortedSet(calls)))
		fmt.Fprintf(&em.b, "def ropasses : List String := %s\n\n", strList(sortedSet(passes)))
	}
	// uefimethods: every method of pkg/uefi whose name is in Arg, with what it does to its RECEIVER
	extraKinds["uefimethods"] = func(em *emitter, p *pkgInfo, it Item) {
		want := map[string]bool{}
		for _, n := range strings.Split(it.Arg, ",") {
			want[n] = true
		}
		var fds []*ast.FuncDecl
		for _, f := range p.files {
			for _, d := range f.Decls {
				if fd, ok := d.(*ast.FuncDecl); ok && fd.Body != nil && fd.Recv != nil && want[fd.Name.Name] {
					fds = append(fds, fd)
				}
			}
		}
		sort.Slice(fds, func(i, j int) bool { return declName(fds[i]) < declName(fds[j]) })
		ptr, err := ptrMethodsOfUefi()
		if err != nil {
			em.failed = append(em.failed, "uefimethods ("+err.Error()+")")
		}
		var eff [][2]string
		seen := map[string]bool{}
		for _, fd := range fds {
			seen[fd.Name.Name] = true
			xs := collectEffects(p, fd, true)
			// pointer-receiver methods of the package called on the receiver (or on what hangs below it)
			for _, c := range collectPtrCalls(p, fd, ptr, true) {
				xs = append(xs, "call "+c)
			}
			eff = append(eff, [2]string{declName(fd), strings.ReplaceAll(strList(xs), "\n", "")})
		}
		for n := range want {
			if !seen[n] {
				em.failed = append(em.failed, "uefimethods (no method "+n+" in pkg/uefi)")
			}
		}
		fmt.Fprintf(&em.b, "def %s : List (String × List String) := %s\n\n", it.Name, pairList(eff))
	}

	var items []Item
	items = append(items, Item{Kind: "roinventory", Name: "roinventory",
		Arg: "find.go,json.go,table.go,count.go,validate.go,cat.go,dump.go,comment.go"})
	// positive controls: the same extraction on visitors that do change nodes
	for _, fn := range []string{"Flatten.Run", "ReplacePE32.Visit", "Remove.Visit", "Assemble.Visit"} {
		items = append(items, Item{Kind: "nodeeffects", Name: fn}, Item{Kind: "nodeptrcalls", Name: fn})
	}
	specs = append(specs, Spec{Area: "UefiEditRO", Pkg: "pkg/visitors", Items: items})
	// the pkg/uefi methods the read-only commands call on nodes: what they do to their receiver
	specs = append(specs, Spec{Area: "UefiEditROMethods", Pkg: "pkg/uefi", Items: []Item{
		{Kind: "uefimethods", Name: "methodeffects",
			Arg: "Apply,ApplyChildren,BaseOffset,Buf,ChecksumHeader,EndOffset,FindSignature,FirstFV,FlashRegion,GetErasePolarity,HeaderLen,IsValid,String,Type,Valid,ValidRegions"},
		{Kind: "uefimethods", Name: "controleffects", Arg: "SetBuf,SetSize,GenSecHeader"}, // positive control
	}})
}

func init() {
	fnItem := func(kind string, collect func(p *pkgInfo, fd *ast.FuncDecl) []string) {
		extraKinds[kind] = func(em *emitter, p *pkgInfo, it Item) {
			fd, ok := p.funcs[it.Name]
			if !ok || fd.Body == nil {
				fmt.Fprintf(&em.b, "-- EXTRACTION FAILED: function not found\ndef %s_%s : List String := [\"<missing>\"]\n\n", kind, leanName(it.Name))
				em.failed = append(em.failed, it.Kind+":"+it.Name+" (function not found)")
				return
			}
			fmt.Fprintf(&em.b, "def %s_%s : List String := %s\n\n", kind, leanName(it.Name), strList(collect(p, fd)))
		}
	}
	fnItem("writes", func(p *pkgInfo, fd *ast.FuncDecl) []string { return collectWrites(p, fd, false) })
	fnItem("nodewrites", func(p *pkgInfo, fd *ast.FuncDecl) []string { return collectWrites(p, fd, true) })
	fnItem("callseq", func(p *pkgInfo, fd *ast.FuncDecl) []string {
		role := roles(fd)
		var out []string
		ast.Inspect(fd.Body, func(n ast.Node) bool {
			if c, ok := n.(*ast.CallExpr); ok {
				if _, ok := c.Fun.(*ast.SelectorExpr); ok {
					t, _, _ := normExpr(p, role, c.Fun)
					out = append(out, t)
				}
			}
			return true
		})
		return out
	})
	fnItem("bytelits", func(p *pkgInfo, fd *ast.FuncDecl) []string {
		var out []string
		ast.Inspect(fd.Body, func(n ast.Node) bool {
			c, ok := n.(*ast.CallExpr)
			if !ok || len(c.Args) != 1 {
				return true
			}
			at, ok := c.Fun.(*ast.ArrayType)
			if !ok || at.Len != nil {
				return true
			}
			if id, ok := at.Elt.(*ast.Ident); !ok || id.Name != "byte" {
				return true
			}
			if lit, ok := c.Args[0].(*ast.BasicLit); ok && lit.Kind == token.STRING {
				if s, err := strconv.Unquote(lit.Value); err == nil {
					out = append(out, s)
				}
			}
			return true
		})
		return out
	})
	extraKinds["clireg"] = func(em *emitter, p *pkgInfo, it Item) {
		type reg struct {
			name string
			n    int64
		}
		var rs []reg
		for _, f := range p.files {
			ast.Inspect(f, func(n ast.Node) bool {
				c, ok := n.(*ast.CallExpr)
				if !ok || len(c.Args) != 4 {
					return true
				}
				if id, ok := c.Fun.(*ast.Ident); !ok || id.Name != "RegisterCLI" {
					return true
				}
				lit, ok := c.Args[0].(*ast.BasicLit)
				if !ok || lit.Kind != token.STRING {
					return true
				}
				name, _ := strconv.Unquote(lit.Value)
				if v, ok := p.eval(c.Args[2], 0); ok {
					rs = append(rs, reg{name, v})
				}
				return true
			})
		}
		sort.Slice(rs, func(i, j int) bool { return rs[i].name < rs[j].name })
		var ss []string
		for _, r := range rs {
			ss = append(ss, fmt.Sprintf("(%s, %d)", leanStr(r.name), r.n))
		}
		if len(rs) == 0 {
			em.failed = append(em.failed, "clireg (no RegisterCLI call found)")
		}
		fmt.Fprintf(&em.b, "def clireg : List (String × Nat) := [%s]\n\n", strings.Join(ss, ", "))
	}

	var items []Item
	// the read-only commands of C03, every function of theirs
	for _, fn := range []string{"Find.Run", "Find.Visit", "JSON.Run", "JSON.Visit", "Table.Run", "Table.Visit",
		"Table.printFirmware", "printRowLayout", "printRowStd", "scanGUID", "Count.Run", "Count.Visit",
		"Validate.Run", "Validate.Visit", "Cat.Run", "Cat.Visit", "Dump.Run", "Dump.Visit", "Comment.Run", "Comment.Visit"} {
		items = append(items, Item{Kind: "nodewrites", Name: fn})
	}
	// positive control: flatten is not a read-only command, and the inventory sees why
	items = append(items, Item{Kind: "nodewrites", Name: "Flatten.Run"})
	// the editing commands: where they write
	for _, fn := range []string{"Insert.Run", "Insert.Visit", "Remove.Run", "Remove.Visit", "ReplacePE32.Run",
		"ReplacePE32.Visit", "Save.Run", "Save.Visit"} {
		items = append(items, Item{Kind: "writes", Name: fn})
	}
	items = append(items, Item{Kind: "nodewrites", Name: "ReplacePE32.Visit"})
	items = append(items,
		Item{Kind: "callseq", Name: "Save.Visit"},
		Item{Kind: "callseq", Name: "ExecuteCLI"},
		Item{Kind: "bytelits", Name: "ReplacePE32.Run"},
		Item{Kind: "calls", Name: "Remove.Visit", Arg: "uefi.CreatePadFile"},
		Item{Kind: "clireg", Name: "clireg"},
	)
	specs = append(specs, Spec{Area: "UefiEdit", Pkg: "pkg/visitors", Items: items})
	specs = append(specs, Spec{Area: "UefiEditTypes", Pkg: "pkg/uefi", Items: []Item{
		{Kind: "const", Name: "FVFileTypePEIM"},
		{Kind: "const", Name: "FVFileTypeDXECore"},
		{Kind: "const", Name: "FVFileTypePad"},
		{Kind: "const", Name: "SectionTypePE32"},
		{Kind: "const", Name: "SectionTypeRaw"},
		{Kind: "const", Name: "FileStateValid"},
		{Kind: "nodewrites", Name: "Read3Size"},
	}})
	specs = append(specs, Spec{Area: "UefiEditGuid", Pkg: "pkg/guid", Items: []Item{
		{Kind: "const", Name: "Size"},
		{Kind: "inttable", Name: "fields"},
	}})
}
