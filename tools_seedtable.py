#!/usr/bin/env python3
"""tools_seedtable.py <id>... : markdown table (seeded id, property, what it needs, latest verdict in seeded/RESULTS.md)."""
import json, os, re, sys
root = os.path.dirname(os.path.abspath(__file__))
last = {}
for l in open(os.path.join(root, "seeded/RESULTS.md")):
    m = re.match(r"\| (c\d+-\d+) \| (C\d+) \| ([^|]+) \| (\d+)s", l)
    if m:
        last[m.group(1)] = (m.group(3).strip(), m.group(4))
print("| seeded | property | what it needs to manifest | verdict (quick tier) |\n|---|---|---|---|")
def key(i):
    a, b = i[1:].split("-"); return (int(a), int(b))
for i in sorted(sys.argv[1:], key=key):
    m = json.load(open(os.path.join(root, "seeded", i, "meta.json")))
    needs = " ".join(m.get("needs", "").split())
    if len(needs) > 230: needs = needs[:227] + "…"
    v, t = last.get(i, ("not run", "-"))
    print("| %s | %s | %s | %s (%s s) |" % (i, m["property"], needs.replace("|", "/"), v, t))
