import re,glob,sys
root=sys.argv[1] if len(sys.argv)>1 else '.'
files=glob.glob(root+'/FianoModel/Uefi/Validate*.lean')+[root+'/FianoModel/Uefi/ChecksumLemmas.lean',root+'/FianoModel/Props/C09.lean']
names=['align8_eq','align8_ge','rd_drop','rd_lt','sum8_append','sum8_cons','sum8_nil']
for p in files:
    s=open(p).read(); o=s
    for n in names:
        s=re.sub(r'(?<![\w.])'+n+r'\b', 'v_'+n, s)
    if s!=o: open(p,'w').write(s); print('changed',p)
