#!/usr/bin/env python3
"""Apply reports/T1X-merge.json to checks.d/Cxx.json and lean/FianoModel/Props/Cxx.lean (idempotent).
usage: python3 reports/T1X-apply-merge.py [--root /verif] [--dry-run] [--with-text]
--with-text also appends the proposed sentence to level.text of each check."""
import json, os, re, sys

root = os.path.dirname(os.path.dirname(os.path.abspath(__file__)))
if "--root" in sys.argv:
    root = sys.argv[sys.argv.index("--root") + 1]
dry = "--dry-run" in sys.argv
with_text = "--with-text" in sys.argv
plan = json.load(open(os.path.join(root, "reports", "T1X-merge.json")))
for cid, add in sorted(plan.items()):
    if cid.startswith("_"):
        continue
    cpath = os.path.join(root, "checks.d", cid + ".json")
    ppath = os.path.join(root, "lean", "FianoModel", "Props", cid + ".lean")
    if not (os.path.exists(cpath) and os.path.exists(ppath)):
        print(cid, "skipped (check or Props module missing)")
        continue
    cfg = json.load(open(cpath))
    changed = []
    for key in ("gen_areas", "tie_modules"):
        cur = cfg.setdefault(key, [])
        for v in add.get(key, []):
            if v not in cur:
                cur.append(v)
                changed.append("%s+=%s" % (key, v))
    t = add.get("level_text_append")
    if with_text and t and t not in cfg["level"]["text"]:
        cfg["level"]["text"] += t
        changed.append("level.text")
    src = open(ppath).read()
    lines = src.split("\n")
    last_import = max(i for i, l in enumerate(lines) if l.startswith("import "))
    for m in add.get("tie_modules", []):
        if not re.search(r"^import %s\s*(--.*)?$" % re.escape(m), src, flags=re.M):
            lines.insert(last_import + 1, "import %s   -- T1 code-as-code tie (wp-t1x): audited as a tie module of this check" % m)
            last_import += 1
            changed.append("import " + m)
    print(cid, ", ".join(changed) if changed else "already merged")
    if changed and not dry:
        json.dump(cfg, open(cpath, "w"), indent=1)
        open(ppath, "w").write("\n".join(lines))
