#!/usr/bin/env python3
"""Regenerate the expectation lists of lean/FianoModel/Uefi/TotalTie.lean from lean/FianoModel/Gen/UefiTotal*.lean.

Run after the translator (./check runs it) on a tree whose fault sites / guards have been *reviewed* against the
Go-semantics models of Total*.lean — the lists are what the models were written against, not a cache:
    cd /verif && translator/bin/translator -repo <tree> -out lean/FianoModel/Gen && python3 reports/C05-regen-tie.py
Only the part of the file after the marker "/-! ### fault sites of the parsers" is rewritten.
"""
import re, sys, os
root = os.path.join(os.path.dirname(os.path.abspath(__file__)), "..") if len(sys.argv) < 2 else sys.argv[1]
lean = os.path.join(root, "lean")
p = os.path.join(lean, "FianoModel/Uefi/TotalTie.lean")
s = open(p).read()
marker = "/-! ### fault sites of the parsers"
head = s[:s.index(marker)]
out = []
for area, title in [('UefiTotal', 'fault sites of the parsers (pkg/uefi)'), ('UefiTotalUnicode', 'pkg/unicode'),
                    ('UefiTotalCodec', 'pkg/compression'), ('UefiTotalVisitors', 'fault sites of the walkers (pkg/visitors)'),
                    ('UefiTotalGuards', 'bounds checks and progress guards (pkg/uefi)')]:
    src = open(os.path.join(lean, f'FianoModel/Gen/{area}.lean')).read()
    out.append(f'/-! ### {title} -/\n')
    for m in re.finditer(r'def (\w+) : List String := (\[.*?\])\n\n', src, re.S):
        name, val = m.group(1), m.group(2)
        items = re.findall(r'"(?:[^"\\]|\\.)*"', val)
        if not items:
            out.append(f'theorem {name} : Gen.{area}.{name} = [] := rfl\n')
            continue
        lines, cur = [], '    ['
        for i, it in enumerate(items):
            piece = it + (', ' if i < len(items) - 1 else ']')
            if len(cur) + len(piece) > 110:
                lines.append(cur.rstrip()); cur = '     '
            cur += piece
        lines.append(cur)
        out.append(f'theorem {name} : Gen.{area}.{name} =\n' + '\n'.join(lines) + ' := rfl\n')
    out.append('')
out.append('end Fiano.Uefi.TotalTie\n')
open(p, 'w').write(head + '\n'.join(out))
print("TotalTie.lean regenerated")

# follow-up wp-c05b: the inventories behind TotalAsm.lean / TotalNvarWalk.lean / blockMapEnd (TotalAsmTie.lean);
# only the part after its marker "/-! ### pkg/uefi" is rewritten
p2 = os.path.join(lean, "FianoModel/Uefi/TotalAsmTie.lean")
if os.path.exists(p2):
    s2 = open(p2).read()
    marker2 = "/-! ### pkg/uefi"
    head2 = s2[:s2.index(marker2)]
    out = []
    for area, title in [('UefiTotalAsm', 'pkg/uefi: the functions Assemble calls, and the visitor plumbing of NVAR / ME nodes'),
                        ('UefiTotalAsmVisitors', 'pkg/visitors: guards of Assemble.Visit / Extract.Visit / Validate.Visit, blockMapEnd')]:
        src = open(os.path.join(lean, f'FianoModel/Gen/{area}.lean')).read()
        out.append(f'/-! ### {title} -/\n')
        for m in re.finditer(r'def (\w+) : List String := (\[.*?\])\n\n', src, re.S):
            name, val = m.group(1), m.group(2)
            items = re.findall(r'"(?:[^"\\]|\\.)*"', val)
            if not items:
                out.append(f'theorem {name} : Gen.{area}.{name} = [] := rfl\n')
                continue
            lines, cur = [], '    ['
            for i, it in enumerate(items):
                piece = it + (', ' if i < len(items) - 1 else ']')
                if len(cur) + len(piece) > 110:
                    lines.append(cur.rstrip()); cur = '     '
                cur += piece
            lines.append(cur)
            out.append(f'theorem {name} : Gen.{area}.{name} =\n' + '\n'.join(lines) + ' := rfl\n')
        out.append('')
    out.append('end Fiano.Uefi.TotalAsmTie\n')
    open(p2, 'w').write(head2 + '\n'.join(out))
    print("TotalAsmTie.lean regenerated")
