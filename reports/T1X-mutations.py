#!/usr/bin/env python3
"""Mutation experiment of work package wp-t1x (tie T1, code translated as code).

For every mutation: reset the scratch worktree, apply one textual change to one Go function, run the
translator, compare the regenerated Gen/Code<Area>.lean with the unchanged one, and build the CodeTie
module(s) that are stated about it.  A *semantic* mutation must regenerate different code and break a
named tie theorem; a *harmless* rewrite must regenerate identical code or leave every theorem intact.

usage: T1X-mutations.py <worktree of /repo> <lean project dir> [--only NAME]
The worktree is restored after every mutation.  Nothing in /repo or /verif is touched.
"""
import json, os, re, subprocess, sys, time

WT, LEAN = sys.argv[1], sys.argv[2]
ONLY = sys.argv[sys.argv.index("--only") + 1] if "--only" in sys.argv else None
ROOT = os.path.dirname(os.path.dirname(os.path.abspath(__file__)))
TR = os.path.join(ROOT, "translator", "bin", "translator")
GEN = os.path.join(LEAN, "FianoModel", "Gen")

# kinds: sem = semantic change (must break a named theorem); harmless = rename / i++ ↔ i += 1 / comment
# (must stay silent); equiv = an *equivalent mutant* whose code has another shape (`>=` → `>` in
# Write3Size gives the same bytes for 0xFFFFFF) and shape = the same loop written in another form: for
# these two the statement stays true but the proof script follows the old shape and has to be updated —
# the check then reports the broken tie with "no-failing-input-found".
# name, kind, file, old text, new text, Gen area, modules to build
M = [
 ("Checksum8-op",        "sem", "pkg/uefi/uefi.go", "\t\tsum += val\n", "\t\tsum ^= val\n", "CodeUefi", ["FianoModel.Uefi.CodeTie"]),
 ("Checksum16-modulus",  "sem", "pkg/uefi/uefi.go", "buflen%2 != 0", "buflen%4 != 0", "CodeUefi", ["FianoModel.Uefi.CodeTie"]),
 ("Checksum16-step",     "sem", "pkg/uefi/uefi.go", "i < buflen; i += 2", "i < buflen; i += 4", "CodeUefi", ["FianoModel.Uefi.CodeTie"]),
 ("Checksum16-order",    "sem", "pkg/uefi/uefi.go", "binary.Read(r, binary.LittleEndian, &temp)", "binary.Read(r, binary.BigEndian, &temp)", "CodeUefi", ["FianoModel.Uefi.CodeTie"]),
 ("IsErased-cmp",        "sem", "pkg/uefi/uefi.go", "if c != polarity {", "if c < polarity {", "CodeUefi", ["FianoModel.Uefi.CodeTie", "FianoModel.Nvram.CodeTie", "FianoModel.TightenMe.CodeTie"]),
 ("Erase-bound",         "sem", "pkg/uefi/uefi.go", "j < blen; j++", "j < blen-1; j++", "CodeUefi", ["FianoModel.Uefi.CodeTie"]),
 ("Erase-param",         "sem", "pkg/uefi/uefi.go", "buf[j] = Attributes.ErasePolarity", "buf[j] = polarity", "CodeUefi", ["FianoModel.Uefi.CodeTie"]),
 ("FindFv-step",         "sem", "pkg/uefi/firmwarevolume.go", "offset += 8 {", "offset += 4 {", "CodeUefi", ["FianoModel.Uefi.CodeTie"]),
 ("FindFv-bound",        "sem", "pkg/uefi/firmwarevolume.go", "offset+4 < int64(len(data))", "offset+4 <= int64(len(data))", "CodeUefi", ["FianoModel.Uefi.CodeTie"]),
 ("FindFv-return",       "sem", "pkg/uefi/firmwarevolume.go", "return offset - 40", "return offset - 32", "CodeUefi", ["FianoModel.Uefi.CodeTie"]),
 ("FindSignature-off",   "sem", "pkg/uefi/flash.go", "if bytes.Equal(buf[16:16+len(FlashSignature)], FlashSignature) {", "if bytes.Equal(buf[12:12+len(FlashSignature)], FlashSignature) {", "CodeUefi", ["FianoModel.Uefi.CodeTie", "FianoModel.TightenMe.CodeTie"]),
 ("FindSignature-slice", "sem", "pkg/uefi/flash.go", "hex.Dump(buf[:firstBytesCnt])", "hex.Dump(buf[:firstBytesCnt+1])", "CodeUefi", ["FianoModel.Uefi.CodeTie"]),
 ("Read3Size-shift",     "sem", "pkg/uefi/uefi.go", "uint64(size[2])<<16", "uint64(size[2])<<17", "CodeUefi", ["FianoModel.Uefi.CodeTie"]),
 ("E-Write3Size-cmp",    "equiv", "pkg/uefi/uefi.go", "if size >= 0xFFFFFF {", "if size > 0xFFFFFF {", "CodeUefi", ["FianoModel.Uefi.CodeTie"]),
 ("nvar-skip",           "sem", "pkg/uefi/nvram.go", "\t\t\t\ti += 3 // Skip Next", "\t\t\t\ti += 2 // Skip Next", "CodeUefi", ["FianoModel.Uefi.CodeTie"]),
 ("nvar-start",          "sem", "pkg/uefi/nvram.go", "for i := int64(4); i < int64(v.Header.Size); i++", "for i := int64(3); i < int64(v.Header.Size); i++", "CodeUefi", ["FianoModel.Uefi.CodeTie"]),
 ("fletcher-order",      "sem", "pkg/amd/manifest/checksum.go", "\t\t\tc0 = c0 + uint32(val)\n\t\t\tc1 = c1 + c0\n", "\t\t\tc1 = c1 + c0\n\t\t\tc0 = c0 + uint32(val)\n", "CodeAmd", ["FianoModel.Amd.CodeTie"]),
 ("fletcher-guard",      "sem", "pkg/amd/manifest/checksum.go", "\t\t\tif i < len(data) {", "\t\t\tif i <= len(data) {", "CodeAmd", ["FianoModel.Amd.CodeTie"]),
 ("fletcher-modulus",    "sem", "pkg/amd/manifest/checksum.go", "c1 = c1 % 65535", "c1 = c1 % 65536", "CodeAmd", ["FianoModel.Amd.CodeTie"]),
 ("fletcher-offset",     "sem", "pkg/amd/manifest/checksum.go", "pspDirectoryChecksumDataOffset  = 8", "pspDirectoryChecksumDataOffset  = 4", "CodeAmd", ["FianoModel.Amd.CodeTie"]),
 ("x86-maskcmp",         "sem", "pkg/compression/x86.go", "(mask > 4 || mask == 3 ||", "(mask >= 4 || mask == 3 ||", "CodeCompression", ["FianoModel.Compress.CodeTie"]),
 ("x86-shift",           "sem", "pkg/compression/x86.go", "sh := uint((mask & 6) << 2)", "sh := uint((mask & 6) << 3)", "CodeCompression", ["FianoModel.Compress.CodeTie"]),
 ("x86-advance",         "sem", "pkg/compression/x86.go", "\t\t\tpos += 5\n", "\t\t\tpos += 4\n", "CodeCompression", ["FianoModel.Compress.CodeTie"]),
 ("x86-signbyte",        "sem", "pkg/compression/x86.go", "data[p+4] = uint8(0 - ((v >> 24) & 1))", "data[p+4] = uint8(v >> 24)", "CodeCompression", ["FianoModel.Compress.CodeTie"]),
 ("x86-scanbound",       "sem", "pkg/compression/x86.go", "for ; p < size; p++ {", "for ; p <= size; p++ {", "CodeCompression", ["FianoModel.Compress.CodeTie"]),
 ("x86-msbyte",          "sem", "pkg/compression/x86.go", "return (b+1)&0xFE == 0", "return (b+1)&0xFC == 0", "CodeCompression", ["FianoModel.Compress.CodeTie"]),
 ("guidReverse-bound",   "sem", "pkg/guid/guid.go", "i < len(b)/2; i++", "i < len(b)/2+1; i++", "CodeGuid", ["FianoModel.Uefi.CodeTieGuid"]),
 ("psbReverse-bound",    "sem", "pkg/amd/psb/util.go", "right >= 0; right--", "right > 0; right--", "CodePsb", ["FianoModel.Crypto.CodeTie"]),
 ("checkBoundaries-cmp", "sem", "pkg/amd/psb/util.go", "\tif start > end {", "\tif start >= end {", "CodePsb", ["FianoModel.Crypto.CodeTie"]),
 ("reverseBytes-index",  "sem", "pkg/intel/metadata/cbnt/key.go", "r[idx] = b[len(b)-idx-1]", "r[idx] = b[len(b)-idx]", "CodeCbnt", ["FianoModel.Crypto.CodeTie"]),
 ("ffbyte-value",        "sem", "pkg/cbfs/fns.go", "\t\tb[i] = 0xff\n", "\t\tb[i] = 0xfe\n", "CodeCbfs", ["FianoModel.Cbfs.CodeTie"]),
 ("fit-sum-op",          "sem", "pkg/intel/metadata/fit/entry_headers.go", "result += _byte", "result -= _byte", "CodeFit", ["FianoModel.Fit.CodeTie"]),
 ("FindME-len",          "sem", "pkg/uefi/meregion.go", "return fptOffset + len(MEFPTSignature), nil", "return fptOffset + len(MEFPTSignature) - 1, nil", "CodeUefi", ["FianoModel.TightenMe.CodeTie"]),
 ("FindME-cmp",          "sem", "pkg/uefi/meregion.go", "\tif fptOffset >= 0 {", "\tif fptOffset > 0 {", "CodeUefi", ["FianoModel.TightenMe.CodeTie"]),
 ("GetAlignment-shift",  "sem", "pkg/uefi/file.go", "alignVal := (a & 0x38) >> 3", "alignVal := (a & 0x38) >> 2", "CodeUefi", ["FianoModel.Uefi.CodeTie"]),
 ("GetAlignment-table",  "sem", "pkg/uefi/file.go", "\t4 * 1024,\n", "\t8 * 1024,\n", "CodeUefi", ["FianoModel.Uefi.CodeTie"]),
 ("HasChecksum-bit",     "sem", "pkg/uefi/file.go", "return a&0x40 != 0", "return a&0x20 != 0", "CodeUefi", ["FianoModel.Uefi.CodeTie"]),
 ("tcvType-mask",        "sem", "pkg/intel/metadata/fit/entry_headers.go", "return EntryType(f & 0x7f)", "return EntryType(f & 0xff)", "CodeFit", ["FianoModel.Fit.CodeTie"]),
 ("tcvSetType-guard",    "sem", "pkg/intel/metadata/fit/entry_headers.go", "if uint(newType) & ^uint(0x7f) != 0 {", "if uint(newType) & ^uint(0xff) != 0 {", "CodeFit", ["FianoModel.Fit.CodeTie"]),
 ("pointer-size",        "sem", "pkg/intel/metadata/fit/consts/consts.go", "FITPointerOffset = 0x40", "FITPointerOffset = 0x48", "CodeFit", ["FianoModel.Fit.CodeTie"]),
 ("platformBinding-mask", "sem", "pkg/amd/psb/keys.go", "reserved[1] & 0xF,", "reserved[1] & 0x7,", "CodePsb", ["FianoModel.Amd.CodeTie"]),
 ("securityFeat-byte",   "sem", "pkg/amd/psb/keys.go", "DisableSecureDebugUnlock:   (reserved[3]>>2)&1 == 1,", "DisableSecureDebugUnlock:   (reserved[2]>>2)&1 == 1,", "CodePsb", ["FianoModel.Amd.CodeTie"]),
 ("inBytes-shift",       "sem", "pkg/intel/metadata/cbnt/key.go", "return uint16(ks >> 3)", "return uint16(ks >> 2)", "CodeCbnt", ["FianoModel.Crypto.CodeTie"]),
 ("H-setLarge-form",     "harmless", "pkg/uefi/file.go", "\t\t*a |= 0x01\n", "\t\t*a = *a | 0x01\n", "CodeUefi", ["FianoModel.Uefi.CodeTie"]),
 # harmless rewrites
 ("H-Checksum8-rename",  "harmless", "pkg/uefi/uefi.go", "\tvar sum uint8\n\tfor _, val := range buf {\n\t\tsum += val\n\t}\n\treturn sum\n", "\tvar acc uint8\n\tfor _, v := range buf {\n\t\tacc = acc + v\n\t}\n\treturn acc\n", "CodeUefi", ["FianoModel.Uefi.CodeTie"]),
 ("H-Erase-incr",        "harmless", "pkg/uefi/uefi.go", "j < blen; j++", "j < blen; j += 1", "CodeUefi", ["FianoModel.Uefi.CodeTie"]),
 ("H-Checksum16-rename", "harmless", "pkg/uefi/uefi.go", "\tvar temp, sum uint16\n\tfor i := 0; i < buflen; i += 2 {\n\t\tif err := binary.Read(r, binary.LittleEndian, &temp); err != nil {\n\t\t\treturn 0, err\n\t\t}\n\t\tsum += temp\n\t}\n\treturn sum, nil", "\tvar word, total uint16\n\tfor k := 0; k < buflen; k = k + 2 {\n\t\tif e := binary.Read(r, binary.LittleEndian, &word); e != nil {\n\t\t\treturn 0, e\n\t\t}\n\t\ttotal = total + word\n\t}\n\treturn total, nil", "CodeUefi", ["FianoModel.Uefi.CodeTie"]),
 ("H-fletcher-rename",   "harmless", "pkg/amd/manifest/checksum.go", "\t\t\tval := uint16(data[i])\n\t\t\ti++\n\t\t\tif i < len(data) {\n\t\t\t\tval += uint16(data[i]) << 8\n\t\t\t\ti++\n\t\t\t}\n\t\t\tc0 = c0 + uint32(val)", "\t\t\tw := uint16(data[i])\n\t\t\ti += 1\n\t\t\tif i < len(data) {\n\t\t\t\tw = w + uint16(data[i])<<8\n\t\t\t\ti += 1\n\t\t\t}\n\t\t\tc0 += uint32(w)", "CodeAmd", ["FianoModel.Amd.CodeTie"]),
 ("H-x86-incr",          "harmless", "pkg/compression/x86.go", "\t\t\tmask = (mask >> 1) | 4\n\t\t\tpos++\n\t\t}\n\t}\n}", "\t\t\tmask = (mask >> 1) | 4\n\t\t\tpos += 1\n\t\t}\n\t}\n}", "CodeCompression", ["FianoModel.Compress.CodeTie"]),
 ("H-x86-rename",        "harmless", "pkg/compression/x86.go", "\t\t\tcur := ip + uint32(pos)\n\t\t\tpos += 5\n\t\t\tif encoding {\n\t\t\t\tv += cur\n\t\t\t} else {\n\t\t\t\tv -= cur\n\t\t\t}\n\t\t\tif mask != 0 {", "\t\t\there := ip + uint32(pos)\n\t\t\tcur := here\n\t\t\tpos = pos + 5\n\t\t\tif encoding {\n\t\t\t\tv = v + cur\n\t\t\t} else {\n\t\t\t\tv = v - cur\n\t\t\t}\n\t\t\tif mask != 0 {", "CodeCompression", ["FianoModel.Compress.CodeTie"]),
 ("H-IsErased-comment",  "harmless", "pkg/uefi/uefi.go", "\tfor _, c := range buf {\n\t\tif c != polarity {", "\t// every byte must equal the polarity\n\tfor _, b := range buf {\n\t\tif b != polarity {", "CodeUefi", ["FianoModel.Uefi.CodeTie", "FianoModel.Nvram.CodeTie"]),
 # a rewrite that keeps the meaning but changes the loop *form*: expected to need a proof update
 ("S-IsErased-indexloop", "shape", "pkg/uefi/uefi.go", "\tfor _, c := range buf {\n\t\tif c != polarity {", "\tfor i := 0; i < len(buf); i++ {\n\t\tc := buf[i]\n\t\tif c != polarity {", "CodeUefi", ["FianoModel.Uefi.CodeTie"]),
]


def sh(cmd, cwd=None):
    p = subprocess.run(cmd, cwd=cwd, stdout=subprocess.PIPE, stderr=subprocess.STDOUT, text=True)
    return p.returncode, p.stdout


def translate():
    rc, out = sh([TR, "-repo", WT, "-out", GEN])
    rep = json.load(open(os.path.join(GEN, "report.json")))
    return rep


def decl_at(path, line):
    src = open(path).read().split("\n")
    for i in range(min(line, len(src)) - 1, -1, -1):
        m = re.match(r"^\s*(theorem|lemma|def|example)\s+(\S+)?", src[i])
        if m:
            return m.group(2) or "example"
    return "?"


def build(mods):
    broken = []
    for m in mods:
        rc, out = sh(["lake", "build", m], cwd=LEAN)
        if rc != 0:
            for l in out.split("\n"):
                mm = re.match(r"^error: (\S+?\.lean):(\d+):(\d+): (.*)$", l.strip())
                if mm:
                    d = decl_at(os.path.join(LEAN, mm.group(1)), int(mm.group(2)))
                    if d not in broken:
                        broken.append(d)
            if not broken:
                broken.append("build failed: " + out[-200:])
    return broken


sh(["git", "checkout", "--", "."], cwd=WT)
translate()
base = {}
for fn in os.listdir(GEN):
    if fn.startswith("Code") and fn.endswith(".lean"):
        base[fn[:-5]] = open(os.path.join(GEN, fn)).read()
rows = []
for name, kind, f, old, new, area, mods in M:
    if ONLY and ONLY not in name:
        continue
    path = os.path.join(WT, f)
    src = open(path).read()
    if src.count(old) != 1:
        rows.append((name, kind, "PATTERN NOT FOUND x%d" % src.count(old), "", ""))
        print("%-24s %-8s %s" % rows[-1][:3], flush=True)
        continue
    open(path, "w").write(src.replace(old, new))
    t0 = time.time()
    rc, vet = sh(["go", "build", "./" + os.path.dirname(f)], cwd=WT)
    rep = translate()
    regenerated = open(os.path.join(GEN, area + ".lean")).read() != base[area]
    failed = rep.get(area, [])
    broken = build(mods) if regenerated else []
    rows.append((name, kind, "compiles" if rc == 0 else "GO BUILD FAILS", "regenerated differently" if regenerated else "identical text",
                 ("extraction failed: " + "; ".join(failed)[:120]) if failed else (", ".join(broken[:4]) if broken else "all theorems hold")))
    print("%-24s %-8s %-8s %-24s %s   (%.0fs)" % (rows[-1] + (time.time() - t0,)), flush=True)
    sh(["git", "checkout", "--", f], cwd=WT)
translate()
for m in sorted({m for r in M for m in r[6]}):
    sh(["lake", "build", m], cwd=LEAN)
ok = True
for name, kind, comp, regen, result in rows:
    if kind == "sem" and (regen != "regenerated differently" or result == "all theorems hold"):
        ok = False
        print("NOT DETECTED:", name)
    if kind == "harmless" and result != "all theorems hold":
        ok = False
        print("FALSE ALARM:", name, result)
print("mutations: %d, all as expected: %s" % (len(rows), ok))
